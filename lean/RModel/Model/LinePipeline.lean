import RModel.Base.Bytes
import RModel.Model.CaseModel
import RModel.Model.CaseConstraint
import RModel.Model.VariantMap
import RModel.Model.Edits
import RModel.Gen.Styles
import RModel.Gen.LineTables
/-
  L1–L3 for ONE LINE: what `renamify plan/rename <search> <replace>` does to a file that consists of a single line.

  Mirrors, in order of the data flow:
    case_constraints.rs   `check_case_constraint`, `has_consecutive_uppercase`, `check_separator_constraints`,
                          `can_match_style`, `filter_compatible_styles`;  `ambiguity::is_ambiguous`
    ambiguity/resolver.rs `resolve_with_styles` → `try_replacement_preference` → `default_fallback`; the three context
                          heuristics (language, file, cross-file) are ONE parameter `heur` that gets the constrained style
                          list (the model's executable instance is `fun _ => none`: a one-line `.txt` file has no language
                          module, fewer than 50 identifiers and no project root)
    operations/plan.rs    `build_styles_list` (same text in operations/rename.rs)
    scanner.rs            `VariantMap` (+ `get`), `generate_variant_map_with_acronyms` (no atomic config),
                          the replacement decision of `generate_hunks` (map entry | ambiguity branch | coercion | first-letter
                          fix-up), `extract_immediate_context`
    pattern.rs            `build_pattern` (alternation, keys ordered by escaped length, stable), `is_boundary`
    compound_scanner.rs   the exact pass of `find_enhanced_matches` incl. `skip_exact_match`
    apply.rs              `Edits.applyEdits`

  NOT transliterated, but parameters with an explicit contract (`Env`):
    * `coerce ctx old new` = `apply_coercion(ctx, old, new)` composed with `apply_coercion_to_variant` (coercion.rs).  Only its
      first exit is modelled: it returns `None` when the immediate identifier context is the match itself
      (`coerceGuard`); the driver reports `unmodelled` when a line leaves that fragment.
    * `compound line` = the hunks contributed by the compound pass (identifier extraction + `find_compound_variants` +
      overlap resolution).  The theorems assume it contributes nothing on the lines they talk about; the driver uses `[]`,
      so any compound hunk on a generated line shows up as a model/implementation difference.
  Domain: ASCII line without interior line break, non-empty search and replacement, `ignore_ambiguous = false`,
  no `--exclude-match`, `CoercionMode::Auto` (the CLI's fixed choice).
-/
open B CaseModel

namespace LinePipeline

-- ---------------------------------------------------------------------------------------------------------------------
-- case_constraints.rs

def hasUpper (s : Bytes) : Bool := s.any isUpper
def hasLower (s : Bytes) : Bool := s.any isLower

/-- `has_consecutive_uppercase`: an upper-case run (letters and digits, starting with a letter) of length ≥ 2 none of whose
    prefixes of length ≥ 2 is a known acronym; a text that is itself an acronym is exempt.  Fuel = length + 1. -/
def hcuGo (A : Acr) : Nat → Bytes → Bool
  | 0, _ => false
  | _, [] => false
  | f + 1, c :: cs =>
    if isUpper c then
      let seq := (c :: cs).takeWhile (fun x => isUpper x || isDigit x)
      let found := (List.range' 2 (seq.length - 1)).any (fun len => A.isAcr (seq.take len))
      if decide (seq.length ≥ 2) && !found then true else hcuGo A f ((c :: cs).drop seq.length)
    else hcuGo A f cs

def hasConsecutiveUpper (A : Acr) (text : Bytes) : Bool :=
  if A.isAcr text then false else hcuGo A (text.length + 1) text

/-- `check_case_constraint` (ASCII) -/
def checkCase (A : Acr) (text : Bytes) (c : CaseConstraint) : Bool :=
  match text with
  | [] => false
  | first :: rest =>
    match c with
    | .allUppercase => !hasLower text
    | .allLowercase => !hasUpper text
    | .titlePattern => isUpper first && rest.all (fun x => isLower x || !isAlpha x)
    | .camelPattern => isLower first && !hasConsecutiveUpper A text
    | .pascalPattern => isUpper first && !hasConsecutiveUpper A text
    | .titleWordsPattern =>
      (splitOn text 32).all (fun w =>
        match w with
        | [] => false
        | c :: cs => isUpper c && cs.all (fun x => isLower x || !isAlpha x))

/-- `check_separator_constraints`: every separator of `ALL_SEPARATORS` other than the style's own is forbidden -/
def checkSep (text : Bytes) (sep : Option UInt8) : Bool :=
  Gen.allSeparators.all (fun s => (sep == some s) || !contains text s)

/-- `can_match_style` -/
def canMatchStyle (A : Acr) (text : Bytes) (st : Style) : Bool :=
  checkCase A text (Gen.styleConstraints st).1 && checkSep text (Gen.styleConstraints st).2

/-- `filter_compatible_styles` -/
def filterCompatible (A : Acr) (text : Bytes) (styles : List Style) : List Style :=
  styles.filter (canMatchStyle A text)

/-- `ambiguity::is_ambiguous` -/
def isAmbiguous (A : Acr) (text : Bytes) (styles : List Style) : Bool :=
  decide ((filterCompatible A text styles).length > 1)

-- ---------------------------------------------------------------------------------------------------------------------
-- ambiguity/resolver.rs

def isFlat : Style → Bool
  | .lowerFlat | .upperFlat => true
  | _ => false

/-- `default_fallback` -/
def defaultFallback (A : Acr) (possible : List Style) (repl : Bytes) (replPossible : List Style) : Style :=
  let common := possible.filter (fun s => replPossible.contains s)
  match common with
  | [s] => s
  | _ =>
    let viaRepl : Option Style :=
      if common.isEmpty then none
      else
        match detectStyle A repl with
        | some rs => if common.contains rs then some rs else Gen.defaultPrecedence.find? (fun s => common.contains s)
        | none => Gen.defaultPrecedence.find? (fun s => common.contains s)
    match viaRepl with
    | some s => s
    | none =>
      match Gen.defaultPrecedence.find? (fun s => possible.contains s) with
      | some s => s
      | none => possible.headD .lowerFlat

/-- `try_replacement_preference` -/
def replacementPreference (A : Acr) (possible : List Style) (repl : Bytes) (replPossible : List Style) : Style :=
  match detectStyle A repl with
  | some rs =>
    if possible.contains rs then rs
    else if possible.all isFlat && !isFlat rs then rs
    else defaultFallback A possible repl replPossible
  | none => defaultFallback A possible repl replPossible

/-- `AmbiguityResolver::resolve_with_styles`; `heur` = language heuristics, then file context, then cross-file context,
    each of which is handed the constrained list -/
def resolve (A : Acr) (heur : List Style → Option Style) (matched repl : Bytes) (replPossible : List Style) : Style :=
  let notAmb : Option Style :=
    if !isAmbiguous A matched Gen.allStyles then detectStyle A matched else none
  match notAmb with
  | some st => st
  | none =>
    let possible := filterCompatible A matched Gen.allStyles
    let constrained := filterCompatible A matched possible
    if constrained.isEmpty then defaultFallback A possible repl replPossible
    else
      match heur constrained with
      | some s => s
      | none => replacementPreference A constrained repl replPossible

-- ---------------------------------------------------------------------------------------------------------------------
-- operations/plan.rs (and operations/rename.rs): the three CLI style options → `PlanOptions.styles`

structure StyleOpts where
  excl : List Style := []
  incl : List Style := []
  only : List Style := []
  deriving Repr

/-- `build_styles_list` together with what its two call sites do with `None` (`Gen.excludeAllYieldsEmpty`): the value
    that reaches `PlanOptions.styles` -/
def buildStylesList (o : StyleOpts) : Option (List Style) :=
  if o.only.isEmpty then
    let active := Gen.defaultStyles.filter (fun s => !o.excl.contains s)
    let active := o.incl.foldl (fun acc s => if acc.contains s then acc else acc ++ [s]) active
    if active.isEmpty then (if Gen.excludeAllYieldsEmpty then some [] else none) else some active
  else some o.only

/-- the styles the exact pass really matches: the variant map is built from `styles`, or from the scanner's own 7-style
    default when `build_styles_list` returned `None` -/
def enabledStyles (o : StyleOpts) : List Style :=
  (buildStylesList o).getD Gen.scannerVariantDefaultStyles

/-- `styles_slice` of `scan_repository_multi` (compound pass, `skip_exact_match`) -/
def stylesSlice (o : StyleOpts) : List Style :=
  (buildStylesList o).getD Gen.scannerCompoundDefaultStyles

/-- `Plan.styles` (header only) -/
def planHeaderStyles (o : StyleOpts) : List Style :=
  (buildStylesList o).getD Gen.planHeaderDefaultStyles

-- ---------------------------------------------------------------------------------------------------------------------
-- scanner.rs: VariantMap

/-- byte-wise lexicographic `<` (`String: Ord`) -/
def bytesLt : Bytes → Bytes → Bool
  | [], [] => false
  | [], _ :: _ => true
  | _ :: _, [] => false
  | a :: as, b :: bs => if a < b then true else if b < a then false else bytesLt as bs

/-- `BTreeMap<String, Vec<(Option<Style>, String)>>`: an association list with unique keys (in first-insertion order);
    the B-tree's key order is produced where it is observed, by `SMap.keys` -/
abbrev SMap := List (Bytes × List (Option Style × Bytes))

/-- `VariantMap::insert`: `entry(search).or_default().push((style, replacement))` -/
def SMap.insert : SMap → Bytes → Option Style → Bytes → SMap
  | [], k, st, v => [(k, [(st, v)])]
  | (k', l) :: m, k, st, v =>
    if k == k' then (k', l ++ [(st, v)]) :: m else (k', l) :: SMap.insert m k st v

def insertSorted (k : Bytes) : List Bytes → List Bytes
  | [] => [k]
  | x :: xs => if bytesLt k x then k :: x :: xs else x :: insertSorted k xs

/-- `VariantMap::keys()`: the keys in `String` order -/
def SMap.keys (m : SMap) : List Bytes := (m.map (·.1)).foldr insertSorted []

def SMap.containsKey (m : SMap) (k : Bytes) : Bool := (m.lookup k).isSome

/-- `VariantMap::get`: the only entry, else the Snake entry, else the first -/
def SMap.get (m : SMap) (k : Bytes) : Option Bytes :=
  match m.lookup k with
  | none => none
  | some [] => none
  | some [e] => some e.2
  | some l =>
    match l.find? (fun e => e.1 == some Style.snake) with
    | some e => some e.2
    | none => l.head?.map (·.2)

/-- the `(key, style, value)` insertions in program order -/
def variantInserts (A : Acr) (styles : Option (List Style)) (plurals : Bool) (sing plur : Bytes → Option Bytes)
    (search replace : Bytes) : List (Bytes × Option Style × Bytes) :=
  let models := variantModels plurals sing plur (parse A search) (parse A replace)
  (if styles.isNone then [(search, none, replace)] else []) ++
  (styles.getD Gen.scannerVariantDefaultStyles).flatMap (fun st =>
    models.map (fun m => (toStyle A m.1 st, some st, toStyle A m.2 st)))

/-- `generate_variant_map_with_acronyms` (`atomic_config = None`) -/
def scanVariantMap (A : Acr) (styles : Option (List Style)) (plurals : Bool) (sing plur : Bytes → Option Bytes)
    (search replace : Bytes) : SMap :=
  (variantInserts A styles plurals sing plur search replace).foldl (fun m e => m.insert e.1 e.2.1 e.2.2) []

-- ---------------------------------------------------------------------------------------------------------------------
-- pattern.rs

/-- length of `regex::escape(k)` -/
def escLen (k : Bytes) : Nat := k.length + (k.filter (fun c => Gen.regexMeta.contains c)).length

/-- stable insertion into a list ordered by `escLen` descending (`sort_by_key(Reverse(len))` is stable) -/
def insertByLen (k : Bytes) : List Bytes → List Bytes
  | [] => [k]
  | x :: xs => if escLen x < escLen k then k :: x :: xs else x :: insertByLen k xs

def sortKeys (ks : List Bytes) : List Bytes := ks.foldr insertByLen []

/-- leftmost-first alternation at one position: the first alternative that is a prefix of the rest -/
def firstAlt (alts : List Bytes) (rest : Bytes) : Option Bytes :=
  alts.find? (fun k => !k.isEmpty && k.isPrefixOf rest)

/-- `regex.find_iter`: successive non-overlapping leftmost matches `(start, key)` -/
def findIter (alts : List Bytes) : Nat → Nat → Bytes → List (Nat × Bytes)
  | _, _, [] => []
  | pos, skip + 1, _ :: rest => findIter alts (pos + 1) skip rest
  | pos, 0, c :: rest =>
    match firstAlt alts (c :: rest) with
    | some k => (pos, k) :: findIter alts (pos + 1) (k.length - 1) rest
    | none => findIter alts (pos + 1) 0 rest

def isWhitespace (c : UInt8) : Bool :=
  decide (c.toNat = 32) || decide (c.toNat = 9) || decide (c.toNat = 10) || decide (c.toNat = 12) || decide (c.toNat = 13)

def isPunct (c : UInt8) : Bool :=
  (decide (33 ≤ c.toNat) && decide (c.toNat ≤ 47)) || (decide (58 ≤ c.toNat) && decide (c.toNat ≤ 64)) ||
  (decide (91 ≤ c.toNat) && decide (c.toNat ≤ 96)) || (decide (123 ≤ c.toNat) && decide (c.toNat ≤ 126))

/-- one side of `is_boundary` for a space-separated match -/
def spaceSide (c : UInt8) : Bool :=
  isWhitespace c || (isPunct c && c != 45 && c != 95) || (!isAlnum c && c != 45 && c != 95)

/-- `is_boundary(bytes, start, end)`; precondition of the Rust slice `start ≤ end ≤ len` -/
def isBoundary (bytes : Bytes) (start stop : Nat) : Bool :=
  let spaceSep := contains ((bytes.take stop).drop start) 32
  let left :=
    if start = 0 then true
    else
      match bytes[start - 1]?, bytes[start]? with
      | some prev, cur =>
        if spaceSep then spaceSide prev
        else !isAlnum prev || ((cur.map isUpper).getD false && isLower prev)
      | none, _ => true
  let right :=
    match bytes[stop]? with
    | none => true
    | some next =>
      if spaceSep then spaceSide next
      else !isAlnum next ||
        (isUpper next && decide (stop > 0) && ((bytes[stop - 1]?).map isLower).getD false)
  left && right

/-- the exact pass: regex matches that pass the boundary test -/
def exactMatches (content : Bytes) (keys : List Bytes) : List (Nat × Bytes) :=
  (findIter (sortKeys keys) 0 0 content).filter (fun m => isBoundary content m.1 (m.1 + m.2.length))

-- ---------------------------------------------------------------------------------------------------------------------
-- scanner.rs: generate_hunks

/-- `extract_immediate_context(line, s, e)`: the match widened over `[A-Za-z0-9_-]` on both sides -/
def isIdentChar (c : UInt8) : Bool := isAlnum c || c == 95 || c == 45

def immediateContext (line : Bytes) (s e : Nat) : Bytes :=
  let before := ((line.take s).reverse.takeWhile isIdentChar).reverse
  let after := (line.drop e).takeWhile isIdentChar
  before ++ (line.take e).drop s ++ after

/-- `coercion::extract_prefix` -/
def stripPrefix (s : Bytes) : Bytes :=
  match s with
  | 95 :: 95 :: r => r
  | 95 :: r => r
  | _ => s

/-- the first exit of `apply_coercion`: nothing to coerce when the container is the pattern itself -/
def coerceGuard (ctx old : Bytes) : Bool := lower (stripPrefix ctx) == lower old

structure Env where
  /-- language / file / cross-file heuristics of the resolver -/
  heur : List Style → Option Style
  /-- `apply_coercion` ∘ `apply_coercion_to_variant` on (context, match, replacement) -/
  coerce : Bytes → Bytes → Bytes → Option Bytes
  /-- hunks `(start, stop, content, replacement)` contributed by the compound pass, after overlap resolution -/
  compound : Bytes → List (Nat × Nat × Bytes × Bytes)

/-- the contracts the theorems use -/
def Env.HeurOk (env : Env) : Prop := ∀ l s, env.heur l = some s → s ∈ l
def Env.CoerceOk (env : Env) : Prop := ∀ ctx old new, coerceGuard ctx old = true → env.coerce ctx old new = none

/-- `str::find` of the match text in the line (first occurrence) -/
def findSub (line pat : Bytes) : Option Nat := B.find line pat

/-- first-letter fix-up at the end of the replacement decision -/
def fixFirst (content repl : Bytes) : Bytes :=
  match content.head?, repl with
  | some c, r :: rs => if isUpper c && isLower r then toUpper r :: rs else repl
  | _, _ => repl

/-- which branch produced the text before coercion (for the theorems and the driver's trace) -/
inductive Branch where
  | mapEntry | ambiguity
  deriving DecidableEq, Repr

/-- the replacement before coercion for an exact match `variant` (a key of the map) -/
def baseReplacement (A : Acr) (env : Env) (vm : SMap) (variant origRepl : Bytes) : Option (Branch × Bytes) :=
  if isAmbiguous A variant Gen.allStyles then
    let replPossible := filterCompatible A origRepl Gen.allStyles
    let st := resolve A env.heur variant origRepl replPossible
    some (.ambiguity, toStyle A (parse A origRepl) st)
  else (vm.get variant).map (fun r => (.mapEntry, r))

/-- where `generate_hunks` looks for the text of the match whose context decides coercion: at the match's own column
    (`start`; one valid UTF-8 line, so the decoded prefix has the same length) when the source does so
    (`Gen.coercionContextAtColumn`), else — and as a fallback — at the FIRST place the text occurs in the line -/
def contextPos (line : Bytes) (start : Nat) (variant : Bytes) : Option Nat :=
  if Gen.coercionContextAtColumn && variant.isPrefixOf (line.drop start) then some start else findSub line variant

/-- `content → replace` of the hunk for an exact match that starts at byte `start` of the line -/
def hunkReplacement (A : Acr) (env : Env) (vm : SMap) (line : Bytes) (start : Nat) (variant origRepl : Bytes) : Option Bytes :=
  match baseReplacement A env vm variant origRepl with
  | none => none
  | some (_, r0) =>
    let r1 :=
      match contextPos line start variant with
      | some p =>
        match env.coerce (immediateContext line p (p + variant.length)) variant r0 with
        | some c => c
        | none => r0
      | none => r0
    some (fixFirst variant r1)

/-- `is_single_word_search && is_single_style_search` of `find_enhanced_matches` (`Gen.skipExactUsesTokens`: whether the
    source also asks the typed term to tokenize to a single word) -/
def skipExact (A : Acr) (search : Bytes) (slice : List Style) : Bool :=
  !contains search 95 && !contains search 45 && !contains search 46 && !contains search 32 &&
    (!Gen.skipExactUsesTokens || decide ((parse A search).length < 2)) &&
    decide (slice.length = 1)

/-- the variant table of a CLI call: the handlers always pass `Some(AtomicConfig)`, and `generate_variant_map_with_acronyms`
    then takes `case_model::generate_variant_map_internal` (first row wins, `or_insert`; rows with an empty key skipped) and
    stores every pair with style `None`.  With no `--atomic-*` flag and no configured identifier nothing is atomic. -/
def cliVariantMap (A : Acr) (styles : Option (List Style)) (plurals : Bool) (sing plur : Bytes → Option Bytes)
    (search replace : Bytes) : SMap :=
  ((variantMap A styles plurals sing plur (isAmbiguous A search Gen.allStyles) search replace).filter
    (fun e => !e.1.isEmpty)).map (fun e => (e.1, [(none, e.2)]))

structure Cfg where
  A : Acr
  env : Env
  opts : StyleOpts
  plurals : Bool
  sing : Bytes → Option Bytes
  plur : Bytes → Option Bytes
  search : Bytes
  replace : Bytes
  /-- `true`: the call of the CLI handlers (atomic configuration present); `false`: core API with `atomic_config = None` -/
  cliPath : Bool := true

def Cfg.vmap (cfg : Cfg) : SMap :=
  if cfg.cliPath then
    cliVariantMap cfg.A (buildStylesList cfg.opts) cfg.plurals cfg.sing cfg.plur cfg.search cfg.replace
  else scanVariantMap cfg.A (buildStylesList cfg.opts) cfg.plurals cfg.sing cfg.plur cfg.search cfg.replace

/-- the hunks of the exact matches, in match order; `none` when a match has no replacement (cannot happen for map keys) -/
def exactHunks (cfg : Cfg) (vm : SMap) (line : Bytes) : List (Nat × Bytes) → Option (List Edits.Edit)
  | [] => some []
  | m :: ms =>
    match hunkReplacement cfg.A cfg.env vm line m.1 m.2 cfg.replace, exactHunks cfg vm line ms with
    | some r, some es => some ({ before := m.2, after := r, start := m.1, stop := m.1 + m.2.length } :: es)
    | _, _ => none

/-- the hunks of the line: exact pass (unless skipped) plus whatever the compound pass contributes, by start -/
def lineHunks (cfg : Cfg) (line : Bytes) : Option (List Edits.Edit) :=
  let vm := cfg.vmap
  let exact := if skipExact cfg.A cfg.search (stylesSlice cfg.opts) then [] else exactMatches line vm.keys
  match exactHunks cfg vm line exact with
  | none => none
  | some hs =>
    let ch := (cfg.env.compound line).map (fun c =>
      ({ before := c.2.2.1, after := c.2.2.2, start := c.1, stop := c.2.1 } : Edits.Edit))
    some ((hs ++ ch).mergeSort (fun a b => decide (a.start ≤ b.start)))

/-- plan + apply on the one-line file; `none` = the Rust code would fail (stale/overlapping hunks) -/
def rewriteLine (cfg : Cfg) (line : Bytes) : Option Bytes :=
  match lineHunks cfg line with
  | none => none
  | some es =>
    match Edits.applyEdits line es with
    | .ok b => some b
    | .error _ => none

end LinePipeline
