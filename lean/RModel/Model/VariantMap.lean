import RModel.Model.CaseModel
import RModel.Gen.Styles
/-
  L1: `case_model.rs::generate_variant_map_internal` (lines 702–818), without atomic mode (`atomic_config = None`).

  * `BTreeMap<String,String>` is an association list in insertion order; `entry(k).or_insert(v)` = `insertIfAbsent`,
    `insert(k, v)` = `insertOverride`.  Only `lookup` (and, in the driver, the sorted listing) is observed.
  * the pluralizer is a pair of parameters `sing plur : Bytes → Option Bytes` (`singularize_token_case`,
    `pluralize_token_case`), applied to the last token by `transformLast` (= `transform_last_token`).
  * `is_ambiguous(search, all_styles)` is the parameter `isAmbiguous`.
-/
open B

namespace CaseModel

/-- `transform_last_token` -/
def transformLast (f : Bytes → Option Bytes) (ts : List Bytes) : Option (List Bytes) :=
  match ts.getLast? with
  | none => none
  | some t =>
    match f t with
    | none => none
    | some t' => if t' == t then none else some (ts.dropLast ++ [t'])

/-- `variant_models`: the base pair, then the singular pair, then the plural pair -/
def variantModels (plurals : Bool) (sing plur : Bytes → Option Bytes) (st rt : List Bytes) :
    List (List Bytes × List Bytes) :=
  (st, rt) ::
    (if plurals then
      (match transformLast sing st with
        | some ss => [(ss, (transformLast sing rt).getD rt)]
        | none => []) ++
      (match transformLast plur st with
        | some ps => [(ps, (transformLast plur rt).getD rt)]
        | none => [])
    else [])

/-- `map.entry(k).or_insert(v)` -/
def insertIfAbsent (m : List (Bytes × Bytes)) (k v : Bytes) : List (Bytes × Bytes) :=
  if (m.lookup k).isSome then m else m ++ [(k, v)]

/-- `map.insert(k, v)` -/
def insertOverride (m : List (Bytes × Bytes)) (k v : Bytes) : List (Bytes × Bytes) :=
  (k, v) :: m.filter (fun e => !(e.1 == k))

/-- the `(search_variant, replace_variant)` pairs in generation order: styles outer, models inner -/
def variantRows (A : Acr) (styles : List Style) (models : List (List Bytes × List Bytes)) : List (Bytes × Bytes) :=
  styles.flatMap (fun st => models.map (fun m => (toStyle A m.1 st, toStyle A m.2 st)))

def buildMap (rows : List (Bytes × Bytes)) : List (Bytes × Bytes) :=
  rows.foldl (fun m e => insertIfAbsent m e.1 e.2) []

/-- `generate_variant_map_internal(search, replace, styles, None, plurals)` -/
def variantMap (A : Acr) (styles : Option (List Style)) (plurals : Bool) (sing plur : Bytes → Option Bytes)
    (isAmbiguous : Bool) (search replace : Bytes) : List (Bytes × Bytes) :=
  let usingDefault := styles.isNone
  let sty := styles.getD Gen.variantMapDefaultStyles
  let models := variantModels plurals sing plur (parse A search) (parse A replace)
  let m := buildMap (variantRows A sty models)
  if usingDefault && !isAmbiguous then insertOverride m search replace else m

end CaseModel
