import RModel.Base.Bytes
import RModel.Base.Utf8
/-
  Model of `renamify-core/src/pattern.rs`:

    build_pattern   escapes every variant with `regex::escape`, sorts the escaped strings by
                    *escaped* length, descending, with a stable sort, and joins them with `|`
                    into `(?:a|b|…)` compiled by `regex::bytes` (unicode off);
    find_matches    `regex.find_iter(content)`: leftmost-first search.  At the first position
                    (from the end of the previous match on) where some alternative is a prefix of
                    the remaining input, the FIRST such alternative in pattern order wins; the
                    search continues after the end of that match, whether or not `is_boundary`
                    accepted it;
    is_boundary     transliterated byte for byte (both branches), including the places where the
                    Rust code indexes out of range (`none` = panic);
    line / column   `1 + #'\n' before start`, `start − (index after the last '\n' before start)`;
    identify_variant  Aho-Corasick `LeftmostLongest` `find` over the ORIGINAL variant order.

  Empty variants: `regex` and `aho-corasick` have special rules for empty matches that the planner
  never exercises (the variant table has no empty key); the model treats an empty alternative as
  never matching and the correspondence check never sends one.  The empty variant LIST is modelled
  (`build_pattern(&[])` compiles `$^`, which matches the empty input once).
-/
namespace Matcher

/-- `regex_syntax::is_meta_character` (all of them ASCII, so escaping a UTF-8 string byte-wise is exact) -/
def isMeta (c : UInt8) : Bool :=
  let n := c.toNat
  n == 92 || n == 46 || n == 43 || n == 42 || n == 63 || n == 40 || n == 41 || n == 124 ||
  n == 91 || n == 93 || n == 123 || n == 125 || n == 94 || n == 36 || n == 35 || n == 38 ||
  n == 45 || n == 126

/-- `regex::escape(v).len()` -/
def escapeLen : Bytes → Nat
  | [] => 0
  | c :: cs => (if isMeta c then 2 else 1) + escapeLen cs

/-- stable insertion: `x` stood before everything in the list, so it goes in front of the first
    element whose key is not larger -/
def insertAlt (x : Bytes) : List Bytes → List Bytes
  | [] => [x]
  | y :: ys => if escapeLen y ≤ escapeLen x then x :: y :: ys else y :: insertAlt x ys

/-- `sorted.sort_by_key(|s| Reverse(s.len()))` on the escaped strings (stable, descending) -/
def orderAlts : List Bytes → List Bytes
  | [] => []
  | x :: xs => insertAlt x (orderAlts xs)

/-- the alternative the regex picks at a position: the first one, in pattern order, that is a
    (non-empty) prefix of the remaining input -/
def firstAlt (alts : List Bytes) (s : Bytes) : Option Bytes :=
  alts.find? (fun a => !a.isEmpty && a.isPrefixOf s)

/-- `find_iter`: raw regex matches `(start, end)`; `skip` = bytes still covered by the last match -/
def scan (alts : List Bytes) : Bytes → Nat → Nat → List (Nat × Nat)
  | [], _, _ => []
  | _ :: cs, pos, skip + 1 => scan alts cs (pos + 1) skip
  | c :: cs, pos, 0 =>
    match firstAlt alts (c :: cs) with
    | some a => (pos, pos + a.length) :: scan alts cs (pos + 1) (a.length - 1)
    | none => scan alts cs (pos + 1) 0

-- ASCII classes of `u8` ------------------------------------------------------------------------

def isWs (c : UInt8) : Bool :=       -- is_ascii_whitespace: space \t \n \x0C \r
  let n := c.toNat
  n == 32 || n == 9 || n == 10 || n == 12 || n == 13

def isPunct (c : UInt8) : Bool :=    -- is_ascii_punctuation
  let n := c.toNat
  (decide (33 ≤ n) && decide (n ≤ 47)) || (decide (58 ≤ n) && decide (n ≤ 64)) ||
  (decide (91 ≤ n) && decide (n ≤ 96)) || (decide (123 ≤ n) && decide (n ≤ 126))

/-- the space-separated branch, same three disjuncts as the source -/
def spaceSide (p : UInt8) : Bool :=
  isWs p || (isPunct p && p.toNat != 45 && p.toNat != 95) ||
  (!B.isAlnum p && p.toNat != 45 && p.toNat != 95)

/-- `is_boundary(bytes, start, end)`; `none` = the Rust code panics
    (`&bytes[start..end]` out of order / out of range, or `bytes[start]` with `start = len`) -/
def isBoundary (bytes : Bytes) (start stop : Nat) : Option Bool :=
  if ¬ (start ≤ stop ∧ stop ≤ bytes.length) then none else
  let m := (bytes.take stop).drop start
  let spaced := m.any (fun b => b.toNat == 32)
  let left : Option Bool :=
    if start = 0 then some true
    else match bytes[start - 1]? with
      | none => none
      | some prev =>
        if spaced then some (spaceSide prev)
        else if !B.isAlnum prev then some true
        else match bytes[start]? with
          | none => none        -- `bytes[start]` with start = len: index out of bounds
          | some cur => some (B.isUpper cur && B.isLower prev)
  match left with
  | none => none
  | some l =>
    let right : Option Bool :=
      match bytes[stop]? with
      | none => some true       -- end >= len
      | some next =>
        if spaced then some (spaceSide next)
        else if !B.isAlnum next then some true
        else some (B.isUpper next && decide (0 < stop) &&
                   (match bytes[stop - 1]? with | some p => B.isLower p | none => false))
    match right with
    | none => none
    | some r => some (l && r)

/-- number of `\n` in the first `pos` bytes, plus one -/
def lineNo (content : Bytes) (pos : Nat) : Nat :=
  ((content.take pos).filter (fun b => b.toNat == 10)).length + 1

/-- length of the newline-free run at the end of `s` -/
def trailingRun (s : Bytes) : Nat := (s.reverse.takeWhile (fun b => b.toNat != 10)).length

/-- `content[..pos].iter().rposition(|&b| b == b'\n').map_or(0, |p| p + 1)`: index after the last `\n`
    among the first `pos` bytes (0 if there is none) -/
def lineStart (content : Bytes) (pos : Nat) : Nat :=
  (content.take pos).length - trailingRun (content.take pos)

/-- Aho-Corasick `LeftmostLongest` `find`: at the leftmost position where some pattern starts, the
    longest pattern (first in list order among equals) -/
def longestPrefix (vs : List Bytes) (s : Bytes) : Option Bytes :=
  vs.foldl (fun best v =>
    if v.isPrefixOf s then
      match best with
      | none => some v
      | some b => if b.length < v.length then some v else some b
    else best) none

def identifyVariant (vs : List Bytes) : Bytes → Option Bytes
  | [] => longestPrefix vs []
  | c :: cs =>
    match longestPrefix vs (c :: cs) with
    | some v => some v
    | none => identifyVariant vs cs

structure Match where
  start   : Nat
  stop    : Nat
  line    : Nat
  column  : Nat
  variant : Bytes
  text    : Bytes
  deriving DecidableEq, Repr

def mkMatch (variants : List Bytes) (content : Bytes) (se : Nat × Nat) : Match :=
  let t := (content.take se.2).drop se.1
  { start := se.1, stop := se.2,
    line := lineNo content se.1,
    column := se.1 - lineStart content se.1,
    variant := (identifyVariant variants t).getD [],
    text := Utf8.lossy t }

/-- `find_matches(&build_pattern(variants), content, _)`; `none` = panic (cannot happen: the
    regex only reports in-range spans; kept so the statement "no panic" is a theorem, not a convention) -/
def findMatches (variants : List Bytes) (content : Bytes) : List Match :=
  if variants.isEmpty then
    -- `$^` matches exactly the empty input, at 0
    if content.isEmpty then
      [{ start := 0, stop := 0, line := 1, column := 0, variant := [], text := [] }]
    else []
  else
    ((scan (orderAlts variants) content 0 0).filter
        (fun se => isBoundary content se.1 se.2 == some true)).map (mkMatch variants content)

end Matcher
