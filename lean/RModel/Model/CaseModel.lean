import RModel.Base.Bytes
/-
  L1: `case_model.rs` — tokenizer (`parse_to_tokens_with_acronyms`), renderer (`to_style`),
  `capitalize_first`, `detect_style` and the `is_*_case` helpers, transliterated.

  The byte loop `while i < bytes.len()` with its `i += n; continue` jumps is structural recursion
  on the remaining input with a skip counter: a jump of `n` pushes the token and sets `skip = n-1`,
  skipped bytes only update `prev`.  `prev` is `bytes[i-1]`.
  The acronym set is a parameter (`Acr`): `flm rest` is `find_longest_match(s, i)` on the suffix
  starting at `i` (length of the match), `isAcr` is `is_acronym` (exact membership).
-/
open B

namespace CaseModel

inductive Style where
  | snake | kebab | camel | pascal | screamingSnake | title | train | screamingTrain | dot
  | lowerFlat | upperFlat | sentence | lowerSentence | upperSentence
  deriving DecidableEq, Repr

structure Acr where
  flm   : Bytes → Option Nat
  isAcr : Bytes → Bool

/-- number of leading ASCII upper-case bytes -/
def upperRun : Bytes → Nat
  | [] => 0
  | c :: cs => if isUpper c then upperRun cs + 1 else 0

/-- the `should_skip_acronym` computation (true = do not take the acronym);
    `rest` starts at `i`, `n` is the length of the trie match -/
def acrSkip (A : Acr) (rest : Bytes) (n : Nat) : Bool :=
  match rest.drop n with
  | [] => false
  | nb :: _ =>
    let first := rest.headD 0
    let a := rest.take n
    let digitRule := isDigit nb && !(a.any isDigit)
    if isUpper first && isUpper nb then
      match A.flm (rest.drop n) with
      | some _ => false
      | none => decide (upperRun (rest.drop n) > 0)
    else if isLower first && isLower nb then true
    else digitRule

/-- the acronym branch at the start of a token: `some n` = push `rest.take n`, jump `n` -/
def acrAccept (A : Acr) (rest : Bytes) : Option Nat :=
  match A.flm rest with
  | none => none
  | some n =>
    let a := rest.take n
    let consistent := a.all isUpper || a.all (fun c => isLower c || isDigit c)
    if !consistent then none
    else if acrSkip A rest n then none else some n

/-- the "upper-case sequence followed by a lower-case letter" branch: length of the token to push -/
def upperSplit (A : Acr) (rest : Bytes) : Option Nat :=
  let j := upperRun rest
  match rest.drop j with
  | nb :: _ =>
    if decide (j > 1) && isLower nb then
      match (List.range' 1 (j - 1)).reverse.find? (fun m => A.isAcr (rest.take m)) with
      | some m => some m
      | none => some (j - 1)
    else none
  | [] => none

/-- trailing ASCII digits of the current buffer -/
def trailingDigits (cur : Bytes) : Bytes := (cur.reverse.takeWhile isDigit).reverse

/-- "standard case boundary detection" (`should_split`); `p = bytes[i-1]`, `tail` starts at `i+1` -/
def shouldSplit (A : Acr) (p : UInt8) (cur : Bytes) (b : UInt8) (tail : Bytes) : Bool :=
  let s1 := isUpper b && isUpper p && cur.all isUpper && A.isAcr cur &&
            (match tail with | nb :: _ => isLower nb | [] => false)
  if s1 then true
  else if isLower p && isUpper b then true
  else if isAlpha p && isDigit b then
    A.isAcr (b :: tail.takeWhile (fun c => isUpper c || isDigit c))
  else if isDigit p && isUpper b then
    !(A.isAcr (trailingDigits cur ++ (b :: tail).takeWhile isUpper))
  else false

def flush (cur : Bytes) (acc : List Bytes) : List Bytes := if cur.isEmpty then acc else acc ++ [cur]

def tok (A : Acr) : Option UInt8 → Bytes → Nat → Bytes → List Bytes → List Bytes
  | _, cur, _, [], acc => flush cur acc
  | _, cur, skip + 1, b :: rest, acc => tok A (some b) cur skip rest acc
  | prev, cur, 0, b :: rest, acc =>
    if isDelim b then tok A (some b) [] 0 rest (flush cur acc)
    else if isAlnum b then
      let jump : Option Nat :=
        if cur.isEmpty then
          match acrAccept A (b :: rest) with
          | some n => some n
          | none => if isUpper b then upperSplit A (b :: rest) else none
        else none
      match jump with
      | some n => tok A (some b) [] (n - 1) rest (acc ++ [(b :: rest).take n])
      | none =>
        let split := match prev with
          | none => false
          | some p => !cur.isEmpty && shouldSplit A p cur b rest
        if split then tok A (some b) [b] 0 rest (acc ++ [cur])
        else tok A (some b) (cur ++ [b]) 0 rest acc
    else tok A (some b) cur 0 rest acc

/-- `parse_to_tokens_with_acronyms(s, set).tokens` -/
def parse (A : Acr) (s : Bytes) : List Bytes := tok A none [] 0 s []

-- rendering ------------------------------------------------------------------------------------------

/-- `capitalize_first` (ASCII) -/
def capitalizeFirst (s : Bytes) : Bytes :=
  match s with
  | [] => []
  | c :: cs => if s.all isUpper && decide (s.length ≤ 2) then s else toUpper c :: lower cs

/-- token kept verbatim in Camel/Pascal/Train: all upper-case and a known acronym -/
def keepAcr (A : Acr) (t : Bytes) : Bool := t.all isUpper && A.isAcr t

def capOrKeep (A : Acr) (t : Bytes) : Bytes := if keepAcr A t then t else capitalizeFirst t

/-- `to_style` -/
def toStyle (A : Acr) (ts : List Bytes) : Style → Bytes
  | .snake => joinWith [95] (ts.map lower)
  | .kebab => joinWith [45] (ts.map lower)
  | .camel =>
    match ts with
    | [] => []
    | t :: rest => lower t ++ concat (rest.map (capOrKeep A))
  | .pascal => concat (ts.map (capOrKeep A))
  | .screamingSnake => joinWith [95] (ts.map upper)
  | .title => joinWith [32] (ts.map capitalizeFirst)
  | .train => joinWith [45] (ts.map (capOrKeep A))
  | .screamingTrain => joinWith [45] (ts.map upper)
  | .dot => joinWith [46] (ts.map lower)
  | .lowerFlat => concat (ts.map lower)
  | .upperFlat => concat (ts.map upper)
  | .sentence =>
    match ts with
    | [] => []
    | t :: rest => joinWith [32] (capitalizeFirst t :: rest.map lower)
  | .lowerSentence => joinWith [32] (ts.map lower)
  | .upperSentence => joinWith [32] (ts.map upper)

-- detection ------------------------------------------------------------------------------------------

def isTitleWord (w : Bytes) : Bool :=
  match w with
  | [] => false
  | c :: cs => isUpper c && cs.all isLower

def isTrainCase (A : Acr) (s : Bytes) : Bool :=
  (splitOn s 45).all (fun w =>
    !w.isEmpty && (isTitleWord w || (decide (w.length ≥ 2) && w.all isUpper && A.isAcr w)))

def isTitleCase (s : Bytes) : Bool := (splitOn s 32).all isTitleWord

def isSentenceCase (s : Bytes) : Bool :=
  match splitOn s 32 with
  | [] => false
  | w :: ws => isTitleWord w && ws.all (fun x => !x.isEmpty && x.all (fun c => !isUpper c))

/-- `detect_style` -/
def detectStyle (A : Acr) (s : Bytes) : Option Style :=
  if s.isEmpty then none else
  let hasU := contains s 95
  let hasH := contains s 45
  let hasD := contains s 46 && !(s.head? == some 46)
  let hasS := contains s 32
  let hasUp := s.any isUpper
  let hasLo := s.any isLower
  match hasU, hasH, hasD, hasS, hasUp, hasLo with
  | true, false, false, false, false, true => some .snake
  | true, false, false, false, true, false => some .screamingSnake
  | true, false, false, false, true, true => none
  | false, true, false, false, false, true => some .kebab
  | false, true, false, false, true, false => some .screamingTrain
  | false, true, false, false, true, true => if isTrainCase A s then some .train else none
  | true, true, false, false, _, _ =>
    match find s [45], find s [95] with
    | some hp, some up =>
      if up < hp then (if hasUp && !hasLo then some .screamingSnake else some .snake)
      else if hasUp && !hasLo then some .screamingTrain
      else if isTrainCase A (s.take (hp + 1)) then some .train
      else some .kebab
    | _, _ => some .snake
  | false, false, true, false, _, true => some .dot
  | false, false, false, true, true, true =>
    if isTitleCase s then some .title else if isSentenceCase s then some .sentence else none
  | false, false, false, true, false, true => some .lowerSentence
  | false, false, false, true, true, false => some .upperSentence
  | false, false, false, false, true, true =>
    match s.head? with
    | some c => if isUpper c then some .pascal else if isLower c then some .camel else none
    | none => none
  | _, _, _, _, _, _ => none

-- the concrete acronym set ---------------------------------------------------------------------------

/-- `find_longest_match`: the trie holds the upper- and the lower-case spelling of every acronym and
    tries `ch`, `upper ch`, `lower ch` at each node, i.e. a case-insensitive longest-prefix match -/
def flmOf (acrs : List Bytes) (rest : Bytes) : Option Nat :=
  let lens := (acrs.map List.length).foldl (fun acc n => if acc.contains n then acc else n :: acc) []
  let cands := lens.filter (fun n => decide (0 < n) && decide (n ≤ rest.length) &&
                                     acrs.any (fun a => lower a == lower (rest.take n)))
  cands.foldl (fun best n => match best with | none => some n | some m => some (max m n)) none

def acrOf (acrs : List Bytes) : Acr :=
  { flm := flmOf acrs, isAcr := fun s => acrs.any (fun a => upper a == s) }

end CaseModel
