import RModel.Gen.SignalHandlers
/-
  L5 (process level): `renamify-cli/src/main.rs::main` with signal delivery.

      install handlers ; auto-init ; COMMAND ; if interrupted { exit 130 } ; match result { Ok → 0 | Err → 1..3 }

  The command is a *program*: a list of steps, each either one effect on the world (a mutating
  filesystem call — the world and the meaning of an effect are parameters) or the begin / end of the
  confirmation prompt (`ConfirmationPromptGuard::activate` … drop).  No command reads the interrupted
  flag (`Gen.SignalHandlers.flagPassedOnlyToTestLock`), so the program and the exit code `res` the
  command produces by itself do not depend on signals.

  A *run* is the program with signal events inserted at arbitrary positions: `erase run = program`.
  What a signal event does is the generated description of the handler body
  (`Gen.SignalHandlers.sigint / sigterm`): store the flag, or `process::exit(c)` — at once, without
  unwinding, so nothing after it happens and no `Drop` (lock release) runs.
  The event is "the handler body runs": for SIGINT that is on ctrlc's helper thread, some time after the
  kernel delivered the signal; if the process ends before that thread is scheduled the event is absent.

  Not modelled: EINTR inside std (handlers are installed with SA_RESTART), `eprintln!` inside the
  SIGTERM handler (not async-signal-safe), which thread receives the signal.
-/

namespace Signals

inductive Sig where
  | int | term
  deriving DecidableEq, Repr

/-- one step of a command program / one event of a run -/
inductive Item (ε : Type) where
  | eff (e : ε)
  | promptOn
  | promptOff
  | sig (s : Sig)
  deriving DecidableEq, Repr

abbrev Handler := Gen.SignalHandlers.Handler

/-- the handler table: which body runs for which signal -/
abbrev Handlers := Sig → Handler

def genHandlers : Handlers
  | .int => Gen.SignalHandlers.sigint
  | .term => Gen.SignalHandlers.sigterm

structure St (ω : Type) where
  world  : ω
  flag   : Bool := false
  prompt : Bool := false
  /-- `process::exit(c)` was called inside a handler -/
  exited : Option Nat := none
  deriving Repr

/-- what the handler body does in state (flag, prompt): exit code, or the new flag value -/
def handle (h : Handler) (st : St ω) : St ω :=
  match h.exitAlways with
  | some c => { st with exited := some c }
  | none =>
    match (if st.prompt then h.exitUnderPrompt else none) with
    | some c => { st with exited := some c }
    | none => if h.setsFlag then { st with flag := true } else st

def step (H : Handlers) (ap : ε → ω → ω) (st : St ω) (it : Item ε) : St ω :=
  if st.exited.isSome then st else
  match it with
  | .eff e => { st with world := ap e st.world }
  | .promptOn => { st with prompt := true }
  | .promptOff => { st with prompt := false }
  | .sig s => handle (H s) st

def runFrom (H : Handlers) (ap : ε → ω → ω) (st : St ω) (items : List (Item ε)) : St ω :=
  items.foldl (step H ap) st

def run (H : Handlers) (ap : ε → ω → ω) (w : ω) (items : List (Item ε)) : St ω :=
  runFrom H ap { world := w } items

/-- the tail of `main`: flag check (if present and placed before the result match), then the result -/
def status (flagChecked : Bool) (code : Nat) (res : Nat) (st : St ω) : Nat :=
  match st.exited with
  | some c => c
  | none => if flagChecked && st.flag then code else res

def genStatus (res : Nat) (st : St ω) : Nat :=
  status (Gen.SignalHandlers.flagCheckAfterCommand && Gen.SignalHandlers.flagCheckBeforeResultMatch)
    Gen.SignalHandlers.interruptExitCode res st

def isSig : Item ε → Bool
  | .sig _ => true
  | _ => false

def isPrompt : Item ε → Bool
  | .promptOn => true
  | .promptOff => true
  | _ => false

/-- the program of a run: signal events removed -/
def erase (items : List (Item ε)) : List (Item ε) := items.filter (fun i => !isSig i)

/-- the effects of a program, in order -/
def effects : List (Item ε) → List ε
  | [] => []
  | .eff e :: r => e :: effects r
  | _ :: r => effects r

def applyAll (ap : ε → ω → ω) (w : ω) (es : List ε) : ω := es.foldl (fun w e => ap e w) w

-- a concrete world for witnesses and the driver ----------------------------------------------------

/-- effects as the checks see them: one letter per mutating call of the trace -/
inductive Eff where
  | lockCreate     -- `open(O_EXCL)` of .renamify/renamify.lock
  | lockRemove     -- `unlink` of the lock (LockFile::drop)
  | user (n : Nat) -- a call that changes the user tree (n identifies it)
  | other          -- any other call below .renamify (log, backup, history, plan)
  | history        -- the write of history.json
  deriving DecidableEq, Repr

structure World where
  /-- the user-tree calls performed so far, in order (the tree is a function of this list) -/
  user : List Nat := []
  lock : Bool := false
  history : Nat := 0
  calls : Nat := 0
  deriving DecidableEq, Repr

def apEff (e : Eff) (w : World) : World :=
  match e with
  | .lockCreate => { w with lock := true, calls := w.calls + 1 }
  | .lockRemove => { w with lock := false, calls := w.calls + 1 }
  | .user n => { w with user := w.user ++ [n], calls := w.calls + 1 }
  | .other => { w with calls := w.calls + 1 }
  | .history => { w with history := w.history + 1, calls := w.calls + 1 }

/-- insert `rep` deliveries of `s` immediately before position `k` of a program -/
def deliverAt (prog : List (Item ε)) (k : Nat) (s : Sig) (rep : Nat) : List (Item ε) :=
  prog.take k ++ List.replicate rep (.sig s) ++ prog.drop k

end Signals
