import RModel.Gen.SignalHandlers
/-
  L5 (process level): `renamify-cli/src/main.rs::main` with signal delivery.

      install handlers ; auto-init ; COMMAND ; flag := interrupted ;
      match result { Ok → if flag { exit 130 } else 0 | Err → 1..3 }
  (where the flag is consulted is the generated `Gen.SignalHandlers.flagScope`; before commit 279b830 it was tested
  before the result was looked at, so 130 also replaced a failure status.)

  The command is a *program*: a list of steps, each either one effect on the world (a mutating
  filesystem call — the world and the meaning of an effect are parameters) or the begin / end of the
  confirmation prompt (`ConfirmationPromptGuard::activate` … drop).  No command reads the interrupted
  flag (`Gen.SignalHandlers.flagPassedOnlyToTestLock`), so the program and the exit code `res` the
  command produces by itself do not depend on signals.

  A *run* is the program with signal events inserted at arbitrary positions: `erase run = program`.
  What a signal event does is the generated description of the handler body
  (`Gen.SignalHandlers.sigint / sigterm`): store the flag, or `process::exit(c)` — at once, without
  unwinding, so nothing after it happens and no `Drop` runs; a handler that `releasesLocks` calls
  `lock::release_held_locks()` first (parameter `rel` of the model: what that does to the world).
  The event is "the handler body runs": for SIGINT that is on ctrlc's helper thread, some time after the
  kernel delivered the signal; if the process ends before that thread is scheduled the event is absent.

  Not modelled: EINTR inside std (handlers are installed with SA_RESTART), `eprintln!` inside the
  SIGTERM handler (not async-signal-safe), which thread receives the signal.
-/

namespace Signals

inductive Sig where
  | int | term
  deriving DecidableEq, Repr

/-- one step of a command program / one event of a run -/
inductive Item (ε : Type) where
  | eff (e : ε)
  | promptOn
  | promptOff
  | sig (s : Sig)
  deriving DecidableEq, Repr

abbrev Handler := Gen.SignalHandlers.Handler

/-- the handler table: which body runs for which signal -/
abbrev Handlers := Sig → Handler

def genHandlers : Handlers
  | .int => Gen.SignalHandlers.sigint
  | .term => Gen.SignalHandlers.sigterm

structure St (ω : Type) where
  world  : ω
  flag   : Bool := false
  prompt : Bool := false
  /-- `process::exit(c)` was called inside a handler -/
  exited : Option Nat := none
  deriving Repr

/-- the world after an exit inside handler `h`: the held locks are released first if the handler does that -/
def exitWorld (rel : ω → ω) (h : Handler) (w : ω) : ω := if h.releasesLocks then rel w else w

/-- what the handler body does in state (flag, prompt): exit code, or the new flag value -/
def handle (rel : ω → ω) (h : Handler) (st : St ω) : St ω :=
  match h.exitAlways with
  | some c => { st with exited := some c }
  | none =>
    match (if st.prompt then h.exitUnderPrompt else none) with
    | some c => { st with exited := some c, world := exitWorld rel h st.world }
    | none => if h.setsFlag then { st with flag := true } else st

def step (H : Handlers) (ap : ε → ω → ω) (rel : ω → ω) (st : St ω) (it : Item ε) : St ω :=
  if st.exited.isSome then st else
  match it with
  | .eff e => { st with world := ap e st.world }
  | .promptOn => { st with prompt := true }
  | .promptOff => { st with prompt := false }
  | .sig s => handle rel (H s) st

def runFrom (H : Handlers) (ap : ε → ω → ω) (rel : ω → ω) (st : St ω) (items : List (Item ε)) : St ω :=
  items.foldl (step H ap rel) st

def run (H : Handlers) (ap : ε → ω → ω) (rel : ω → ω) (w : ω) (items : List (Item ε)) : St ω :=
  runFrom H ap rel { world := w } items

abbrev FlagScope := Gen.SignalHandlers.FlagScope

/-- the tail of `main`: an exit inside a handler wins; otherwise the flag turns the status into `code` for every
    result (`all`), only for a successful command (`okOnly`), or never (`none`) -/
def status (scope : FlagScope) (code : Nat) (res : Nat) (st : St ω) : Nat :=
  match st.exited with
  | some c => c
  | none =>
    match scope with
    | .all => if st.flag then code else res
    | .okOnly => if st.flag && res == 0 then code else res
    | .none => res

def genStatus (res : Nat) (st : St ω) : Nat :=
  status Gen.SignalHandlers.flagScope Gen.SignalHandlers.interruptExitCode res st

def isSig : Item ε → Bool
  | .sig _ => true
  | _ => false

def isPrompt : Item ε → Bool
  | .promptOn => true
  | .promptOff => true
  | _ => false

/-- the program of a run: signal events removed -/
def erase (items : List (Item ε)) : List (Item ε) := items.filter (fun i => !isSig i)

/-- the effects of a program, in order -/
def effects : List (Item ε) → List ε
  | [] => []
  | .eff e :: r => e :: effects r
  | _ :: r => effects r

def applyAll (ap : ε → ω → ω) (w : ω) (es : List ε) : ω := es.foldl (fun w e => ap e w) w

-- a concrete world for witnesses and the driver ----------------------------------------------------

/-- effects as the checks see them: one letter per mutating call of the trace -/
inductive Eff where
  | lockCreate     -- `open(O_EXCL)` of .renamify/renamify.lock
  | lockRemove     -- `unlink` of the lock (LockFile::drop)
  | user (n : Nat) -- a call that changes the user tree (n identifies it); the transient probe directory is `other`
  | other          -- any other call below .renamify (log, backup, history, plan)
  | history        -- the write of history.json
  deriving DecidableEq, Repr

structure World where
  /-- the user-tree calls performed so far, in order (the tree is a function of this list) -/
  user : List Nat := []
  lock : Bool := false
  history : Nat := 0
  calls : Nat := 0
  deriving DecidableEq, Repr

def apEff (e : Eff) (w : World) : World :=
  match e with
  | .lockCreate => { w with lock := true, calls := w.calls + 1 }
  | .lockRemove => { w with lock := false, calls := w.calls + 1 }
  | .user n => { w with user := w.user ++ [n], calls := w.calls + 1 }
  | .other => { w with calls := w.calls + 1 }
  | .history => { w with history := w.history + 1, calls := w.calls + 1 }

/-- `lock::release_held_locks()`: the lock file, if this process holds one, is unlinked (one more traced call) -/
def relWorld (w : World) : World := if w.lock then { w with lock := false, calls := w.calls + 1 } else w

/-- the handlers and the flag test as they were before commits d01db83 / 279b830 (for the before-fix theorems) -/
def oldHandlers : Handlers
  | .int => { setsFlag := true, exitUnderPrompt := some 130, exitAlways := none, releasesLocks := false, otherCalls := 0 }
  | .term => { setsFlag := true, exitUnderPrompt := none, exitAlways := none, releasesLocks := false, otherCalls := 0 }

/-- insert `rep` deliveries of `s` immediately before position `k` of a program -/
def deliverAt (prog : List (Item ε)) (k : Nat) (s : Sig) (rep : Nat) : List (Item ε) :=
  prog.take k ++ List.replicate rep (.sig s) ++ prog.drop k

end Signals
