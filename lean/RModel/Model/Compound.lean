import RModel.Base.Bytes
import RModel.Model.CaseModel
import RModel.Gen.ExtractorShape
/-
  L2: the compound matcher — `compound_matcher.rs::find_compound_variants` (with `extract_prefix`,
  `tokens_match`), `compound_scanner.rs::IdentifierExtractor` (the identifier regex as a byte-class
  scanner, dot splitting), `pattern.rs::is_boundary`, the exact-match pass (leftmost, longest variant)
  and the merge / overlap resolution of `find_enhanced_matches`, transliterated on top of
  `CaseModel.parse / toStyle / detectStyle`.

  Text is ASCII here: the tokenizer only ever keeps ASCII alphanumerics, `to_lowercase` on such tokens
  is `lower`, and the identifier regex is modelled for inputs without bytes >= 128 (the driver answers
  `unsupported` otherwise, the check does not send such inputs to the correspondence).
-/
open B CaseModel

namespace Compound

-- compound_matcher.rs -----------------------------------------------------------------------------

/-- `extract_prefix`: `__` / `_` / nothing -/
def extractPrefix : Bytes → Bytes × Bytes
  | 95 :: 95 :: r => ([95, 95], r)
  | 95 :: r => ([95], r)
  | s => ([], s)

/-- `tokens_match`: same length and pairwise equal after lower-casing -/
def tokensMatch : List Bytes → List Bytes → Bool
  | [], [] => true
  | t :: ts, p :: ps => lower t == lower p && tokensMatch ts ps
  | _, _ => false

/-- first letter upper-cased, rest untouched (`first_char.to_uppercase() + &text[1..]`) -/
def upFirst : Bytes → Bytes
  | [] => []
  | c :: cs => toUpper c :: cs

/-- style of the matched window (`matched_portion_style`) -/
def portionStyle (A : Acr) (window : List Bytes) (ident rest : Bytes) : Option Style :=
  match window with
  | [t] => detectStyle A t
  | _ =>
    -- `isTitleWord` = first char upper-case, all others lower-case
    let allTitle := window.all isTitleWord
    if allTitle && contains ident 32 then some .title
    else if allTitle then some .pascal
    else if window.all (fun t => t.all isLower) then detectStyle A rest
    else detectStyle A (concat window)

/-- `final_style` -/
def finalStyle (A : Acr) (window : List Bytes) (ident rest : Bytes) : Option Style :=
  let identStyle := detectStyle A rest
  if identStyle == some .train then some .train
  else match portionStyle A window ident rest with
    | some s => some s
    | none => identStyle

def humpJoin (camel : Bool) : Nat → List Bytes → Bytes
  | _, [] => []
  | i, t :: ts => (if camel && i == 0 then lower t else upFirst t) ++ humpJoin camel (i + 1) ts

/-- the fallback arm: capitalise the i-th new token when the i-th window token starts upper-case -/
def fallbackTokens : List Bytes → List Bytes → List Bytes
  | [], _ => []
  | n :: ns, w :: ws => (if (match w with | c :: _ => isUpper c | [] => false) then upFirst n else n) :: fallbackTokens ns ws
  | n :: ns, [] => n :: fallbackTokens ns []

/-- `new_tokens_styled` -/
def styledTokens (A : Acr) (fs : Option Style) (newToks window : List Bytes) : List Bytes :=
  match fs with
  | some .pascal => [humpJoin false 0 newToks]
  | some .camel => [humpJoin true 0 newToks]
  | some .train => splitOn (toStyle A newToks .train) 45
  | some .snake => newToks.map lower
  | some .screamingSnake => newToks.map upper
  | some .kebab => newToks.map lower
  | some st => [toStyle A newToks st]
  | none => fallbackTokens newToks window

/-- the `while pos <= len - pattern_len` loop: replace every non-overlapping window, left to right;
    `skip` counts the window tokens still to be dropped after a match.  Returns tokens and the number of
    replacements. -/
def spliceAll (A : Acr) (pat newToks : List Bytes) (ident rest : Bytes) : Nat → List Bytes → List Bytes × Nat
  | _, [] => ([], 0)
  | skip + 1, _ :: ts => spliceAll A pat newToks ident rest skip ts
  | 0, t :: ts =>
    let window := (t :: ts).take pat.length
    if tokensMatch window pat then
      let styled := styledTokens A (finalStyle A window ident rest) newToks window
      let r := spliceAll A pat newToks ident rest (pat.length - 1) ts
      (styled ++ r.1, r.2 + 1)
    else
      let r := spliceAll A pat newToks ident rest 0 ts
      (t :: r.1, r.2)

def endsWith (s : Bytes) (c : UInt8) : Bool := s.getLast? == some c

structure CMatch where
  full : Bytes
  replacement : Bytes
  style : Style
  deriving DecidableEq, Repr

/-- the final join of `replacement_tokens` -/
def joinTokens (A : Acr) (rest : Bytes) (toks : List Bytes) (style : Style) : Bytes :=
  let hasU := contains rest 95
  let hasH := contains rest 45
  if hasU && hasH then
    let fu := (find rest [95]).getD 0
    let fh := (find rest [45]).getD 0
    joinWith (if fu < fh then [95] else [45]) toks
  else if hasH then joinWith [45] toks
  else if hasU then joinWith [95] toks
  else if contains rest 46 then joinWith [46] toks
  else if contains rest 32 then joinWith [32] toks
  else match style with
    | .pascal | .camel => concat toks
    | st => toStyle A toks st

/-- "Preserve trailing delimiters from the original identifier" -/
def restoreTrailing (rest repl : Bytes) : Bytes :=
  if endsWith rest 95 && !endsWith repl 95 then repl ++ [95]
  else if endsWith rest 45 && !endsWith repl 45 then repl ++ [45]
  else if endsWith rest 46 && !endsWith repl 46 then repl ++ [46]
  else repl

/-- the mixed-separator shortcut applies: two separator kinds, the identifier starts with the search text as
    typed and a separator follows -/
def shortcutCond (rest old : Bytes) : Bool :=
  let hasU := contains rest 95
  let hasH := contains rest 45
  let hasD := contains rest 46
  ((hasU && hasH) || (hasU && hasD) || (hasH && hasD)) && old.isPrefixOf rest && decide (old.length < rest.length) &&
    (match rest.drop old.length with
     | c :: _ => c == 95 || c == 45 || c == 46
     | [] => false)

/-- `inferred_style`: `detect_style`, else kebab / snake when only that separator occurs -/
def inferStyle (A : Acr) (rest : Bytes) : Option Style :=
  match detectStyle A rest with
  | some s => some s
  | none =>
    if contains rest 45 && !contains rest 95 && !contains rest 46 then some .kebab
    else if contains rest 95 && !contains rest 45 && !contains rest 46 then some .snake
    else none

/-- `matched_windows`: the windows of the ORIGINAL token list replaced by the splice loop, as (start, end) token
    indices (`original_pos` bookkeeping of the loop; same match decisions as `spliceAll`) -/
def matchedWindows (pat : List Bytes) : Nat → Nat → List Bytes → List (Nat × Nat)
  | _, _, [] => []
  | skip + 1, idx, _ :: ts => matchedWindows pat skip (idx + 1) ts
  | 0, idx, t :: ts =>
    if tokensMatch ((t :: ts).take pat.length) pat then (idx, idx + pat.length) :: matchedWindows pat (pat.length - 1) (idx + 1) ts
    else matchedWindows pat 0 (idx + 1) ts

def insideWindow (windows : List (Nat × Nat)) (idx : Nat) : Bool :=
  windows.any (fun w => decide (w.1 < idx) && decide (idx < w.2))

/-- the token walk of `untouched_text_survives_rejoin`: `s` is the text from the cursor on; every token starts at
    the next alphanumeric byte; the gap in front of the first token must be empty, every other gap must be the join
    separator unless both neighbours lie in one matched window; at most one trailing delimiter -/
def gapsOk (sep : Bytes) (windows : List (Nat × Nat)) : Nat → Bytes → List Bytes → Bool
  | _, s, [] => s == [] || s == [95] || s == [45] || s == [46]
  | idx, s, t :: ts =>
    let gap := s.takeWhile (fun c => !isAlnum c)
    let s' := s.dropWhile (fun c => !isAlnum c)
    (if idx == 0 then gap.isEmpty else (insideWindow windows idx || gap == sep)) &&
      gapsOk sep windows (idx + 1) (s'.drop t.length) ts

/-- `untouched_text_survives_rejoin(identifier_without_prefix, tokens, matched_windows, style)` -/
def survivesRejoin (rest : Bytes) (toks : List Bytes) (windows : List (Nat × Nat)) (style : Style) : Bool :=
  let hasU := contains rest 95
  let hasH := contains rest 45
  if hasU && hasH then true
  else if hasH then gapsOk [45] windows 0 rest toks
  else if hasU then gapsOk [95] windows 0 rest toks
  else if contains rest 46 then gapsOk [46] windows 0 rest toks
  else if contains rest 32 then gapsOk [32] windows 0 rest toks
  else match style with
    | .pascal | .camel => gapsOk [] windows 0 rest toks
    | _ => true

/-- `find_compound_variants(identifier, old_pattern, new_pattern, styles)`: at most one match.
    `guard = true` is the code as it is (with the re-join guard of commit 70a22d6), `guard = false` the code before it. -/
def findCompoundG (A : Acr) (guard : Bool) (ident old new : Bytes) (styles : List Style) : Option CMatch :=
  let pre := (extractPrefix ident).1
  let rest := (extractPrefix ident).2
  let idToks := parse A rest
  let oldToks := parse A old
  let newToks := parse A new
  if tokensMatch idToks oldToks then none else
  if shortcutCond rest old then some ⟨ident, pre ++ new ++ rest.drop old.length, .snake⟩ else
  if decide (oldToks.length > idToks.length) then none else
  if oldToks.isEmpty || idToks.isEmpty then none else
  if newToks.isEmpty then none else
  let r := spliceAll A oldToks newToks ident rest 0 idToks
  if r.2 == 0 then none else
  match inferStyle A rest with
  | none => none
  | some style =>
    if !styles.contains style then none else
    if guard && !survivesRejoin rest idToks (matchedWindows oldToks 0 0 idToks) style then none else
    some ⟨ident, pre ++ restoreTrailing rest (joinTokens A rest r.1 style), style⟩

def findCompound (A : Acr) (ident old new : Bytes) (styles : List Style) : Option CMatch :=
  findCompoundG A true ident old new styles

/-- the matcher before commit 70a22d6 (kept for the before-fix witnesses) -/
def findCompoundOld (A : Acr) (ident old new : Bytes) (styles : List Style) : Option CMatch :=
  findCompoundG A false ident old new styles

-- pattern.rs::is_boundary -------------------------------------------------------------------------

def isWs (c : UInt8) : Bool :=
  c == 32 || c == 9 || c == 10 || c == 12 || c == 13

/-- `is_ascii_punctuation` -/
def isPunct (c : UInt8) : Bool :=
  (decide (33 ≤ c.toNat) && decide (c.toNat ≤ 47)) || (decide (58 ≤ c.toNat) && decide (c.toNat ≤ 64)) ||
  (decide (91 ≤ c.toNat) && decide (c.toNat ≤ 96)) || (decide (123 ≤ c.toNat) && decide (c.toNat ≤ 126))

def spaceEdge (c : UInt8) : Bool :=
  isWs c || (isPunct c && c != 45 && c != 95) || (!isAlnum c && c != 45 && c != 95)

/-- `is_boundary(bytes, start, end)` with `before = bytes[..start]`, `m = bytes[start..end]`,
    `after = bytes[end..]` (requires `m` non-empty, as every variant is) -/
def isBoundary (before m after : Bytes) : Bool :=
  let sp := contains m 32
  let left :=
    match before.getLast? with
    | none => true
    | some p =>
      if sp then spaceEdge p
      else !isAlnum p || ((match m with | c :: _ => isUpper c | [] => false) && isLower p)
  let right :=
    match after with
    | [] => true
    | n :: _ =>
      if sp then spaceEdge n
      else !isAlnum n || (isUpper n &&
        (match m.getLast? with
         | some l => isLower l
         | none => (match before.getLast? with | some l => isLower l | none => false)))
  left && right

-- compound_scanner.rs::IdentifierExtractor ----------------------------------------------------------

/-- ASCII `\w` -/
def isWord (c : UInt8) : Bool := isAlnum c || c == 95
/-- `[a-zA-Z_]` -/
def isIdStart (c : UInt8) : Bool := isAlpha c || c == 95
/-- `[a-zA-Z0-9_\-\.]` -/
def isIdChar (c : UInt8) : Bool := isAlnum c || c == 95 || c == 45 || c == 46

/-- length of the match of `[a-zA-Z_][a-zA-Z0-9_\-\.]*\b` at the head of `s` (which starts with an
    identifier-start byte): the maximal run with trailing `-` / `.` given back -/
def identLen (s : Bytes) : Nat :=
  let run := s.takeWhile isIdChar
  (run.reverse.dropWhile (fun c => c == 45 || c == 46)).length

/-- ASCII part of the regex class `\\s` (includes VT, unlike `is_ascii_whitespace`) -/
def isReSpace (c : UInt8) : Bool := c == 32 || (decide (9 ≤ c.toNat) && decide (c.toNat ≤ 13))

/-- `[A-Z][a-z]+` at the head: length, if it matches -/
def titleWordLen : Bytes → Option Nat
  | c :: d :: r => if isUpper c && isLower d then some (2 + (r.takeWhile isLower).length) else none
  | _ => none

/-- end positions (relative) of `[A-Z][a-z]+(?:\s+[A-Z][a-z]+)*` prefixes consisting of complete greedy
    groups, longest first; `fuel` bounds the number of groups -/
def titleEnds : Nat → Bytes → Nat → List Nat → List Nat
  | 0, _, _, acc => acc
  | fuel + 1, s, off, acc =>
    let ws := (s.takeWhile isReSpace).length
    if ws == 0 then acc else
    match titleWordLen (s.drop ws) with
    | none => acc
    | some n => titleEnds fuel (s.drop (ws + n)) (off + ws + n) ((off + ws + n) :: acc)

/-- the Title alternative followed by `\b`, with the regex engine's backtracking: the longest complete-group
    prefix whose end is a word boundary -/
def titleLen (s : Bytes) : Option Nat :=
  match titleWordLen s with
  | none => none
  | some n0 =>
    let ends := titleEnds s.length (s.drop n0) n0 [n0]
    ends.find? (fun e => match s.drop e with | [] => true | c :: _ => !isWord c)

/-- `regex.find_iter(content)`: `(start, end)` of every identifier; `prev` is the byte before `s` -/
def scanIdents (title : Bool) : Option UInt8 → Nat → Nat → Bytes → List (Nat × Nat)
  | _, _, _, [] => []
  | _, skip + 1, pos, c :: cs => scanIdents title (some c) skip (pos + 1) cs
  | prev, 0, pos, c :: cs =>
    let atB := match prev with | none => true | some p => !isWord p
    if atB && isIdStart c then
      let len := match (if title then titleLen (c :: cs) else none) with
        | some n => n
        | none => identLen (c :: cs)
      (pos, pos + len) :: scanIdents title (some c) (len - 1) (pos + 1) cs
    else scanIdents title (some c) 0 (pos + 1) cs

/-- dot splitting of one regex match: non-empty parts with their positions.  `trim = true` is the shape with
    `part.trim_start_matches('-')`: the leading hyphens of a part do not belong to the segment and its recorded start moves
    with them; `trim = false` pushes the part as it is (which shape the code has is `Gen.dotSegmentsTrimLeadingHyphens`,
    regenerated from compound_scanner.rs) -/
def splitDots (trim : Bool) : Nat → List Bytes → List (Nat × Nat × Bytes)
  | _, [] => []
  | pos, p :: ps =>
    let seg := if trim then p.dropWhile (· == 45) else p
    let st := pos + (p.length - seg.length)
    (if seg.isEmpty then [] else [(st, st + seg.length, seg)]) ++ splitDots trim (pos + p.length + 1) ps

/-- `IdentifierExtractor::new(styles).find_all(content)` -/
def findAllG (trim : Bool) (styles : List Style) (content : Bytes) : List (Nat × Nat × Bytes) :=
  let title := styles.contains .title
  let splitOnDots := !styles.contains .dot
  (scanIdents title none 0 0 content).flatMap (fun (s, e) =>
    let text := (content.drop s).take (e - s)
    if contains text 46 && splitOnDots then splitDots trim s (splitOn text 46)
    else [(s, e, text)])

def findAll (styles : List Style) (content : Bytes) : List (Nat × Nat × Bytes) :=
  findAllG Gen.dotSegmentsTrimLeadingHyphens styles content

-- compound_scanner.rs::find_enhanced_matches --------------------------------------------------------

structure M where
  line : Nat
  col : Nat
  start : Nat
  stop : Nat
  variant : Bytes
  text : Bytes
  deriving DecidableEq, Repr

/-- the longest variant that is a prefix of `s` (the alternation is ordered longest first) -/
def longestVariant (variants : List Bytes) (s : Bytes) : Option Bytes :=
  variants.foldl (fun best v =>
    if !v.isEmpty && v.isPrefixOf s then
      (match best with
       | some b => if b.length < v.length then some v else some b
       | none => some v)
    else best) none

/-- `pattern.regex.find_iter(content)` (leftmost, non-overlapping); each hit is `(start, end)` -/
def scanExact (variants : List Bytes) : Nat → Nat → Bytes → List (Nat × Nat)
  | _, _, [] => []
  | skip + 1, pos, _ :: cs => scanExact variants skip (pos + 1) cs
  | 0, pos, c :: cs =>
    match longestVariant variants (c :: cs) with
    | some v => (pos, pos + v.length) :: scanExact variants (v.length - 1) (pos + 1) cs
    | none => scanExact variants 0 (pos + 1) cs

def lineOf (content : Bytes) (start : Nat) : Nat := ((content.take start).filter (· == 10)).length + 1

def colOf (content : Bytes) (start : Nat) : Nat :=
  ((content.take start).reverse.takeWhile (· != 10)).length

/-- byte offsets of the starts of `lines_with_terminator()` -/
def lineOffsets : Nat → Bool → Bytes → List Nat
  | _, _, [] => []
  | pos, atStart, c :: cs =>
    (if atStart then [pos] else []) ++ lineOffsets (pos + 1) (c == 10) cs

/-- stable insertion sort by `(line, column)` -/
def keyLt (a b : M) : Bool := decide (a.line < b.line) || (a.line == b.line && decide (a.col < b.col))

def insertM (m : M) : List M → List M
  | [] => [m]
  | x :: xs => if keyLt x m then x :: insertM m xs else m :: x :: xs

def sortM (ms : List M) : List M := ms.foldr insertM []

def overlaps (a b : M) : Bool := decide (a.start < b.stop) && decide (a.stop > b.start)

def setAt : List M → Nat → M → List M
  | [], _, _ => []
  | _ :: xs, 0, m => m :: xs
  | x :: xs, i + 1, m => x :: setAt xs i m

def insertNat (n : Nat) : List Nat → List Nat
  | [] => [n]
  | x :: xs => if n < x then n :: x :: xs else if n == x then x :: xs else x :: insertNat n xs

/-- one step of the "remove overlapping matches" loop -/
def resolveStep (processed : List (Nat × Nat)) (final : List M) (cand : M) : List M :=
  let isExact (m : M) : Bool := processed.any (fun (s, e) => s == m.start && e == m.stop)
  match final.findIdx? (fun sel => overlaps cand sel) with
  | none => final ++ [cand]
  | some idx =>
    match final[idx]? with
    | none => final
    | some sel =>
      let candExact := isExact cand
      let selExact := isExact sel
      let candLen := cand.stop - cand.start
      let selLen := sel.stop - sel.start
      let sameStart := cand.start == sel.start
      let candContainsSel := decide (cand.start ≤ sel.start) && decide (cand.stop ≥ sel.stop) && decide (candLen > selLen)
      let selContainsCand := decide (sel.start ≤ cand.start) && decide (sel.stop ≥ cand.stop) && decide (selLen > candLen)
      let replace : Bool :=
        if selExact && !candExact then
          let selSp := contains sel.variant 32
          let candSp := contains cand.variant 32
          if candContainsSel then (if selSp then (!candSp && sameStart) else true) else false
        else if !selExact && candExact then
          let candSp := contains cand.variant 32
          if selContainsCand then (candSp && !sameStart) else true
        else decide (candLen > selLen)
      if replace then setAt final idx cand else final

/-- the variant table rows used by the `enhanced` driver op: every style of the list, search tokens in that
    style (this is the key set of `scanner::generate_variant_map_with_acronyms` for an explicit style list with
    plural variants off) -/
def variantKeys (A : Acr) (search : Bytes) (styles : List Style) : List Bytes :=
  styles.map (fun st => toStyle A (parse A search) st)

/-- boundary-checked exact hits; the exact pass is skipped for a single-word search with a single style, where
    "single word" = typed without separators AND tokenised to fewer than two words (commit 1fd3fe0: `fooBar` is two) -/
def exactSpansOf (A : Acr) (content search : Bytes) (variants : List Bytes) (styles : List Style) : List (Nat × Nat) :=
  let singleWord := !(contains search 95 || contains search 45 || contains search 46 || contains search 32) &&
    decide ((parse A search).length < 2)
  if singleWord && styles.length == 1 then [] else
    (scanExact variants 0 0 content).filter (fun (s, e) =>
      isBoundary (content.take s) ((content.drop s).take (e - s)) (content.drop e))

def mkM (content : Bytes) (s e : Nat) (variant text : Bytes) : M :=
  ⟨lineOf content s, colOf content s, s, e, variant, text⟩

def exactMsOf (content : Bytes) (spans : List (Nat × Nat)) : List M :=
  spans.map (fun (s, e) => mkM content s e ((content.drop s).take (e - s)) ((content.drop s).take (e - s)))

/-- the identifiers examined by the compound pass: all of them when there is no exact hit, otherwise those on the
    lines of exact hits and their neighbours -/
def identsOf (trim : Bool) (styles : List Style) (content : Bytes) (exactMs : List M) : List (Nat × Nat × Bytes) :=
  if exactMs.isEmpty then findAllG trim styles content
  else
    let cand : List Nat := exactMs.foldl (fun acc m =>
      insertNat (m.line + 1) (if m.line > 1 then insertNat (m.line - 1) (insertNat m.line acc) else insertNat m.line acc)) []
    let offs := lineOffsets 0 true content
    cand.flatMap (fun ln =>
      let idx := ln - 1
      match offs[idx]? with
      | none => []
      | some st =>
        let en := match offs[idx + 1]? with | some x => x | none => content.length
        (findAllG trim styles ((content.drop st).take (en - st))).map (fun (a, b, t) => (st + a, st + b, t)))

def compoundOf (A : Acr) (content search replace : Bytes) (styles : List Style) (spans : List (Nat × Nat))
    (x : Nat × Nat × Bytes) : Option M :=
  if spans.any (fun (ps, pe) => decide (ps ≤ x.1) && decide (pe ≥ x.2.1)) then none
  else match findCompound A x.2.2 search replace styles with
    | some c => some (mkM content x.1 x.2.1 c.full c.replacement)
    | none => none

/-- `find_enhanced_matches` with `additional_lines = None`; `variants` = keys of the variant table; `trim` = shape of the
    extractor's dot splitting -/
def findEnhancedG (trim : Bool) (A : Acr) (content search replace : Bytes) (variants : List Bytes) (styles : List Style) :
    List M :=
  let spans := exactSpansOf A content search variants styles
  let exactMs := exactMsOf content spans
  let compMs := (identsOf trim styles content exactMs).filterMap (compoundOf A content search replace styles spans)
  (sortM (exactMs ++ compMs)).foldl (resolveStep spans) []

/-- the line matcher with the extractor shape the code has now -/
def findEnhanced (A : Acr) (content search replace : Bytes) (variants : List Bytes) (styles : List Style) : List M :=
  findEnhancedG Gen.dotSegmentsTrimLeadingHyphens A content search replace variants styles

end Compound
