import RModel.Base.Bytes
import RModel.Model.CaseModel
/-
  The shape of a language module of the ambiguity resolver (`renamify-core/src/ambiguity/languages/*.rs`) as DATA, and its
  interpreter.  Every module is one function

      pub fn suggest_style(context: &str, possible_styles: &[Style]) -> Option<Style> {
          if <cond> { <block> } else if <cond> { <block> } … None }

  whose blocks are again such chains or `return Some(Style::X);`.  Control never comes back into a chain once one of its arms
  was entered (every block is ONE chain or ONE return, and the function ends in `None`), so a chain is the decision tree
  `ite c₁ b₁ (ite c₂ b₂ (… none))` and an inner chain that runs out of arms answers `none`.
  translate/languagerules.py parses the twelve Rust files into `Gen.languageRules : List (Bytes × Block)` (and refuses any
  statement outside this shape); `Block.eval` below is what the model runs.

  `Block.wellGuarded` is a decidable check that every `return Some(Style::X)` sits below a condition that has
  `possible_styles.contains(&Style::X)` as a conjunct; `Lemmas/Resolver.lean` proves once and for all that a well-guarded block
  only answers possible styles, and `decide` discharges the check for the generated tables — so the contract `HeurOk` follows
  the source automatically as long as the source keeps its returns guarded.

  The conditions (over the trimmed text in front of the match, ASCII):
-/
open B CaseModel

namespace Resolver

/-- `char::is_whitespace` on ASCII: U+0009 … U+000D and the space -/
def isWs (c : UInt8) : Bool := (decide (9 ≤ c.toNat) && decide (c.toNat ≤ 13)) || decide (c.toNat = 32)

/-- `str::trim` -/
def trim (s : Bytes) : Bytes := ((s.dropWhile isWs).reverse.dropWhile isWs).reverse

/-- `str::ends_with`, `str::starts_with`, `str::contains` (a pattern that is a `char` is its one-byte string) -/
def ew (c p : Bytes) : Bool := p.isSuffixOf c
def sw (c p : Bytes) : Bool := p.isPrefixOf c
def has (c p : Bytes) : Bool := (B.find c p).isSome

/-- `c.chars().all(|c| c.is_uppercase() || c == '_' || c == '=' || c.is_whitespace())` (true on the empty text) -/
def allCapsAssign (c : Bytes) : Bool := c.all (fun x => isUpper x || x == 95 || x == 61 || isWs x)

/-- `c.chars().filter(|c| c.is_alphabetic()).all(char::is_uppercase)` (true when there is no letter) -/
def lettersAllUpper (c : Bytes) : Bool := (c.filter isAlpha).all isUpper

/-- `c.split(p).last().unwrap_or("")`: the text after the last of the left-to-right non-overlapping occurrences of `p`
    (the whole text when there is none).  `skip` = bytes of the current occurrence still to pass, `cur` = the piece so far
    (reversed). -/
def splitLastGo (p : Bytes) : Nat → Bytes → Bytes → Bytes
  | _, [], cur => cur.reverse
  | skip + 1, _ :: rest, cur => splitLastGo p skip rest cur
  | 0, ch :: rest, cur =>
    if !p.isEmpty && p.isPrefixOf (ch :: rest) then splitLastGo p (p.length - 1) rest []
    else splitLastGo p 0 rest (ch :: cur)

def splitLast (c p : Bytes) : Bytes := splitLastGo p 0 c []

inductive Cond where
  /-- `context.ends_with(p)`, `context.contains(p)`, `context.starts_with(p)` -/
  | ew (p : Bytes) | has (p : Bytes) | sw (p : Bytes)
  /-- `possible_styles.contains(&Style::X)` -/
  | poss (s : Style)
  /-- the two `chars()` tests on the context -/
  | allCapsAssign | lettersAllUpper
  /-- the same letter test, and `.chars().any(char::is_alphabetic)`, on `context.split(p).last().unwrap_or("")` -/
  | afterLettersAllUpper (p : Bytes) | afterHasLetter (p : Bytes)
  | tt
  | not (c : Cond) | and (a b : Cond) | or (a b : Cond)
  deriving DecidableEq, Repr

inductive Block where
  /-- the end of a chain: nothing returned, the function's final `None` -/
  | none
  /-- `return Some(Style::X);` -/
  | ret (s : Style)
  /-- `if c { t } else …e` -/
  | ite (c : Cond) (t e : Block)
  deriving DecidableEq, Repr

def Cond.eval (ctx : Bytes) (possible : List Style) : Cond → Bool
  | .ew p => Resolver.ew ctx p
  | .has p => Resolver.has ctx p
  | .sw p => Resolver.sw ctx p
  | .poss s => possible.contains s
  | .allCapsAssign => Resolver.allCapsAssign ctx
  | .lettersAllUpper => Resolver.lettersAllUpper ctx
  | .afterLettersAllUpper p => Resolver.lettersAllUpper (splitLast ctx p)
  | .afterHasLetter p => (splitLast ctx p).any isAlpha
  | .tt => true
  | .not c => !c.eval ctx possible
  | .and a b => a.eval ctx possible && b.eval ctx possible
  | .or a b => a.eval ctx possible || b.eval ctx possible

/-- `suggest_style(context, possible_styles)` of the module the block was read from -/
def Block.eval (ctx : Bytes) (possible : List Style) : Block → Option Style
  | .none => Option.none
  | .ret s => some s
  | .ite c t e => if c.eval ctx possible then t.eval ctx possible else e.eval ctx possible

/-- the styles `X` for which the condition, when true, makes `possible_styles.contains(&Style::X)` true: its conjuncts -/
def Cond.facts : Cond → List Style
  | .poss s => [s]
  | .and a b => a.facts ++ b.facts
  | _ => []

/-- every `return Some(Style::X)` is below a condition with the conjunct `possible_styles.contains(&Style::X)` -/
def Block.wellGuarded (known : List Style) : Block → Bool
  | .none => true
  | .ret s => known.contains s
  | .ite c t e => t.wellGuarded (c.facts ++ known) && e.wellGuarded known

end Resolver
