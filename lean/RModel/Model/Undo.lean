import RModel.Base.Bytes
import RModel.Base.Utf8
import RModel.Model.Fs
import RModel.Model.Apply
import RModel.Model.Patch
/-
  L5 (tree level): what `apply_plan` leaves behind for undo (`generate_reverse_patches`) and
  `undo.rs::undo_renaming` as a function on trees.

  apply side   per edited file that could be read before the edits (`original_contents`): its location after
               the renames (`currentPath`), `diffy::create_patch(current, original)`; when the patch has hunks its
               text, with the two header lines rewritten to the relative paths, is stored and the plan's hunks of
               that file get `original_file` / `patch_hash`.
               `created_directories`: the loop `while !dir.exists() || !created_dirs.contains(&dir)` walks from the
               parent of the current path up to the root and records a directory only when it does not exist.  The
               file has just been read from that directory, so every ancestor exists: with absolute paths (what the
               CLI and `apply_plan` callers produce) nothing is ever recorded; with relative paths the walk ends at
               `""`, for which `exists()` is false, so `[""]` is recorded — and ignored by STEP 3 of undo because
               `"".exists()` is false there as well.  STEP 3 therefore never removes anything: `createdDirs = []`.
  undo STEP 1  directory mappings from `plan.paths` in plan order, stable sort by depth of `new_path` ascending,
               `symlink_metadata(to).is_ok()` guard (lstat; was `to.exists()`, which follows symlinks), `rename(to, from)`; then the file renames with the
               `starts_with(dir_to)` adjustment loop (transliterated, including the second clause, which only
               re-assigns `rename.path`), stable sort by depth of the adjusted `to` descending, same guard.
               An error of `fs::rename` aborts the command (`?`).
  undo STEP 2  per stored patch: read the file at `original_file`, `Patch::from_str`, `diffy::apply`, write the result to
               `file.with_extension("<pid>.renamify.tmp")` (the extension is REPLACED: `a.txt` ↦ `a.<pid>.renamify.tmp`, the
               same temp name apply uses), chmod it to the mode of the file, rename it over the file.  Net effect on
               the tree: content replaced, mode kept — `setContent`; the trace (C04/C11) is create+write, chmod, rename.
               A failure writes `<file>.<ext>.rej` next to it and the command fails at the end.
               Assumed: no user file carries the temp name (it would be overwritten), directories are writable.
  `diffy::create_patch` / `diffy::apply` are parameters (`Cfg`).
  Not modelled: symlinked directories inside planned paths, the history file, case-insensitive filesystems
  (the two-step rename), a umask other than 022 (mode of a new `.rej` file).
-/

namespace Undo
open Fs Apply

structure Cfg where
  diff : Bytes → Bytes → Patch.Patch
  patchApply : Patch.Patch → Bytes → Option Bytes

/-- one stored reverse patch -/
structure PatchRec where
  orig : Path      -- `original_file`: where undo applies it
  cur  : Path      -- where the file was when the patch was made (`renamed_file`, or `orig`)
  text : Bytes     -- content of `<sha256(orig)>.patch`
  deriving DecidableEq, Repr

/-- `fs::read_to_string` of a regular file -/
def readStr (t : Tree) (p : Path) : Option Bytes :=
  match lookup t p with
  | some (.file c _) => if Utf8.valid c then some c else none
  | _ => none

-- apply side ---------------------------------------------------------------------------------------------

def patchFor (cfg : Cfg) (t0 : Tree) (r : Result) (f : Path) : Option PatchRec :=
  match readStr t0 f with
  | none => none                       -- not in `original_contents`
  | some c0 =>
    let cur := currentPath r.performed f
    match readStr r.tree cur with
    | none => none                     -- `apply_plan` has failed with `backupFailed` in this case
    | some c1 =>
      let p := cfg.diff c1 c0
      if p.hunks.isEmpty then none
      else some { orig := f, cur := cur,
                  text := Patch.rewriteHeaders (Patch.fmt p) (joinPath cur) (joinPath f) }

/-- the reverse patches written by `generate_reverse_patches` (`t0` = tree before apply) -/
def reversePatches (cfg : Cfg) (t0 : Tree) (r : Result) (files : List Path) : List PatchRec :=
  files.filterMap (patchFor cfg t0 r)

/-- see the header: nothing is ever recorded that STEP 3 would act on -/
def createdDirs (_r : Result) : List Path := []

structure Applied where
  result  : Result
  patches : List PatchRec

def applyFull (cfg : Cfg) (t : Tree) (p : Plan) : Applied :=
  let r := applyPlan t p
  { result := r,
    patches := if r.outcome = .ok then reversePatches cfg t r (sortedFiles p.hunks) else [] }

-- `Path::exists()` ---------------------------------------------------------------------------------------

/-- walk the components of a symlink target starting in directory `cur` (every step costs fuel) -/
def walk (t : Tree) : Nat → Path → List Bytes → Bool
  | 0, _, _ => false
  | _ + 1, _, [] => true
  | fuel + 1, cur, c :: cs =>
    if c.isEmpty || c == [46] then walk t fuel cur cs
    else if c == [46, 46] then (if cur.isEmpty then false else walk t fuel cur.dropLast cs)
    else
      match lookup t (cur ++ [c]) with
      | none => false
      | some (.dir _) => walk t fuel (cur ++ [c]) cs
      | some (.file _ _) => cs.isEmpty
      | some (.link tgt) => if tgt.head? == some 47 then false else walk t fuel cur (B.splitOn tgt 47 ++ cs)

/-- `Path::exists()`: follows symbolic links, so a dangling link "does not exist".
    Absolute targets and targets that leave the tree are taken to be missing. -/
def existsF (t : Tree) (p : Path) : Bool :=
  match lookup t p with
  | none => p.isEmpty
  | some (.link tgt) => if tgt.head? == some 47 then false else walk t 64 p.dropLast (B.splitOn tgt 47)
  | some _ => true

/-- the guard of STEP 1: `fs::symlink_metadata(to).is_ok()` (lstat: a dangling link exists).
    Before commit "undo renames dangling symlinks back" it was `to.exists()` = `existsF`. -/
def guardExists (t : Tree) (p : Path) : Bool := exists_ t p

-- undo STEP 1 --------------------------------------------------------------------------------------------

abbrev Mapping := Path × Path      -- (from, to) in the coordinates of the ORIGINAL tree

def insertM (le : Mapping → Mapping → Bool) (x : Mapping) : List Mapping → List Mapping
  | [] => [x]
  | y :: ys => if le x y then x :: y :: ys else y :: insertM le x ys

/-- stable sort (`sort_by`) -/
def sortM (le : Mapping → Mapping → Bool) : List Mapping → List Mapping
  | [] => []
  | x :: xs => insertM le x (sortM le xs)

def dirMappings (rs : List Ren) : List Mapping :=
  (rs.filter (fun r => r.kind == .dir)).map (fun r => (r.path, r.newPath))

/-- shallowest `new_path` first -/
def sortDirs (m : List Mapping) : List Mapping := sortM (fun a b => decide (depth a.2 ≤ depth b.2)) m

/-- deepest first: the order before commit "undo renames directories back shallowest first" -/
def sortDirsOld (m : List Mapping) : List Mapping := sortM (fun a b => decide (depth b.2 ≤ depth a.2)) m

/-- `for (from, to) in …: if <guard>(to) { fs::rename(to, from)? }` -/
def renameBackWith (guard : Tree → Path → Bool) : Tree → List Mapping → Tree × Option Errno
  | t, [] => (t, none)
  | t, (f, to) :: rest =>
    if guard t to then
      match rename t to f with
      | .ok t' => renameBackWith guard t' rest
      | .error e => (t, some e)
    else renameBackWith guard t rest

def renameBack : Tree → List Mapping → Tree × Option Errno := renameBackWith guardExists

/-- the adjustment loop over the (sorted) directory mappings, literally -/
def adjust (dm : List Mapping) (r : Ren) : Mapping :=
  dm.foldl (fun (acc : Mapping) d =>
    let acc1 : Mapping := if pre d.2 r.newPath then (acc.1, d.1 ++ r.newPath.drop d.2.length) else acc
    if pre d.1 r.path then (r.path, acc1.2) else acc1) (r.path, r.newPath)

def fileRenames (dm : List Mapping) (rs : List Ren) : List Mapping :=
  (rs.filter (fun r => r.kind == .file)).map (adjust dm)

def sortFiles (m : List Mapping) : List Mapping := sortM (fun a b => decide (depth b.2 ≤ depth a.2)) m

def undoRenamesWith (guard : Tree → Path → Bool) (sortD : List Mapping → List Mapping) (rs : List Ren) (t : Tree) :
    Tree × Option Errno :=
  let dm := sortD (dirMappings rs)
  match renameBackWith guard t dm with
  | (t1, some e) => (t1, some e)
  | (t1, none) => renameBackWith guard t1 (sortFiles (fileRenames dm rs))

/-- STEP 1 -/
def undoRenames (rs : List Ren) (t : Tree) : Tree × Option Errno := undoRenamesWith guardExists sortDirs rs t

/-- STEP 1 before "undo renames directories back shallowest first" (directories deepest first, `exists()` guard) -/
def undoRenamesOld (rs : List Ren) (t : Tree) : Tree × Option Errno := undoRenamesWith existsF sortDirsOld rs t

/-- STEP 1 before "undo renames dangling symlinks back" (`exists()` guard, which follows links) -/
def undoRenamesFollow (rs : List Ren) (t : Tree) : Tree × Option Errno := undoRenamesWith existsF sortDirs rs t

-- undo STEP 2 --------------------------------------------------------------------------------------------

def lastDot : Bytes → Nat → Option Nat → Option Nat
  | [], _, acc => acc
  | c :: cs, i, acc => lastDot cs (i + 1) (if c = 46 then some i else acc)

/-- file name of `path.with_extension(format!("{}.rej", path.extension().unwrap_or("")))` -/
def rejName (name : Bytes) : Bytes :=
  match lastDot name 0 none with
  | none => name ++ [46, 46, 114, 101, 106]
  | some i =>
    if i = 0 then name ++ [46, 46, 114, 101, 106]
    else if name.drop (i + 1) = [] then name.take i ++ [46, 46, 114, 101, 106]
    else name ++ [46, 114, 101, 106]

def rejPath (p : Path) : Path :=
  match p.getLast? with
  | none => p
  | some n => p.dropLast ++ [rejName n]

/-- `fs::write`: truncate or create with mode 0644; errors are only warned about -/
def writeFile (t : Tree) (p : Path) (c : Bytes) : Tree :=
  match lookup t p with
  | some (.file _ _) => setContent t p c
  | some _ => t
  | none =>
    if p.isEmpty then t
    else match parentOk t p with
      | .ok () => t ++ [(p, .file c 420)]
      | .error _ => t

/-- `apply_single_patch` + the `.rej` fallback; `true` = this patch failed -/
def applyOne (cfg : Cfg) (t : Tree) (pr : PatchRec) : Tree × Bool :=
  match readStr t pr.orig with
  | none => (writeFile t (rejPath pr.orig) pr.text, true)
  | some c =>
    match Patch.parse pr.text with
    | .error _ => (writeFile t (rejPath pr.orig) pr.text, true)
    | .ok p =>
      match cfg.patchApply p c with
      | none => (writeFile t (rejPath pr.orig) pr.text, true)
      | some c' => (setContent t pr.orig c', false)      -- temp file + chmod + rename: content replaced, mode kept

def applyPatches (cfg : Cfg) : Tree → List PatchRec → Nat → Tree × Nat
  | t, [], n => (t, n)
  | t, pr :: rest, n =>
    match applyOne cfg t pr with
    | (t', failed) => applyPatches cfg t' rest (if failed then n + 1 else n)

-- the command ----------------------------------------------------------------------------------------------

inductive Outcome where
  | ok
  | renameFailed (e : Errno)      -- `fs::rename(to, from)?` in STEP 1
  | patchFailed (n : Nat)         -- "Failed to apply n patches"
  deriving DecidableEq, Repr

structure UResult where
  outcome : Outcome
  tree    : Tree

def undoRenaming (cfg : Cfg) (t : Tree) (rs : List Ren) (patches : List PatchRec) : UResult :=
  match undoRenames rs t with
  | (t1, some e) => { outcome := .renameFailed e, tree := t1 }
  | (t1, none) =>
    match applyPatches cfg t1 patches 0 with
    | (t2, 0) => { outcome := .ok, tree := t2 }
    | (t2, n) => { outcome := .patchFailed n, tree := t2 }

/-- apply, then (when apply succeeded) undo -/
def applyUndo (cfg : Cfg) (t : Tree) (p : Plan) : Apply.Outcome × Option UResult :=
  let a := applyFull cfg t p
  match a.result.outcome with
  | .ok => (.ok, some (undoRenaming cfg a.result.tree p.rens a.patches))
  | o => (o, none)

/-- the driver's instance: whole-file diff and the model of `diffy::apply` -/
def driverCfg : Cfg := { diff := Patch.diffAll, patchApply := Patch.patchApply }

end Undo
