import RModel.Gen.Bindings
import RModel.Gen.OutputShapes
/-
  C19 model: what a command writes to stdout, whether that is a member of the TypeScript type the wrappers declare, and
  the exit status.

  Generated (translate/bindings.py, translate/output_shapes.py): `Gen.tsDecls`, `Gen.wrapperExpect`, `Gen.rustShapes`,
  `Gen.formatJsonShapes`, `Gen.alwaysSome`, `Gen.dispatch`, `Gen.handlerEvents`, `Gen.exitOk/exitOkInterrupted/okArmStdoutSites/exitRules/exitDefault`,
  `Gen.errArm*Sites`, `Gen.preDispatchExits`, `Gen.initHelperStdoutSites`, `Gen.coreStdoutSites`.

  Hand-written here (validated against the real CLI by the grid of checks/c19.py):
    * `conforms`: membership of every document of a shape in a TS type (structural, excess members allowed, `null` is not
      `undefined`: an optional member may be absent but not `null`);
    * which `skip_serializing_if` members are absent in which scenario (`pres3`): members named `replace` / `new_path`
      with an is-empty skip are absent exactly when the replacement term is empty (search mode); every other skipped
      member may or may not be present;
    * `run`: sequential interpretation of the guarded event list of a handler; `outcome`: main's Ok/Err arms on top;
    * `intended`: the effect a command line asks for;  an operation that returns Ok has had its effect;
    * `.fallible s` (a member rendered through `serde_json::to_value(..).unwrap_or(Value::Null)`) is `s` unless the scenario
      says serialisation fails (`DocCtx.serFails`: some planned path is not valid UTF-8), then it is `null`; since 56d4ab2 the
      planner refuses such a path, so `serFails` is false in every scenario a command can reach;
    * no signal arrives: main's interrupted flag is false in every row (`Gen.exitOkInterrupted` is only pinned non-zero);
    * stdout is a pipe in every row (so `rename` without `-y` fails inside `rename_operation` before its prompt), the
      `RENAMIFY_DEBUG_*` variables are unset, clap rejects an invalid argv before any handler runs.
-/
namespace Output

def lookup {α : Type} (k : Name) : List (Name × α) → Option α
  | [] => none
  | (k', v) :: r => if k' = k then some v else lookup k r

def lookupCmd {α : Type} (k : Cmd) : List (Cmd × α) → Option α
  | [] => none
  | (k', v) :: r => if k' = k then some v else lookupCmd k r

/-! ## conformance of a shape to a TypeScript type -/

/-- scenario facts that decide which members a document has -/
structure DocCtx where
  replaceEmpty : Bool     -- the replacement term is empty (search mode)
  noMatches : Bool        -- the plan has no content matches
  noRenames : Bool        -- the plan has no path renames
  serFails : Bool := false  -- a value behind `to_value(..).unwrap_or(Null)` cannot be serialised (a path that is not UTF-8)
  deriving DecidableEq, Repr

inductive Pres3 where
  | present | absent | either
  deriving DecidableEq, Repr

/-- members whose is-empty skip condition is the emptiness of the replacement term -/
def tiedToReplacement : List Name := [n!"replace", n!"new_path"]

def pres3 (c : DocCtx) (field : Name) : Presence → Pres3
  | .always => .present
  | .ifSome => .either
  | .ifNonEmpty =>
    if tiedToReplacement.contains field then (if c.replaceEmpty then .absent else .present) else .either

/-- `matches` / `paths` are the empty array when the scenario has no matches / no renames -/
def fieldShape (c : DocCtx) (field : Name) (s : JsonShape) : JsonShape :=
  if (field == n!"matches" && c.noMatches) || (field == n!"paths" && c.noRenames) then
    match s with
    | .arr _ => .tuple []
    | x => x
  else s

/-- every document of shape `s` (in scenario `c`) is a member of `t`; `false` when the fuel runs out -/
def conforms (decls : List (Name × TsType)) (shapes : List (Name × JsonShape)) (c : DocCtx) :
    Nat → TsType → JsonShape → Bool
  | 0, _, _ => false
  | fuel + 1, t, s =>
    match s with
    | .ref n =>
      match lookup n shapes with
      | some s' => conforms decls shapes c fuel t s'
      | none => false
    | .oneOf ss => ss.all fun s' => conforms decls shapes c fuel t s'
    | .fallible s' => if c.serFails then conforms decls shapes c fuel t .null else conforms decls shapes c fuel t s'
    | s =>
      match t with
      | .any => true
      | .ref n =>
        match lookup n decls with
        | some t' => conforms decls shapes c fuel t' s
        | none => false
      | .union ts => ts.any fun t' => conforms decls shapes c fuel t' s
      | .str => match s with
        | .str => true
        | .lit _ => true
        | _ => false
      | .num => match s with
        | .num => true
        | _ => false
      | .bool => match s with
        | .bool => true
        | _ => false
      | .null => match s with
        | .null => true
        | _ => false
      | .lit a => match s with
        | .lit b => a == b
        | _ => false
      | .arr t' => match s with
        | .arr s' => conforms decls shapes c fuel t' s'
        | .tuple ss => ss.all fun s' => conforms decls shapes c fuel t' s'
        | _ => false
      | .tuple ts => match s with
        | .tuple ss => ts.length == ss.length && (ts.zip ss).all fun p => conforms decls shapes c fuel p.1 p.2
        | _ => false
      | .record v => match s with
        | .map s' => conforms decls shapes c fuel v s'
        | _ => false
      | .obj tfs => match s with
        | .obj sfs => tfs.all fun tf =>
            match lookup tf.1 sfs with
            | none => tf.2.1
            | some ps =>
              match pres3 c tf.1 ps.1 with
              | .present => conforms decls shapes c fuel tf.2.2 (fieldShape c tf.1 ps.2)
              | .absent => tf.2.1
              | .either => tf.2.1 && conforms decls shapes c fuel tf.2.2 (fieldShape c tf.1 ps.2)
        | _ => false

def fuel : Nat := 32

/-- conformance against the generated declarations -/
def conformsGen (c : DocCtx) (t : TsType) (s : JsonShape) : Bool :=
  conforms Gen.tsDecls Gen.rustShapes c fuel t s

/-! ## emissions -/

def Payload.isJson : Payload → Bool
  | .jsonOf _ => true
  | .pretty _ => true
  | _ => false

/-- shape of the document a JSON payload is -/
def docShape : Payload → Option JsonShape
  | .jsonOf t => lookup t Gen.formatJsonShapes
  | .pretty t => (lookup t Gen.rustShapes).map fun _ => .ref t
  | _ => none

/-- one command line × scenario × outcome class -/
structure Row where
  cmd : Cmd
  json : Bool
  quiet : Bool
  dryRun : Bool
  yes : Bool
  preview : Bool          -- some `--preview <value>` other than `none` was given
  noRegex : Bool
  commit : Bool           -- `--commit` (a dimension of the table for `replace`, whose handler tests it; `rename` / `apply` pass it on)
  planEmpty : Bool        -- the scan finds neither a match nor a rename
  failAt : Option Nat     -- the handler's fallible site that fails (none: nothing fails)
  deriving DecidableEq, Repr

/-- value of a guard atom in a row; `d` = (handler, replacement bound to "", dry_run bound to true, preview None under json) -/
def atomVal (r : Row) (d : Name × Bool × Bool × Bool) : Atom → Bool
  | .json => r.json
  | .quiet => r.quiet
  | .dryRun => r.dryRun || d.2.2.1
  | .yes => r.yes
  | .planEmpty => r.planEmpty
  | .previewSome => r.preview && !(r.json && d.2.2.2) && !r.quiet
  | .declined => !r.yes           -- stdin is not a terminal: the answer is empty
  | .commit => r.commit
  | .large => false
  | .tooLarge => false
  | .noRegex => r.noRegex
  | .dirMissing => true
  | .previewWithJson => r.preview && r.json && !d.2.2.2
  | .fixedWidthMisuse => false

structure Trace where
  outs : List Payload
  errs : Nat
  calls : List Name
  failed : Option Name
  deriving DecidableEq, Repr

def holds (v : Atom → Bool) (g : List Lit) : Bool := g.all fun l => v l.atom == l.pos

/-- sequential interpretation of a handler's guarded events -/
def run (v : Atom → Bool) (failAt : Option Nat) : List GEv → Trace → Trace
  | [], t => t
  | e :: rest, t =>
    if holds v e.guard then
      match e.ev with
      | .out p _ => run v failAt rest { t with outs := t.outs ++ [p] }
      | .err => run v failAt rest { t with errs := t.errs + 1 }
      | .ret => t
      | .fail k c => if failAt = some k then { t with failed := some c } else run v failAt rest t
      | .call f => run v failAt rest { t with calls := t.calls ++ [f] }
    else run v failAt rest t

/-- what the process shows: stdout emissions in order, number of stderr sites hit, status, effects -/
structure Outcome where
  stdout : List Payload
  stderrSites : Nat
  exitZero : Bool
  performed : List Name
  failed : Bool
  deriving DecidableEq, Repr

/-- the error document main's Err arm prints under `--output json` when `Gen.errArmJsonDoc` (shape: `Gen.formatJsonShapes`) -/
def errorDoc : Payload := .jsonOf n!"main::emit_json_error"

/-- every status main's Err arm can produce -/
def errCodes : List Nat := Gen.exitRules.map (·.2) ++ [Gen.exitDefault]

def eventsOf (cmd : Cmd) : Option ((Name × Bool × Bool × Bool) × List GEv) :=
  match lookupCmd cmd Gen.dispatch with
  | none => none
  | some d => (lookup d.1 Gen.handlerEvents).map fun evs => (d, evs)

def outcome (r : Row) : Option Outcome :=
  match eventsOf r.cmd with
  | none => none
  | some (d, evs) =>
    let t := run (atomVal r d) r.failAt evs ⟨[], 0, [], none⟩
    match t.failed with
    | none => some { stdout := t.outs, stderrSites := t.errs, exitZero := Gen.exitOk == 0,
                     performed := t.calls, failed := false }
    | some c => some { stdout := t.outs ++ (if r.json && Gen.errArmJsonDoc then [errorDoc] else [])
                                   ++ List.replicate Gen.errArmStdoutSites .text,
                       stderrSites := t.errs + Gen.errArmStderrSites,
                       exitZero := errCodes.any (· == 0),
                       performed := t.calls.filter (· != c), failed := true }

/-- the operations a command line asks for -/
def intended (r : Row) : List Name :=
  match r.cmd with
  | .replace =>
    if r.yes && !r.dryRun && !r.planEmpty then [n!"create_simple_plan", n!"apply_plan"] else [n!"create_simple_plan"]
  | .plan => [n!"plan_operation"]
  | .search => [n!"plan_operation"]
  | .rename => [n!"rename_operation"]
  | .apply => [n!"apply_operation"]
  | .undo => [n!"undo_operation"]
  | .redo => [n!"redo_operation"]
  | .history => [n!"history_operation"]
  | .status => [n!"status_operation"]
  | .version => []

def succeeded (r : Row) (o : Outcome) : Bool :=
  !o.failed && (intended r).all fun f => o.performed.contains f

/-! ## the finite table -/

def bools : List Bool := [false, true]

def acceptsDryRun : Cmd → Bool
  | .plan | .rename | .replace => true
  | _ => false
def scansTree : Cmd → Bool
  | .plan | .search | .rename | .replace => true
  | _ => false
def acceptsPreview (c : Cmd) : Bool := scansTree c
def acceptsQuiet (c : Cmd) : Bool := c != .version
def usesYes : Cmd → Bool
  | .rename | .replace => true
  | _ => false

def opt (on : Bool) : List Bool := if on then bools else [false]

def failSites (cmd : Cmd) : List (Option Nat) :=
  match eventsOf cmd with
  | none => [none]
  | some (_, evs) => none :: evs.filterMap fun e => match e.ev with
    | .fail k _ => some (some k)
    | _ => none

def rowsOf (cmd : Cmd) : List Row :=
  bools.flatMap fun json =>
  (opt (acceptsQuiet cmd)).flatMap fun quiet =>
  (opt (acceptsDryRun cmd)).flatMap fun dryRun =>
  (opt (usesYes cmd)).flatMap fun yes =>
  (opt (acceptsPreview cmd)).flatMap fun preview =>
  (opt (cmd == .replace)).flatMap fun noRegex =>
  (opt (cmd == .replace && !preview && noRegex)).flatMap fun commit =>     -- (--commit is crossed with everything but --preview / regex mode)
  (opt (scansTree cmd)).flatMap fun planEmpty =>
  (failSites cmd).map fun failAt =>
    { cmd, json, quiet, dryRun, yes, preview, noRegex, commit, planEmpty, failAt }

def rows : List Row := Cmd.all.flatMap rowsOf

def jsonRows : List Row := rows.filter (·.json)

/-! ## row predicates -/

/-- exactly one stdout emission, and it is a JSON document of a known shape -/
def oneDocument (o : Outcome) : Bool :=
  match o.stdout with
  | [p] => p.isJson && (docShape p).isSome
  | _ => false

/-- `check r f` = `f` holds of the outcome of `r` (false when the row has no handler) -/
def check (r : Row) (f : Outcome → Bool) : Bool :=
  match outcome r with
  | some o => f o
  | none => false

/-- the plain `--output json` command line (with `-y`, `--no-regex` where they exist) in which nothing fails -/
def plainRow (cmd : Cmd) : Row :=
  { cmd, json := true, quiet := false, dryRun := false, yes := usesYes cmd, preview := false, noRegex := cmd == .replace,
    commit := false, planEmpty := false, failAt := none }

/-- the document the command emits (payload of the plain row, when it is exactly one) -/
def emittedDoc (cmd : Cmd) : Option Payload :=
  match outcome (plainRow cmd) with
  | some o => match o.stdout with
    | [p] => some p
    | _ => none
  | none => none

def replaceEmptyOf (cmd : Cmd) : Bool :=
  match lookupCmd cmd Gen.dispatch with
  | some d => d.2.1
  | none => false

def docCtxOf (cmd : Cmd) (noMatches noRenames : Bool) : DocCtx :=
  { replaceEmpty := replaceEmptyOf cmd, noMatches, noRenames }

/-- the types the wrappers declare for the stdout of a command -/
def expectedTypes (cmd : Cmd) : List (Name × TsType) :=
  Gen.wrapperExpect.filterMap fun e => if e.1 = cmd then some e.2 else none

/-- the document the command emits is a member of every type a wrapper declares for it, in the scenario `c` -/
def conformsCmdIn (cmd : Cmd) (c : DocCtx) : Bool :=
  match emittedDoc cmd with
  | some p =>
    match docShape p with
    | some s => (expectedTypes cmd).all fun e => conformsGen c e.2 s
    | none => false
  | none => false

/-- … in the scenarios in which every path is valid UTF-8 -/
def conformsCmd (cmd : Cmd) (noMatches noRenames : Bool) : Bool :=
  conformsCmdIn cmd (docCtxOf cmd noMatches noRenames)

/-- scenarios that can differ in the members a command's document has -/
def docScenarios (cmd : Cmd) : List (Bool × Bool) :=
  if scansTree cmd then [(false, false), (false, true), (true, false), (true, true)] else [(false, false)]

/-! ## assumptions about the sources outside the handlers, pinned against the generated fingerprint -/

/-- the stdout sites of the core library the model knows about (the generated list must be a sub-list: a site may disappear,
    e.g. the prompt moving to stderr, but no new one may appear): the preview print and the prompt inside
    `rename_operation` (both unreachable when stdout is a pipe or `-y` is given), and the unused `write_preview` -/
def knownCoreSites : List (Name × Name × List Name × Nat) := [
  (n!"operations/rename.rs", n!"rename_operation",
    [n!"let Some(format) = preview_format.as_ref()", n!"*format != 'none'", n!"!dry_run && !auto_approve"], 1),
  (n!"operations/rename.rs", n!"get_user_confirmation", [], 1),
  (n!"preview/mod.rs", n!"write_preview", [], 0)
]

end Output
