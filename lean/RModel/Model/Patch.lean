import RModel.Base.Bytes
import RModel.Base.Lit
/-
  L5 `Patch`: the text level of what renamify does with its undo patches.

  * `lines`                — split after every `\n`; this one function is both
                             `apply.rs::split_preserving_newlines` and diffy's `utils::LineIter`
                             (both cut after each `\n` and keep a last unterminated segment).
  * `rewriteHeaders`       — `apply.rs::replace_patch_headers` (with the `in_header` flag and the `quote` closure);
    `rewriteHeadersUnquoted` — the same before the quoting fix;
    `rewriteHeadersOld`    — the algorithm before commit "rewrite only the header lines of reverse patches".
  * `Patch`, `fmt`, `parse`— diffy 0.4.2 `patch/mod.rs`, `patch/format.rs` (default `PatchFormatter`: no colour,
                             missing-newline message on, `suppress_blank_empty` on) and `patch/parse.rs`.
  * `patchApply`           — diffy 0.4.2 `apply.rs` (used by the driver only; the theorems take
                             `diff`/`patchApply` as parameters with an explicit contract).
  `diffy::create_patch` (Myers) is not modelled.
-/

namespace Patch

def sw (s p : Bytes) : Bool := p.isPrefixOf s
def ew (s p : Bytes) : Bool := p.isSuffixOf s

/-- split after every `\n`, keeping the terminator; a last segment without `\n` is kept; `""` ↦ `[]` -/
def lines : Bytes → List Bytes
  | [] => []
  | c :: cs =>
    if c = 10 then [c] :: lines cs
    else match lines cs with
      | [] => [[c]]
      | l :: ls => (c :: l) :: ls

def splitPreservingNewlines (s : Bytes) : List Bytes := lines s

-- renamify: replace_patch_headers ---------------------------------------------------------------------

/-- the line ending that `replace_patch_headers` re-attaches to a rewritten header line -/
def eol (l : Bytes) : Bytes :=
  if ew l [13, 10] then [13, 10] else if ew l [10] then [10] else []

def rewriteGo (a b : Bytes) : Bool → List Bytes → Bytes
  | _, [] => []
  | inHeader, l :: ls =>
    let inHeader := if sw l b!"@@" then false else inHeader
    if !inHeader then l ++ rewriteGo a b inHeader ls
    else if sw l b!"--- " then b!"--- " ++ a ++ eol l ++ rewriteGo a b inHeader ls
    else if sw l b!"+++ " then b!"+++ " ++ b ++ eol l ++ rewriteGo a b inHeader ls
    else l ++ rewriteGo a b inHeader ls

/-- `ESCAPED_CHARS` of diffy: `\n \t \0 \r " \` -/
def isEscaped (c : UInt8) : Bool :=
  c = 10 || c = 9 || c = 0 || c = 13 || c = 34 || c = 92

/-- one character of the quoted form written by the `quote` closure of `replace_patch_headers` -/
def escChar (c : UInt8) : Bytes :=
  if c = 10 then [92, 110] else if c = 9 then [92, 116] else if c = 0 then [92, 48]
  else if c = 13 then [92, 114] else if c = 34 then [92, 34] else if c = 92 then [92, 92] else [c]

/-- the `quote` closure (commit "quote file names in reverse patch headers when diffy requires it"): a name
    containing one of diffy's `ESCAPED_CHARS` is written `"…"` with `\n \t \0 \r \" \\` escapes — the form diffy's
    PARSER accepts (diffy's own formatter writes a backslash followed by the raw character, which its parser rejects) -/
def quoteName (n : Bytes) : Bytes :=
  if n.any isEscaped then [34] ++ n.flatMap escChar ++ [34] else n

/-- `replace_patch_headers(patch, from, to)`; `a`, `b` are the two (already relative) path strings -/
def rewriteHeaders (text a b : Bytes) : Bytes :=
  rewriteGo (quoteName a) (quoteName b) true (splitPreservingNewlines text)

/-- before the quoting fix: the paths go into the header as they are -/
def rewriteHeadersUnquoted (text a b : Bytes) : Bytes := rewriteGo a b true (splitPreservingNewlines text)

def rewriteOldGo (a b : Bytes) : List Bytes → Bytes
  | [] => []
  | l :: ls =>
    if sw l b!"--- " then b!"--- " ++ a ++ eol l ++ rewriteOldGo a b ls
    else if sw l b!"+++ " then b!"+++ " ++ b ++ eol l ++ rewriteOldGo a b ls
    else l ++ rewriteOldGo a b ls

/-- the algorithm before the fix: every line that starts with `--- ` / `+++ ` is rewritten -/
def rewriteHeadersOld (text a b : Bytes) : Bytes := rewriteOldGo a b (splitPreservingNewlines text)

-- diffy: patch structure -------------------------------------------------------------------------------

inductive Tag where | context | delete | insert
  deriving DecidableEq, Repr

/-- `s` includes the terminating `\n` unless the line is the unterminated last line of its file -/
structure Line where
  tag : Tag
  s   : Bytes
  deriving DecidableEq, Repr

structure Range where
  start : Nat
  len   : Nat
  deriving DecidableEq, Repr

structure Hunk where
  oldR  : Range
  newR  : Range
  fctx  : Option Bytes := none
  lines : List Line
  deriving DecidableEq, Repr

structure Patch where
  old   : Option Bytes
  new   : Option Bytes
  hunks : List Hunk
  deriving DecidableEq, Repr

def noNewlineMsg : Bytes := b!"\\ No newline at end of file"

-- decimal numbers ---------------------------------------------------------------------------------------

def digit (n : Nat) : UInt8 := UInt8.ofNat (48 + n % 10)

def digitsAux : Nat → Nat → Bytes → Bytes
  | 0, _, acc => acc
  | fuel + 1, n, acc => if n < 10 then digit n :: acc else digitsAux fuel (n / 10) (digit n :: acc)

/-- `usize as Display` -/
def showNat (n : Nat) : Bytes := digitsAux (n + 1) n []

def isDigit (c : UInt8) : Bool := decide (48 ≤ c.toNat) && decide (c.toNat ≤ 57)

def valDigits : Nat → Bytes → Nat
  | v, [] => v
  | v, c :: cs => valDigits (v * 10 + (c.toNat - 48)) cs

/-- `str::parse::<usize>()` on a 64-bit target: optional `+`, at least one ASCII digit, no overflow -/
def parseNat (s : Bytes) : Option Nat :=
  let ds := match s with | 43 :: r => r | _ => s
  if ds.isEmpty || !ds.all isDigit then none
  else
    let v := valDigits 0 ds
    if v < 18446744073709551616 then some v else none

-- diffy: format.rs ----------------------------------------------------------------------------------------

def fmtName (n : Bytes) : Bytes :=
  if n.any isEscaped then [34] ++ n.flatMap (fun c => if isEscaped c then [92, c] else [c]) ++ [34] else n

def fmtRange (r : Range) : Bytes :=
  showNat r.start ++ (if r.len != 1 then [44] ++ showNat r.len else [])

def sign : Tag → UInt8
  | .context => 32
  | .delete => 45
  | .insert => 43

def fmtLine (l : Line) : Bytes :=
  (if l.tag = .context ∧ l.s = [10] then l.s else sign l.tag :: l.s) ++
  (if ew l.s [10] then [] else [10] ++ noNewlineMsg ++ [10])

def fmtHunk (h : Hunk) : Bytes :=
  b!"@@ -" ++ fmtRange h.oldR ++ b!" +" ++ fmtRange h.newR ++ b!" @@" ++
  (match h.fctx with | some c => b!"  " ++ c | none => []) ++ [10] ++
  h.lines.flatMap fmtLine

def fmtHeader (p : Patch) : Bytes :=
  (match p.old with | some n => b!"--- " ++ fmtName n ++ [10] | none => []) ++
  (match p.new with | some n => b!"+++ " ++ fmtName n ++ [10] | none => [])

/-- `Patch::to_string()` -/
def fmt (p : Patch) : Bytes := fmtHeader p ++ p.hunks.flatMap fmtHunk

-- diffy: parse.rs -----------------------------------------------------------------------------------------

inductive ParseErr where
  | eof | multipleOld | multipleNew | filename | unterminated | invalidUnquoted | expectedEscaped
  | invalidEscaped | invalidUnescaped | hunkHeader | hunkHeaderUnterminated | range | headerMismatch
  | order | endOfHunk | noMoreDeleted | noMoreInserted | unexpectedNoNewline | missingNewline
  | unexpectedLine
  deriving DecidableEq, Repr

def ParseErr.msg : ParseErr → String
  | .eof => "unexpected EOF"
  | .multipleOld => "multiple '---' lines"
  | .multipleNew => "multiple '+++' lines"
  | .filename => "unable to parse filename"
  | .unterminated => "filename unterminated"
  | .invalidUnquoted => "invalid char in unquoted filename"
  | .expectedEscaped => "expected escaped character"
  | .invalidEscaped => "invalid escaped character"
  | .invalidUnescaped => "invalid unescaped character"
  | .hunkHeader => "unable to parse hunk header"
  | .hunkHeaderUnterminated => "hunk header unterminated"
  | .range => "can't parse range"
  | .headerMismatch => "Hunk header does not match hunk"
  | .order => "Hunks not in order or overlap"
  | .endOfHunk => "expected end of hunk"
  | .noMoreDeleted => "expected no more deleted lines"
  | .noMoreInserted => "expected no more inserted lines"
  | .unexpectedNoNewline => "unexpected 'No newline at end of file' line"
  | .missingNewline => "missing newline"
  | .unexpectedLine => "unexpected line in hunk body"

/-- `split_at_exclusive(needle)`: around the first occurrence -/
def splitAtSub (needle : Bytes) : Bytes → Option (Bytes × Bytes)
  | [] => if needle.isEmpty then some ([], []) else none
  | c :: cs =>
    if needle.isPrefixOf (c :: cs) then some ([], (c :: cs).drop needle.length)
    else match splitAtSub needle cs with
      | some (a, b) => some (c :: a, b)
      | none => none

def stripPrefix (p s : Bytes) : Option Bytes := if p.isPrefixOf s then some (s.drop p.length) else none
def stripSuffix (p s : Bytes) : Option Bytes :=
  if p.isSuffixOf s then some (s.take (s.length - p.length)) else none

def isHeaderStart (l : Bytes) : Bool := sw l b!"--- " || sw l b!"+++ " || sw l b!"@@ "

def skipPreamble : List Bytes → List Bytes
  | [] => []
  | l :: ls => if isHeaderStart l then l :: ls else skipPreamble ls

def unescapedFilename (f : Bytes) : Except ParseErr Bytes :=
  if f.any isEscaped then .error .invalidUnquoted else .ok f

/-- the character an escape `\x` stands for -/
def unescape (c : UInt8) : Option UInt8 :=
  if c = 110 then some 10 else if c = 116 then some 9 else if c = 48 then some 0
  else if c = 114 then some 13 else if c = 34 then some 34 else if c = 92 then some 92 else none

def escapedFilename : Bytes → Except ParseErr Bytes
  | [] => .ok []
  | c :: rest =>
    if c = 92 then
      match rest with
      | [] => .error .expectedEscaped
      | x :: rest' =>
        match unescape x with
        | none => .error .invalidEscaped
        | some y => match escapedFilename rest' with
          | .ok r => .ok (y :: r)
          | .error e => .error e
    else if isEscaped c then .error .invalidUnescaped
    else match escapedFilename rest with
      | .ok r => .ok (c :: r)
      | .error e => .error e

def isQuoted (s : Bytes) : Option Bytes :=
  match stripPrefix [34] s with
  | some r => stripSuffix [34] r
  | none => none

/-- `parse_filename(prefix, line)`; both prefixes are 4 bytes long -/
def parseFilename (prefix_ line : Bytes) : Except ParseErr Bytes :=
  match stripPrefix prefix_ line with
  | none => .error .filename
  | some rest =>
    let fname : Option Bytes :=
      match splitAtSub [9] rest with
      | some (f, _) => some f
      | none => match splitAtSub [10] rest with
        | some (f, _) => some f
        | none => none
    match fname with
    | none => .error .unterminated
    | some f =>
      match isQuoted f with
      | some q => escapedFilename q
      | none => unescapedFilename f

def patchHeader : List Bytes → Option Bytes → Option Bytes →
    Except ParseErr (Option Bytes × Option Bytes × List Bytes)
  | [], f1, f2 => .ok (f1, f2, [])
  | l :: ls, f1, f2 =>
    if sw l b!"--- " then
      if f1.isSome then .error .multipleOld
      else match parseFilename b!"--- " l with
        | .ok n => patchHeader ls (some n) f2
        | .error e => .error e
    else if sw l b!"+++ " then
      if f2.isSome then .error .multipleNew
      else match parseFilename b!"+++ " l with
        | .ok n => patchHeader ls f1 (some n)
        | .error e => .error e
    else .ok (f1, f2, l :: ls)

def range (s : Bytes) : Except ParseErr Range :=
  match splitAtSub [44] s with
  | some (a, b) =>
    match parseNat a, parseNat b with
    | some x, some y => .ok ⟨x, y⟩
    | _, _ => .error .range
  | none =>
    match parseNat s with
    | some x => .ok ⟨x, 1⟩
    | none => .error .range

def hunkHeader (l : Bytes) : Except ParseErr (Range × Range × Option Bytes) :=
  match stripPrefix b!"@@ " l with
  | none => .error .hunkHeader
  | some input =>
    match splitAtSub b!" @@" input with
    | none => .error .hunkHeaderUnterminated
    | some (ranges, rest) =>
      let fctx := stripPrefix [32] rest
      match splitAtSub [32] ranges with
      | none => .error .hunkHeader
      | some (r1, r2) =>
        match stripPrefix [45] r1 with
        | none => .error .hunkHeader
        | some r1' =>
          match range r1' with
          | .error e => .error e
          | .ok ra =>
            match stripPrefix [43] r2 with
            | none => .error .hunkHeader
            | some r2' =>
              match range r2' with
              | .error e => .error e
              | .ok rb => .ok (ra, rb, fctx)

def stripNewline (s : Bytes) : Except ParseErr Bytes :=
  match stripSuffix [10] s with
  | some r => .ok r
  | none => .error .missingNewline

structure Flags where
  ctx : Bool := false
  del : Bool := false
  ins : Bool := false

/-- `hunk_lines`: `acc` is the vector built so far, in reverse -/
def hunkLines : List Bytes → Flags → List Line → Except ParseErr (List Line × List Bytes)
  | [], _, acc => .ok (acc.reverse, [])
  | l :: ls, fl, acc =>
    if sw l [64] then .ok (acc.reverse, l :: ls)
    else if fl.ctx then .error .endOfHunk
    else if sw l [32] then hunkLines ls fl (⟨.context, l.drop 1⟩ :: acc)
    else if sw l [10] then hunkLines ls fl (⟨.context, l⟩ :: acc)
    else if sw l [45] then
      if fl.del then .error .noMoreDeleted else hunkLines ls fl (⟨.delete, l.drop 1⟩ :: acc)
    else if sw l [43] then
      if fl.ins then .error .noMoreInserted else hunkLines ls fl (⟨.insert, l.drop 1⟩ :: acc)
    else if sw l noNewlineMsg then
      match acc with
      | [] => .error .unexpectedNoNewline
      | last :: acc' =>
        match stripNewline last.s with
        | .error e => .error e
        | .ok s' =>
          let fl' : Flags := match last.tag with
            | .context => { fl with ctx := true }
            | .delete => { fl with del := true }
            | .insert => { fl with ins := true }
          hunkLines ls fl' (⟨last.tag, s'⟩ :: acc')
    else .error .unexpectedLine

def countOld (ls : List Line) : Nat := (ls.filter (fun l => l.tag != .insert)).length
def countNew (ls : List Line) : Nat := (ls.filter (fun l => l.tag != .delete)).length

def hunk : List Bytes → Except ParseErr (Hunk × List Bytes)
  | [] => .error .eof
  | l :: ls =>
    match hunkHeader l with
    | .error e => .error e
    | .ok (r1, r2, fctx) =>
      match hunkLines ls {} [] with
      | .error e => .error e
      | .ok (lns, rest) =>
        if countOld lns != r1.len || countNew lns != r2.len then .error .headerMismatch
        else .ok ({ oldR := r1, newR := r2, fctx := fctx, lines := lns }, rest)

def hunksLoop : Nat → List Bytes → Except ParseErr (List Hunk)
  | _, [] => .ok []
  | 0, _ :: _ => .error .eof          -- unreachable: fuel = number of lines + 1
  | fuel + 1, l :: ls =>
    match hunk (l :: ls) with
    | .error e => .error e
    | .ok (h, rest) =>
      match hunksLoop fuel rest with
      | .error e => .error e
      | .ok hs => .ok (h :: hs)

def inOrder : List Hunk → Bool
  | h1 :: h2 :: rest =>
    !(decide (h1.oldR.start + h1.oldR.len > h2.oldR.start) || decide (h1.newR.start + h1.newR.len > h2.newR.start))
      && inOrder (h2 :: rest)
  | _ => true

/-- `Patch::from_str` -/
def parse (input : Bytes) : Except ParseErr Patch :=
  match patchHeader (skipPreamble (lines input)) none none with
  | .error e => .error e
  | .ok (f1, f2, rest) =>
    match hunksLoop (rest.length + 1) rest with
    | .error e => .error e
    | .ok hs => if inOrder hs then .ok { old := f1, new := f2, hunks := hs } else .error .order

-- diffy: apply.rs --------------------------------------------------------------------------------------

def preImage (ls : List Line) : List Bytes := (ls.filter (fun l => l.tag != .insert)).map (·.s)
def postImage (ls : List Line) : List Bytes := (ls.filter (fun l => l.tag != .delete)).map (·.s)

/-- image lines carry a "patched" flag -/
abbrev Image := List (Bool × Bytes)

def matchFragment (img : Image) (ls : List Line) (pos : Nat) : Bool :=
  let pre := preImage ls
  let seg := (img.drop pos).take pre.length
  decide (pos + pre.length ≤ img.length) && !seg.any (·.1) && seg.map (·.2) == pre

/-- `iter::once(pos).chain(interleave((0..pos).rev(), pos+1..len))` -/
def candidates (pos len : Nat) : List Nat :=
  let back := (List.range pos).reverse
  let fwd := (List.range (len - (pos + 1))).map (· + pos + 1)
  pos :: inter true back fwd
where
  inter : Bool → List Nat → List Nat → List Nat
    | _, [], ys => ys
    | _, xs, [] => xs
    | true, x :: xs, ys => x :: inter false xs ys
    | false, xs, y :: ys => y :: inter true xs ys

def applyHunk (img : Image) (h : Hunk) : Option Image :=
  let pos := min (h.newR.start - 1) img.length
  match (candidates pos img.length).find? (fun p => matchFragment img h.lines p) with
  | none => none
  | some p => some (img.take p ++ (postImage h.lines).map (fun s => (true, s)) ++ img.drop (p + (preImage h.lines).length))

/-- `diffy::apply(base, patch)`; the file names are not looked at -/
def patchApply (p : Patch) (base : Bytes) : Option Bytes :=
  let img : Image := (lines base).map (fun l => (false, l))
  match p.hunks.foldl (fun acc h => acc.bind (fun i => applyHunk i h)) (some img) with
  | none => none
  | some i => some (i.flatMap (·.2))

/-- a trivially correct stand-in for `create_patch` (delete everything, insert everything): used by the
    driver, which cannot run Myers; the theorems are parametric in the diff function -/
def diffAll (a b : Bytes) : Patch :=
  let la := lines a
  let lb := lines b
  { old := some b!"original", new := some b!"modified",
    hunks := if a = b then [] else
      [{ oldR := ⟨if la.isEmpty then 0 else 1, la.length⟩, newR := ⟨if lb.isEmpty then 0 else 1, lb.length⟩,
         lines := la.map (fun s => ⟨.delete, s⟩) ++ lb.map (fun s => ⟨.insert, s⟩) }] }

end Patch
