import RModel.Base.Bytes
import RModel.Base.Utf8
import RModel.Model.Edits
import RModel.Model.Matcher
/-
  Geometry of plan hunks and of the diff preview.

  * `linesWT`      bstr `lines_with_terminator` (split after every `\n`; a last line without
                   terminator is kept; empty input has no lines) — used by `scan_repository_multi`
                   and `generate_hunks`;
  * `hunkGeom`     what `scanner.rs::generate_hunks` derives from (file bytes, match line/column,
                   recorded text, replacement): `line_before = from_utf8_lossy(line)`,
                   `line_after` = column splice on the LOSSY string with the `find` fallback,
                   `char_offset` = characters that start before the column; since ac203f2 the column is applied
                   with checked slicing (`get(col..)`), a column that does not fit the lossy string falls
                   through to the `find` fallback instead of panicking;
  * `diffAfterText`  what `preview/diff.rs::render_diff` feeds to the line differ as the "after"
                   text of one `@@ line n @@` block: `line_after` of the hunk if the line has one
                   hunk, otherwise `line_before` of the FIRST hunk with every hunk spliced in, in
                   descending `byte_offset` order (stable sort), each splice guarded by
                   `after.get(col..)` being non-empty and starting with `content`, silently skipped otherwise;
  * `planLiteral`  `scanner.rs::process_file_content` in literal mode: `str::lines()` of the lossy
                   file text, repeated `find` per line; `start/end` relative to the line unless the
                   generated flag says the line offset is added.
-/
namespace Hunks
open Edits

/-- bstr `lines_with_terminator` -/
def linesWT : Bytes → List Bytes
  | [] => []
  | c :: cs =>
    if c.toNat == 10 then [c] :: linesWT cs
    else match linesWT cs with
      | [] => [[c]]
      | l :: ls => (c :: l) :: ls

/-- the `n`-th line (1-based) including its terminator -/
def lineOf (content : Bytes) (n : Nat) : Option Bytes := (linesWT content)[n - 1]?

/-- `s.get(i..).is_some_and(|tail| !tail.is_empty() && tail.starts_with(p))` (checked slicing since ac203f2: a
    column past the end or inside a character is simply "no"; before that commit the code sliced with `s[i..]` and
    panicked inside a character).  The result type keeps `none` = panic so that "no panic" stays a statement. -/
def startsWithAt (s : Bytes) (i : Nat) (p : Bytes) : Option Bool :=
  if i < s.length then
    if isCharBoundary s i then some (p.isPrefixOf (s.drop i)) else some false
  else some false

def spliceAt (s : Bytes) (i n : Nat) (r : Bytes) : Bytes := s.take i ++ r ++ s.drop (i + n)

inductive How where
  | splice | fallback | unchanged
  deriving DecidableEq, Repr

/-- `line_after` of `generate_hunks`, with the branch that produced it -/
def lineAfter (ls : Bytes) (col : Nat) (text repl : Bytes) : Option (Bytes × How) :=
  match startsWithAt ls col text with
  | none => none
  | some true => some (spliceAt ls col text.length repl, .splice)
  | some false =>
    match B.find ls text with
    | some p => some (spliceAt ls p text.length repl, .fallback)
    | none => some (ls, .unchanged)

/-- `byte_offset_to_char_offset(line_before, col)`: characters starting before byte `col` -/
def charOffset (ls : Bytes) (col : Nat) : Nat := Utf8.charCount (ls.take col)

structure Hunk where
  line       : Nat
  byteOffset : Nat
  charOffset : Nat
  start      : Nat
  stop       : Nat
  content    : Bytes
  replace    : Bytes
  lineBefore : Bytes
  lineAfter  : Bytes
  deriving DecidableEq, Repr

inductive Geom where
  | skip                       -- `line_idx >= lines.len()`: no hunk is produced
  | panic
  | ok (h : Hunk) (how : How)
  deriving DecidableEq, Repr

/-- `line_after` when the text before and after the match is decoded separately (the shape of
    seeded/_fixes/c03_line_context_decoded_parts.diff): `line.get(col..col+len) == Some(content)` is tested on the RAW line,
    then `lossy(line[..col]) + replace + lossy(line[col+len..])`; the `find` fallback on the decoded line remains for a
    match that does not fit the line. -/
def lineAfterParts (l ls : Bytes) (col : Nat) (text repl : Bytes) : Bytes × How :=
  if decide (col + text.length ≤ l.length) && text.isPrefixOf (l.drop col) then
    (Utf8.lossy (l.take col) ++ repl ++ Utf8.lossy (l.drop (col + text.length)), .splice)
  else
    match B.find ls text with
    | some p => (spliceAt ls p text.length repl, .fallback)
    | none => (ls, .unchanged)

/-- one iteration of the `for m in matches` loop of `generate_hunks`, geometry only.
    `colIsByte`: is the position at which the match is spliced into the line the match's byte column (extracted from
    scanner.rs into `Gen.lineAfterColumnIsByte` on every run) or its character offset (a byte/char mix-up: the slice then
    misses whenever a multi-byte character precedes the match, and the `find` fallback takes over)?
    `parts`: are the text before and after the match decoded separately (`Gen.lineAfterDecodesParts`), or is the raw byte
    column applied to the lossily decoded line (the code as it is; wrong when invalid UTF-8 precedes the match)? -/
def hunkGeomG (colIsByte parts : Bool) (content : Bytes) (line col start stop : Nat) (text repl : Bytes) : Geom :=
  match lineOf content line with
  | none => .skip
  | some l =>
    let ls := Utf8.lossy l
    if parts then
      let r := lineAfterParts l ls col text repl
      .ok { line := line, byteOffset := col,
            charOffset := if col ≤ l.length then Utf8.charCount (Utf8.lossy (l.take col)) else charOffset ls col,
            start := start, stop := stop, content := text, replace := repl, lineBefore := ls, lineAfter := r.1 } r.2
    else
      let at_ := if colIsByte then col else charOffset ls col
      match lineAfter ls at_ text repl with
      | none => .panic
      | some (la, how) =>
        .ok { line := line, byteOffset := col, charOffset := charOffset ls col, start := start, stop := stop,
              content := text, replace := repl, lineBefore := ls, lineAfter := la } how

/-- the planner that applies the byte column to the decoded line (the code as it is) -/
abbrev hunkGeom := hunkGeomG true false

/-- geometry from the span alone, line and column computed as `find_matches` /
    `find_enhanced_matches` compute them -/
def hunkGeomAtG (colIsByte parts : Bool) (content : Bytes) (start stop : Nat) (text repl : Bytes) : Geom :=
  hunkGeomG colIsByte parts content (Matcher.lineNo content start) (start - Matcher.lineStart content start) start stop text repl

abbrev hunkGeomAt := hunkGeomAtG true false

-- diff preview ---------------------------------------------------------------------------------

/-- stable insertion for `sort_by(|a, b| b.byte_offset.cmp(&a.byte_offset))` -/
def insertDesc (x : Hunk) : List Hunk → List Hunk
  | [] => [x]
  | y :: ys => if y.byteOffset ≤ x.byteOffset then x :: y :: ys else y :: insertDesc x ys

def sortDesc : List Hunk → List Hunk
  | [] => []
  | x :: xs => insertDesc x (sortDesc xs)

/-- one iteration of "apply replacements from right to left" -/
def mergeStep (after : Bytes) (h : Hunk) : Option Bytes :=
  match startsWithAt after h.byteOffset h.content with
  | none => none
  | some true => replaceRange after h.byteOffset (h.byteOffset + h.content.length) h.replace
  | some false => some after

def mergeRun : Bytes → List Hunk → Option Bytes
  | a, [] => some a
  | a, h :: hs =>
    match mergeStep a h with
    | none => none
    | some a' => mergeRun a' hs

/-- the "after" text of one `@@ line n @@` block; `none` = panic -/
def diffAfterText : List Hunk → Option Bytes
  | [] => some []
  | [h] => some h.lineAfter
  | h :: hs => mergeRun h.lineBefore (sortDesc (h :: hs))

/-- the "before" text of the block -/
def diffBeforeText : List Hunk → Bytes
  | [] => []
  | h :: _ => h.lineBefore

-- literal planner ------------------------------------------------------------------------------

/-- strip the terminator as `str::lines()` does: one `\n`, then one `\r` -/
def stripTerm (l : Bytes) : Bytes :=
  match l.reverse with
  | 10 :: 13 :: r => r.reverse
  | 10 :: r => r.reverse
  | _ => l

/-- `str::lines()` with the byte offset of every line -/
def strLinesFrom : List Bytes → Nat → List (Nat × Bytes)
  | [], _ => []
  | l :: ls, off => (off, stripTerm l) :: strLinesFrom ls (off + l.length)

def strLines (s : Bytes) : List (Nat × Bytes) := strLinesFrom (linesWT s) 0

/-- `while let Some(pos) = line[search_start..].find(pattern)`: non-overlapping occurrences, left to
    right (pattern non-empty; with an empty pattern the Rust loop never terminates) -/
def findAll (pat : Bytes) : Bytes → Nat → Nat → List Nat
  | [], _, _ => []
  | _ :: cs, pos, skip + 1 => findAll pat cs (pos + 1) skip
  | c :: cs, pos, 0 =>
    if pat.isPrefixOf (c :: cs) then pos :: findAll pat cs (pos + 1) (pat.length - 1)
    else findAll pat cs (pos + 1) 0

def literalLine (fileRelative : Bool) (pat repl : Bytes) (lineNo off : Nat) (line : Bytes) : List Hunk :=
  (findAll pat line 0 0).map (fun col =>
    let base := if fileRelative then off else 0
    { line := lineNo, byteOffset := col, charOffset := charOffset line col,
      start := base + col, stop := base + col + pat.length,
      content := pat, replace := repl, lineBefore := line,
      lineAfter := line.take col ++ repl ++ line.drop (col + pat.length) })

def literalLines (fileRelative : Bool) (pat repl : Bytes) : List (Nat × Bytes) → Nat → List Hunk
  | [], _ => []
  | (off, l) :: rest, n => literalLine fileRelative pat repl n off l ++ literalLines fileRelative pat repl rest (n + 1)

/-- `process_file_content(…, is_regex = false, …)` on one file's bytes -/
def planLiteral (fileRelative : Bool) (file pat repl : Bytes) : List Hunk :=
  literalLines fileRelative pat repl (strLines (Utf8.lossy file)) 1

/-- … with the treatment of files that are not valid UTF-8 as a second parameter: `skipInvalid = false` searches the lossily
    decoded text (the code as it is: offsets after an invalid byte are not file offsets), `skipInvalid = true` leaves such a
    file out of the plan (seeded/_fixes/c03_replace_skip_non_utf8.diff; apply reads files as UTF-8 text and could not edit
    it anyway).  `Gen.replaceSkipsInvalidUtf8` says which one scanner.rs does. -/
def planLiteralS (fileRelative skipInvalid : Bool) (file pat repl : Bytes) : List Hunk :=
  if skipInvalid && !Utf8.valid file then [] else planLiteral fileRelative file pat repl

-- statistics -----------------------------------------------------------------------------------

/-- `*matches_by_variant.entry(v).or_insert(0) += 1` -/
def bump (v : Bytes) : List (Bytes × Nat) → List (Bytes × Nat)
  | [] => [(v, 1)]
  | (k, n) :: rest => if k = v then (k, n + 1) :: rest else (k, n) :: bump v rest

def byVariant (vs : List Bytes) : List (Bytes × Nat) := vs.foldl (fun acc v => bump v acc) []

def totalOf (t : List (Bytes × Nat)) : Nat := (t.map (·.2)).sum

end Hunks

namespace Hunks

-- several search roots ----------------------------------------------------------------------------
/-
  `scan_repository_multi` / `create_simple_plan` walk all roots with one walker; with nested or repeated
  roots the walker yields a file once per root that reaches it.  Since 4d2e5a7 both planners keep a
  `HashSet` of canonical locations and skip an entry whose location was seen before
  (`if !seen_files.insert(canonicalize(path)) { continue }`).  An entry is (canonical path, content).
-/
def dedupAux {α} (seen : List Bytes) : List (Bytes × α) → List (Bytes × α)
  | [] => []
  | e :: es => if e.1 ∈ seen then dedupAux seen es else e :: dedupAux (e.1 :: seen) es

def dedupEntries {α} (es : List (Bytes × α)) : List (Bytes × α) := dedupAux [] es

/-- the hunks of a multi-root scan, each with the file it belongs to -/
def planRoots (vs : List Bytes) (entries : List (Bytes × Bytes)) : List (Bytes × Matcher.Match) :=
  (dedupEntries entries).flatMap (fun e => (Matcher.findMatches vs e.2).map (fun m => (e.1, m)))

/-- the same without the de-duplication (the planners before 4d2e5a7) -/
def planRootsNoDedup (vs : List Bytes) (entries : List (Bytes × Bytes)) : List (Bytes × Matcher.Match) :=
  entries.flatMap (fun e => (Matcher.findMatches vs e.2).map (fun m => (e.1, m)))

end Hunks

namespace Hunks
open Edits

-- the code before ac203f2 (unchecked slices), kept for the before-fix theorems ------------------------------------
/-- `i < s.len() && s[i..].starts_with(p)`: `none` = panic (slice index inside a character) -/
def startsWithAtOld (s : Bytes) (i : Nat) (p : Bytes) : Option Bool :=
  if i < s.length then
    if isCharBoundary s i then some (p.isPrefixOf (s.drop i)) else none
  else some false

def lineAfterOld (ls : Bytes) (col : Nat) (text repl : Bytes) : Option (Bytes × How) :=
  match startsWithAtOld ls col text with
  | none => none
  | some true => some (spliceAt ls col text.length repl, .splice)
  | some false =>
    match B.find ls text with
    | some p => some (spliceAt ls p text.length repl, .fallback)
    | none => some (ls, .unchanged)

/-- `generate_hunks` geometry before ac203f2: panics when the raw column falls inside a character of the lossy line -/
def hunkGeomAtOld (content : Bytes) (start stop : Nat) (text repl : Bytes) : Geom :=
  let line := Matcher.lineNo content start
  let col := start - Matcher.lineStart content start
  match lineOf content line with
  | none => .skip
  | some l =>
    let ls := Utf8.lossy l
    match lineAfterOld ls col text repl with
    | none => .panic
    | some (la, how) =>
      .ok { line := line, byteOffset := col, charOffset := charOffset ls col, start := start, stop := stop,
            content := text, replace := repl, lineBefore := ls, lineAfter := la } how

def mergeStepOld (after : Bytes) (h : Hunk) : Option Bytes :=
  match startsWithAtOld after h.byteOffset h.content with
  | none => none
  | some true => replaceRange after h.byteOffset (h.byteOffset + h.content.length) h.replace
  | some false => some after

def mergeRunOld : Bytes → List Hunk → Option Bytes
  | a, [] => some a
  | a, h :: hs =>
    match mergeStepOld a h with
    | none => none
    | some a' => mergeRunOld a' hs

/-- `render_diff`'s "after" text before ac203f2; `none` = panic -/
def diffAfterTextOld : List Hunk → Option Bytes
  | [] => some []
  | [h] => some h.lineAfter
  | h :: hs => mergeRunOld h.lineBefore (sortDesc (h :: hs))

end Hunks
