/-
  `case_constraints.rs::CaseConstraint` — the five case patterns a style can demand of a text.
  (Only the type; the table `Style::constraints` is generated into `Gen/LineTables.lean`, the checks that interpret it
  are in `Model/LinePipeline.lean`.)
-/
namespace CaseModel

inductive CaseConstraint where
  | allUppercase | allLowercase | titlePattern | camelPattern | pascalPattern
  /-- not in the source today: every space-separated word capitalised (the proposed repair
      `seeded/_fixes/c06_title_vs_sentence.diff` gives Title this pattern); the translator emits it once the source has it -/
  | titleWordsPattern
  deriving DecidableEq, Repr

end CaseModel
