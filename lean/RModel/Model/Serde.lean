import RModel.Base.Bytes
import RModel.Base.Utf8
/-
  L6 `Serde`: what `#[derive(Serialize, Deserialize)]` + `serde_json` do with a struct, driven by a
  schema of field attributes (generated from the Rust source into `Gen/SerdeSchema.lean`).

  Rust values are `RVal`, JSON documents are `J`.  String escaping / number formatting / whitespace of
  `serde_json` are trusted (a JSON string is its decoded byte sequence).  `PathBuf` is a string here; a
  path that is not valid UTF-8 makes the real serialiser fail ("path contains invalid UTF-8 characters"),
  which is a guard clause of C17, not part of the model.

  Rules modelled (serde derive):
   * a field is emitted unless its `skip_serializing_if` predicate holds for the value;
   * on reading, a key that is absent gives: the `Default` of the type (`#[serde(default)]`), the value of
     the named function (`#[serde(default = "f")]`), `None` for an `Option` field without attributes,
     otherwise the error "missing field `name`";
   * unknown keys are ignored unless the struct is `deny_unknown_fields`;
   * `Option`: `None` <-> `null`;  unit enum variants <-> their (renamed) names;  maps <-> objects;
     tuples <-> fixed-length arrays.
  Everything is structural recursion over the schema so that closed instances evaluate in the kernel.
-/
namespace Serde

/-- a Rust value of one of the persisted types -/
inductive RVal where
  | str (s : Bytes)                               -- String / PathBuf
  | num (n : Nat)                                 -- u8 … u64, usize
  | bool (b : Bool)
  | none
  | some (v : RVal)
  | list (vs : List RVal)                         -- Vec<T>, tuples
  | map (ks : List Bytes) (vs : List RVal)        -- HashMap<String|PathBuf, T> (keys, values)
  | record (vs : List RVal)                       -- struct: field values in declaration order
  | variant (i : Nat)                             -- unit enum variant number i
  deriving Repr, Inhabited

/-- a JSON document -/
inductive J where
  | null
  | str (s : Bytes)
  | num (n : Nat)
  | bool (b : Bool)
  | arr (js : List J)
  | obj (kvs : List (Bytes × J))
  deriving Repr, Inhabited

-- decidable equality by hand (`deriving` does not handle nested inductives) ---------------------

mutual
def RVal.beq : RVal → RVal → Bool
  | .str a, .str b => a == b
  | .num a, .num b => a == b
  | .bool a, .bool b => a == b
  | .none, .none => true
  | .some a, .some b => RVal.beq a b
  | .list a, .list b => RVal.beqList a b
  | .map k a, .map k' b => k == k' && RVal.beqList a b
  | .record a, .record b => RVal.beqList a b
  | .variant a, .variant b => a == b
  | _, _ => false
def RVal.beqList : List RVal → List RVal → Bool
  | [], [] => true
  | a :: as, b :: bs => RVal.beq a b && RVal.beqList as bs
  | _, _ => false
end

mutual
theorem RVal.eq_of_beq : ∀ (a b : RVal), RVal.beq a b = true → a = b
  | .str a, .str b, h => by simp [RVal.beq] at h; simp [h]
  | .num a, .num b, h => by simp [RVal.beq] at h; simp [h]
  | .bool a, .bool b, h => by simp [RVal.beq] at h; simp [h]
  | .none, .none, _ => rfl
  | .some a, .some b, h => by
      simp only [RVal.beq] at h; rw [RVal.eq_of_beq a b h]
  | .list a, .list b, h => by
      simp only [RVal.beq] at h; rw [RVal.eqList_of_beq a b h]
  | .map k a, .map k' b, h => by
      simp only [RVal.beq, Bool.and_eq_true, beq_iff_eq] at h; rw [h.1, RVal.eqList_of_beq a b h.2]
  | .record a, .record b, h => by
      simp only [RVal.beq] at h; rw [RVal.eqList_of_beq a b h]
  | .variant a, .variant b, h => by simp [RVal.beq] at h; simp [h]
  | .str _, .num _, h | .str _, .bool _, h | .str _, .none, h | .str _, .some _, h | .str _, .list _, h
  | .str _, .map _ _, h | .str _, .record _, h | .str _, .variant _, h
  | .num _, .str _, h | .num _, .bool _, h | .num _, .none, h | .num _, .some _, h | .num _, .list _, h
  | .num _, .map _ _, h | .num _, .record _, h | .num _, .variant _, h
  | .bool _, .str _, h | .bool _, .num _, h | .bool _, .none, h | .bool _, .some _, h | .bool _, .list _, h
  | .bool _, .map _ _, h | .bool _, .record _, h | .bool _, .variant _, h
  | .none, .str _, h | .none, .num _, h | .none, .bool _, h | .none, .some _, h | .none, .list _, h
  | .none, .map _ _, h | .none, .record _, h | .none, .variant _, h
  | .some _, .str _, h | .some _, .num _, h | .some _, .bool _, h | .some _, .none, h | .some _, .list _, h
  | .some _, .map _ _, h | .some _, .record _, h | .some _, .variant _, h
  | .list _, .str _, h | .list _, .num _, h | .list _, .bool _, h | .list _, .none, h | .list _, .some _, h
  | .list _, .map _ _, h | .list _, .record _, h | .list _, .variant _, h
  | .map _ _, .str _, h | .map _ _, .num _, h | .map _ _, .bool _, h | .map _ _, .none, h | .map _ _, .some _, h
  | .map _ _, .list _, h | .map _ _, .record _, h | .map _ _, .variant _, h
  | .record _, .str _, h | .record _, .num _, h | .record _, .bool _, h | .record _, .none, h | .record _, .some _, h
  | .record _, .list _, h | .record _, .map _ _, h | .record _, .variant _, h
  | .variant _, .str _, h | .variant _, .num _, h | .variant _, .bool _, h | .variant _, .none, h | .variant _, .some _, h
  | .variant _, .list _, h | .variant _, .map _ _, h | .variant _, .record _, h => by simp [RVal.beq] at h
theorem RVal.eqList_of_beq : ∀ (a b : List RVal), RVal.beqList a b = true → a = b
  | [], [], _ => rfl
  | a :: as, b :: bs, h => by
      simp only [RVal.beqList, Bool.and_eq_true] at h
      rw [RVal.eq_of_beq a b h.1, RVal.eqList_of_beq as bs h.2]
  | [], _ :: _, h | _ :: _, [], h => by simp [RVal.beqList] at h
end

mutual
theorem RVal.beq_refl : ∀ (a : RVal), RVal.beq a a = true
  | .str _ | .num _ | .bool _ | .none | .variant _ => by simp [RVal.beq]
  | .some a => by simp only [RVal.beq]; exact RVal.beq_refl a
  | .list a | .record a => by simp only [RVal.beq]; exact RVal.beqList_refl a
  | .map _ a => by simp only [RVal.beq, beq_self_eq_true, Bool.true_and]; exact RVal.beqList_refl a
theorem RVal.beqList_refl : ∀ (a : List RVal), RVal.beqList a a = true
  | [] => rfl
  | a :: as => by simp only [RVal.beqList, Bool.and_eq_true]; exact ⟨RVal.beq_refl a, RVal.beqList_refl as⟩
end

instance : DecidableEq RVal := fun a b =>
  if h : RVal.beq a b = true then isTrue (RVal.eq_of_beq a b h)
  else isFalse (fun e => h (e ▸ RVal.beq_refl a))

-- schema ------------------------------------------------------------------------------------------

/-- `skip_serializing_if` predicates that occur in the source -/
inductive Skip where
  | never
  | strEmpty      -- "String::is_empty"
  | pathEmpty     -- "is_empty_path"  (`p.as_os_str().is_empty()`)
  | optNone       -- "Option::is_none"
  | vecEmpty      -- "Vec::is_empty"
  deriving DecidableEq, Repr

/-- what deserialisation does when the key is absent -/
inductive Missing where
  | required                               -- error "missing field"
  | default                                -- `#[serde(default)]`: `Default::default()` of the field type
  | defaultFn (fn : Bytes) (v : RVal)      -- `#[serde(default = "fn")]`, with the value `fn()` returns
  | implicitNone                           -- an `Option<T>` field without attributes: `None`
  deriving DecidableEq, Repr

mutual
inductive Ty where
  | str
  | path
  | num
  | bool
  | enum (name : Bytes) (variants : List Bytes)        -- unit variants, names after rename_all
  | opt (t : Ty)
  | vec (t : Ty)
  | map (t : Ty)                                       -- string-keyed map
  | pair (a b : Ty)                                    -- 2-tuple
  | struct (name : Bytes) (denyUnknown : Bool) (fs : List Field)
inductive Field where
  | mk (name : Bytes) (ty : Ty) (skip : Skip) (missing : Missing)
end

def Field.name : Field → Bytes | .mk n _ _ _ => n
def Field.ty : Field → Ty | .mk _ t _ _ => t
def Field.skip : Field → Skip | .mk _ _ k _ => k
def Field.missing : Field → Missing | .mk _ _ _ m => m

def Ty.isOpt : Ty → Bool
  | .opt _ => true
  | _ => false

/-- the value for which the predicate holds (each predicate that occurs holds for exactly one value) -/
def Skip.value : Skip → Option RVal
  | .never => none
  | .strEmpty => some (.str [])
  | .pathEmpty => some (.str [])
  | .optNone => some .none
  | .vecEmpty => some (.list [])

def skipped : Skip → RVal → Bool
  | .strEmpty, .str [] => true
  | .pathEmpty, .str [] => true
  | .optNone, .none => true
  | .vecEmpty, .list [] => true
  | _, _ => false

/-- `Default::default()` of the types on which `#[serde(default)]` occurs -/
def Ty.default : Ty → Option RVal
  | .str => some (.str [])
  | .path => some (.str [])
  | .num => some (.num 0)
  | .bool => some (.bool false)
  | .opt _ => some .none
  | .vec _ => some (.list [])
  | .map _ => some (.map [] [])
  | _ => none

/-- the value a missing key deserialises to; `none` = error "missing field" -/
def missingValue (t : Ty) : Missing → Option RVal
  | .required => none
  | .default => t.default
  | .defaultFn _ v => some v
  | .implicitNone => some .none

def Field.missingValue (f : Field) : Option RVal := Serde.missingValue f.ty f.missing

inductive DeErr where
  | missingField (name : Bytes)
  | unknownField (name : Bytes)
  | unknownVariant (s : Bytes)
  | invalidType
  | invalidLength
  | rejected                               -- the value parsed, but a loader refused it (an acceptance condition)
  deriving DecidableEq, Repr

def indexOf (s : Bytes) : List Bytes → Option Nat
  | [] => none
  | x :: xs => if x == s then some 0 else (indexOf s xs).map (· + 1)

def mapE {α β ε} (f : α → Except ε β) : List α → Except ε (List β)
  | [] => .ok []
  | a :: as =>
    match f a with
    | .error e => .error e
    | .ok b =>
      match mapE f as with
      | .error e => .error e
      | .ok bs => .ok (b :: bs)

/-- `Result::map` -/
def okMap {α β ε} (f : α → β) : Except ε α → Except ε β
  | .ok a => .ok (f a)
  | .error e => .error e

def lookup (k : Bytes) : List (Bytes × J) → Option J
  | [] => none
  | (k', j) :: rest => if k' == k then some j else lookup k rest

def J.isNull : J → Bool
  | .null => true
  | _ => false

-- serialise ------------------------------------------------------------------------------------------

mutual
def ser : Ty → RVal → J
  | .str, v => match v with | .str s => .str s | _ => .null
  | .path, v => match v with | .str s => .str s | _ => .null
  | .num, v => match v with | .num n => .num n | _ => .null
  | .bool, v => match v with | .bool b => .bool b | _ => .null
  | .enum _ names, v => match v with | .variant i => .str (names.getD i []) | _ => .null
  | .opt t, v => match v with | .some x => ser t x | _ => .null
  | .vec t, v => match v with | .list vs => .arr (vs.map (ser t)) | _ => .null
  | .map t, v => match v with | .map ks vs => .obj (ks.zip (vs.map (ser t))) | _ => .null
  | .pair a b, v => match v with | .list [x, y] => .arr [ser a x, ser b y] | _ => .null
  | .struct _ _ fs, v => match v with | .record vs => .obj (serFields fs vs) | _ => .null
def serFields : List Field → List RVal → List (Bytes × J)
  | [], _ => []
  | .mk n t k _ :: fs, vs =>
    match vs with
    | [] => []
    | v :: vs => if skipped k v then serFields fs vs else (n, ser t v) :: serFields fs vs
end

-- deserialise ----------------------------------------------------------------------------------------

def fieldNames : List Field → List Bytes
  | [] => []
  | f :: fs => f.name :: fieldNames fs

/-- first key that is not a field name (for `deny_unknown_fields`) -/
def unknownKey (names : List Bytes) : List (Bytes × J) → Option Bytes
  | [] => none
  | (k, _) :: rest => if names.contains k then unknownKey names rest else some k

mutual
def de : Ty → J → Except DeErr RVal
  | .str, j => match j with | .str s => .ok (.str s) | _ => .error .invalidType
  | .path, j => match j with | .str s => .ok (.str s) | _ => .error .invalidType
  | .num, j => match j with | .num n => .ok (.num n) | _ => .error .invalidType
  | .bool, j => match j with | .bool b => .ok (.bool b) | _ => .error .invalidType
  | .enum _ names, j =>
    match j with
    | .str s => match indexOf s names with | some i => .ok (.variant i) | none => .error (.unknownVariant s)
    | _ => .error .invalidType
  | .opt t, j =>
    if j.isNull then .ok .none else
    okMap RVal.some (de t j)
  | .vec t, j =>
    match j with
    | .arr js => okMap RVal.list (mapE (de t) js)
    | _ => .error .invalidType
  | .map t, j =>
    match j with
    | .obj kvs =>
      okMap (RVal.map (kvs.map Prod.fst)) (mapE (de t) (kvs.map Prod.snd))
    | _ => .error .invalidType
  | .pair a b, j =>
    match j with
    | .arr [x, y] =>
      match de a x with
      | .error e => .error e
      | .ok x' => match de b y with | .error e => .error e | .ok y' => .ok (.list [x', y'])
    | .arr _ => .error .invalidLength
    | _ => .error .invalidType
  | .struct _ deny fs, j =>
    match j with
    | .obj kvs =>
      match (if deny then unknownKey (fieldNames fs) kvs else none) with
      | some k => .error (.unknownField k)
      | none => okMap RVal.record (deFields fs kvs)
    | _ => .error .invalidType
def deFields : List Field → List (Bytes × J) → Except DeErr (List RVal)
  | [], _ => .ok []
  | .mk n t _ m :: fs, kvs =>
    match lookup n kvs with
    | some j =>
      match de t j with
      | .error e => .error e
      | .ok v => okMap (v :: ·) (deFields fs kvs)
    | none =>
      match missingValue t m with
      | none => .error (.missingField n)
      | some v => okMap (v :: ·) (deFields fs kvs)
end

/-- A loader of the code: parse, then possibly refuse.  `plain = true` says the loaders found in the source
    (`Gen.loaderSites`) do nothing between `serde_json::from_str/from_reader` and the use of the value; otherwise
    `accept` stands for whatever acceptance condition they impose (`Gen.loaderConditions`). -/
def load (plain : Bool) (accept : RVal → Bool) (t : Ty) (j : J) : Except DeErr RVal :=
  match de t j with
  | .ok v => if plain || accept v then .ok v else .error .rejected
  | .error e => .error e

-- typing, guard, schema checks -----------------------------------------------------------------------

mutual
def wellTyped : Ty → RVal → Bool
  | .str, v => match v with | .str _ => true | _ => false
  | .path, v => match v with | .str _ => true | _ => false
  | .num, v => match v with | .num _ => true | _ => false
  | .bool, v => match v with | .bool _ => true | _ => false
  | .enum _ names, v => match v with | .variant i => decide (i < names.length) | _ => false
  | .opt t, v => match v with | .none => true | .some x => wellTyped t x | _ => false
  | .vec t, v => match v with | .list vs => vs.all (wellTyped t) | _ => false
  | .map t, v => match v with | .map ks vs => (ks.length == vs.length) && vs.all (wellTyped t) | _ => false
  | .pair a b, v => match v with | .list [x, y] => wellTyped a x && wellTyped b y | _ => false
  | .struct _ _ fs, v => match v with | .record vs => wellTypedFields fs vs | _ => false
def wellTypedFields : List Field → List RVal → Bool
  | [], vs => vs.isEmpty
  | .mk _ t _ _ :: fs, vs =>
    match vs with
    | [] => false
    | v :: vs => wellTyped t v && wellTypedFields fs vs
end

/- guard clause of C17: `serde` refuses to write a `PathBuf` that is not valid UTF-8
   ("path contains invalid UTF-8 characters"); `ser` below is the serialiser on values passing this test -/
mutual
def pathsUtf8 : Ty → RVal → Bool
  | .path, v => match v with | .str s => Utf8.valid s | _ => true
  | .opt t, v => match v with | .some x => pathsUtf8 t x | _ => true
  | .vec t, v => match v with | .list vs => vs.all (pathsUtf8 t) | _ => true
  | .map t, v => match v with | .map _ vs => vs.all (pathsUtf8 t) | _ => true
  | .pair a b, v => match v with | .list [x, y] => pathsUtf8 a x && pathsUtf8 b y | _ => true
  | .struct _ _ fs, v => match v with | .record vs => pathsUtf8Fields fs vs | _ => true
  | _, _ => true
def pathsUtf8Fields : List Field → List RVal → Bool
  | [], _ => true
  | .mk _ t _ _ :: fs, vs =>
    match vs with
    | [] => true
    | v :: vs => pathsUtf8 t v && pathsUtf8Fields fs vs
end

/- `guard t v`: wherever a field of `v` is skipped on writing, the missing-key rule gives exactly that
    value back.  This is the exact condition for `de t (ser t v) = ok v` (`Serde.roundtrip_iff`). -/
mutual
def guard : Ty → RVal → Bool
  | .opt t, v => match v with | .some x => guard t x | _ => true
  | .vec t, v => match v with | .list vs => vs.all (guard t) | _ => true
  | .map t, v => match v with | .map _ vs => vs.all (guard t) | _ => true
  | .pair a b, v => match v with | .list [x, y] => guard a x && guard b y | _ => true
  | .struct _ _ fs, v => match v with | .record vs => guardFields fs vs | _ => true
  | _, _ => true
def guardFields : List Field → List RVal → Bool
  | [], _ => true
  | .mk _ t k m :: fs, vs =>
    match vs with
    | [] => true
    | v :: vs =>
      (if skipped k v then decide (missingValue t m = some v) else guard t v) && guardFields fs vs
end

def nodupB : List Bytes → Bool
  | [] => true
  | x :: xs => !xs.contains x && nodupB xs

/- structural well-formedness of a schema: distinct field / variant names, no `Option<Option<_>>` -/
mutual
def wf : Ty → Bool
  | .enum _ names => nodupB names
  | .opt t => !t.isOpt && wf t
  | .vec t => wf t
  | .map t => wf t
  | .pair a b => wf a && wf b
  | .struct _ _ fs => nodupB (fieldNames fs) && wfFields fs
  | _ => true
def wfFields : List Field → Bool
  | [] => true
  | .mk _ t _ _ :: fs => wf t && wfFields fs
end

/-- a field is fine if its skip predicate can never hold for a value of its type, or the missing-key
    rule returns exactly the value for which it holds -/
def fieldOk (t : Ty) (k : Skip) (m : Missing) : Bool :=
  match k.value with
  | none => true
  | some sv => !wellTyped t sv || decide (missingValue t m = some sv)

/- (struct name, field name) of every field that is dropped on writing but not restored on reading -/
mutual
def offending : Ty → List (Bytes × Bytes)
  | .opt t => offending t
  | .vec t => offending t
  | .map t => offending t
  | .pair a b => offending a ++ offending b
  | .struct n _ fs => offendingFields n fs
  | _ => []
def offendingFields (sn : Bytes) : List Field → List (Bytes × Bytes)
  | [] => []
  | .mk n t k m :: fs =>
    (if fieldOk t k m then [] else [(sn, n)]) ++ (offending t ++ offendingFields sn fs)
end

def SchemaOk (t : Ty) : Bool := wf t && (offending t).isEmpty

/-- all offending fields are among `bad` -/
def SchemaOkExcept (bad : List (Bytes × Bytes)) (t : Ty) : Bool :=
  wf t && (offending t).all (fun p => bad.contains p)

/- `guardOn bad t v`: no field listed in `bad` is skipped anywhere inside `v` -/
mutual
def guardOn (bad : List (Bytes × Bytes)) : Ty → RVal → Bool
  | .opt t, v => match v with | .some x => guardOn bad t x | _ => true
  | .vec t, v => match v with | .list vs => vs.all (guardOn bad t) | _ => true
  | .map t, v => match v with | .map _ vs => vs.all (guardOn bad t) | _ => true
  | .pair a b, v => match v with | .list [x, y] => guardOn bad a x && guardOn bad b y | _ => true
  | .struct n _ fs, v => match v with | .record vs => guardOnFields bad n fs vs | _ => true
  | _, _ => true
def guardOnFields (bad : List (Bytes × Bytes)) (sn : Bytes) : List Field → List RVal → Bool
  | [], _ => true
  | .mk n t k _ :: fs, vs =>
    match vs with
    | [] => true
    | v :: vs =>
      (if skipped k v then !bad.contains (sn, n) else guardOn bad t v) && guardOnFields bad sn fs vs
end

-- a canonical inhabitant and a witness for an offending field ---------------------------------------

/- a fully populated well-typed value of the type: no skip predicate holds anywhere inside it -/
mutual
def sample : Ty → RVal
  | .str => .str [120]
  | .path => .str [120]
  | .num => .num 1
  | .bool => .bool true
  | .enum _ _ => .variant 0
  | .opt t => .some (sample t)
  | .vec t => .list [sample t]
  | .map t => .map [[107]] [sample t]
  | .pair a b => .list [sample a, sample b]
  | .struct _ _ fs => .record (sampleFields fs)
def sampleFields : List Field → List RVal
  | [] => []
  | .mk _ t _ _ :: fs => sample t :: sampleFields fs
end

/- a value of type `t` in which the offending field `(sn, fn)` is skipped (one element per `Vec`,
    `Some` for every `Option` on the way down); `none` if the field does not occur -/
mutual
def witnessFor (sn fn : Bytes) : Ty → Option RVal
  | .opt t => (witnessFor sn fn t).map .some
  | .vec t => (witnessFor sn fn t).map (fun v => .list [v])
  | .map t => (witnessFor sn fn t).map (fun v => .map [[107]] [v])
  | .pair a b =>
    match witnessFor sn fn a with
    | some x => some (.list [x, sample b])
    | none => (witnessFor sn fn b).map (fun y => .list [sample a, y])
  | .struct n _ fs => if n == sn then (witnessFields sn fn true fs).map .record
                      else (witnessFields sn fn false fs).map .record
  | _ => none
def witnessFields (sn fn : Bytes) (here : Bool) : List Field → Option (List RVal)
  | [] => none
  | .mk n t k _ :: fs =>
    if here && n == fn then
      match k.value with
      | some sv => some (sv :: sampleFields fs)
      | none => none
    else
      match witnessFor sn fn t with
      | some v => some (v :: sampleFields fs)
      | none => (witnessFields sn fn here fs).map (fun vs => sample t :: vs)
end

end Serde
