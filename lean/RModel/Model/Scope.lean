import RModel.Base.Bytes
import RModel.Base.Lit
import RModel.Base.Utf8
/-
  C09 model: which entries of a tree renamify's planners may look at.

  Mirrors
    lib.rs::configure_walker          (per-level WalkBuilder configuration; the data is GENERATED into Gen/Walker.lean)
    ignore::dir::Ignore::add_parents / matched_ignore (ignore files in ancestors of the scan root are consulted iff
                                       parents(true); which `.git` entries make `any_git` true)
    ignore::walk::Walk::skip_entry    (depth 0 is never skipped; ignore match, hidden rule, then the filter_entry
                                       closure; a skipped directory is not descended into; symlinks are not followed
                                       unless follow_links)
    scanner.rs::scan_repository_multi (regular-file test, include/exclude glob sets, binary sniff below level 3)
    scanner.rs::build_globset         (directory expansion of patterns)
    scanner.rs::generate_hunks        (--exclude-match, --exclude-matching-lines)
    scanner.rs::create_simple_plan    (the `replace` planner: same walker, `Path::is_file`)
    rename.rs::plan_renames_…         (same walker, same glob sets, any file type)
    content_inspector::inspect        (BOM table, NUL within the first 1024 bytes, magic numbers)

  Parameters (trusted base, DESIGN section 3): gitignore matching (`ign`), glob matching (`gm`) — a concrete matcher
  for the pattern class the generators emit is given in `Glob` and used by the driver —, the user's line regex.
  Not modelled: whitelist (`!pattern`) precedence between ignore files, global gitignore, max depth, root entries.
-/

namespace Scope

abbrev Name := Bytes
/-- components relative to the walk root; `[]` is the root itself -/
abbrev RelPath := List Name

def gitName : Name := b!".git"
def renamifyName : Name := b!".renamify"
def gitignoreName : Name := b!".gitignore"
def ignoreName : Name := b!".ignore"
def rgignoreName : Name := b!".rgignore"
def rnignoreName : Name := b!".rnignore"

inductive IgnKind where
  | gitignore | ignore | rgignore | rnignore | gitExclude
  deriving DecidableEq, Repr

def allKinds : List IgnKind := [.gitignore, .ignore, .rgignore, .rnignore, .gitExclude]

/-- one arm of `match level` -/
structure LevelCfg where
  gitIgnore : Bool
  gitGlobal : Bool
  gitExclude : Bool
  ignore : Bool
  parents : Bool
  hidden : Bool              -- `hidden(true)` = skip hidden entries
  custom : List Name         -- add_custom_ignore_filename
  filtered : List Name       -- names rejected by the filter_entry closure
  followLinks : Bool
  requireGit : Bool
  deriving DecidableEq, Repr

structure WalkerCfg where
  arms : List (List Nat × LevelCfg)
  other : LevelCfg
  /-- `some (a, b)`: `!respect_gitignore && level == a` is mapped to level `b` -/
  legacy : Option (Nat × Nat)
  deriving Repr

/-- Rust `match`: the first arm whose pattern contains the level, else `_` -/
def WalkerCfg.cfg (W : WalkerCfg) (level : Nat) : LevelCfg :=
  match W.arms.find? (fun a => a.1.contains level) with
  | some a => a.2
  | none => W.other

def WalkerCfg.allCfgs (W : WalkerCfg) : List LevelCfg := W.arms.map (·.2) ++ [W.other]

def WalkerCfg.effectiveLevel (W : WalkerCfg) (respectGitignore : Bool) (level : Nat) : Nat :=
  match W.legacy with
  | some (a, b) => if !respectGitignore && level == a then b else level
  | none => level

-- ignore files ----------------------------------------------------------------------------------------

/-- is an ignore file of this kind consulted under configuration `c` (`inGit`: a `.git` entry exists at or
    above the directory — `require_git`) -/
def honoured (c : LevelCfg) (inGit : Bool) : IgnKind → Bool
  | .gitignore => (c.gitIgnore && (inGit || !c.requireGit)) || c.custom.contains gitignoreName
  | .ignore => c.ignore || c.custom.contains ignoreName
  | .rgignore => c.custom.contains rgignoreName
  | .rnignore => c.custom.contains rnignoreName
  | .gitExclude => c.gitExclude && (inGit || !c.requireGit)

/-- `ign k p`: some ignore file of kind `k` that applies to `p` has a pattern matching `p` itself
    (gitignore matching is the `ignore` crate's; a parameter here) -/
abbrev IgnoreOracle := IgnKind → RelPath → Bool

-- the walk ------------------------------------------------------------------------------------------------

inductive FType where
  | file | dir | symlink
  deriving DecidableEq, Repr

/-- what the walk sees of the file system; all paths are relative to the scan root (`[]` = the root) -/
structure Site where
  /-- the directory contains an entry named `.git` -/
  gitAt : RelPath → Bool
  /-- some strict ancestor of the scan root contains `.git` -/
  ancGit : Bool
  /-- matched by an ignore file located in the root or below it -/
  ign : IgnoreOracle
  /-- matched by an ignore file located in a strict ancestor of the root (consulted only with `parents(true)`) -/
  ignAbove : IgnoreOracle
  /-- lstat type -/
  ty : RelPath → FType

/-- all prefixes of a path, shortest first, including `[]` and the path itself -/
def inits {α} : List α → List (List α)
  | [] => [[]]
  | x :: xs => [] :: (inits xs).map (x :: ·)

/-- `any_git` of `Ignore::matched_ignore` for an entry whose directory is `dir`: a `.git` in the root or in a directory
    on the way down counts when git_ignore or git_exclude is on (`add_child_path`), one in an ancestor of the root only
    when git_ignore is on (`add_parents`) -/
def inGitAt (c : LevelCfg) (s : Site) (dir : RelPath) : Bool :=
  !c.requireGit || ((c.gitIgnore || c.gitExclude) && (inits dir).any s.gitAt) || (c.gitIgnore && s.ancGit)

def ignoredBy (c : LevelCfg) (inGit : Bool) (s : Site) (p : RelPath) : Bool :=
  allKinds.any (fun k => honoured c inGit k && (s.ign k p || (c.parents && s.ignAbove k p)))

def isHidden (n : Name) : Bool := n.head? == some 46

/-- `skip_entry` for the entry `dir ++ [n]` (depth ≥ 1) -/
def stepOk (c : LevelCfg) (s : Site) (dir : RelPath) (n : Name) : Bool :=
  !(ignoredBy c (inGitAt c s dir) s (dir ++ [n])) && !(c.hidden && isHidden n) && !(c.filtered.contains n)

/-- may the walker descend into an entry of this lstat type -/
def descends (c : LevelCfg) : FType → Bool
  | .dir => true
  | .symlink => c.followLinks
  | .file => false

/-- `walkedFrom pre rest`: every entry on the way from `pre` down to `pre ++ rest` passes `skip_entry`, and every
    proper ancestor is something the walker descends into. -/
def walkedFrom (c : LevelCfg) (s : Site) : RelPath → RelPath → Bool
  | _, [] => true
  | pre, n :: rest =>
    stepOk c s pre n &&
    (rest.isEmpty || descends c (s.ty (pre ++ [n]))) &&
    walkedFrom c s (pre ++ [n]) rest

/-- the walker yields the entry at `p` (the root itself, depth 0, is never skipped) -/
def walked (c : LevelCfg) (s : Site) (p : RelPath) : Bool :=
  walkedFrom c s [] p

-- glob sets -----------------------------------------------------------------------------------------------

def endsWithSlash (p : Bytes) : Bool := p.getLast? == some 47

/-- `build_globset`: "looks like a directory" = ends with `/`, or none of the `plain` characters (`* ? .`) occurs -/
def looksLikeDir (plain : List UInt8) (p : Bytes) : Bool :=
  endsWithSlash p || plain.all (fun ch => !(B.contains p ch))

def recursivePattern (p : Bytes) : Bytes := if endsWithSlash p then p ++ b!"**" else p ++ b!"/**"

def expandPatterns (expands : Bool) (plain : List UInt8) (ps : List Bytes) : List Bytes :=
  ps.flatMap (fun p => if expands && looksLikeDir plain p then [p, recursivePattern p] else [p])

structure Globs where
  includes : List Bytes
  excludes : List Bytes
  deriving Repr

structure GlobCfg where
  expands : Bool
  plain : List UInt8
  deriving Repr

def joinPath (p : RelPath) : Bytes := B.joinWith [47] p

/-- the include / exclude test of both planners on the path relative to the root -/
def globsOk (G : GlobCfg) (gm : Bytes → Bytes → Bool) (g : Globs) (p : RelPath) : Bool :=
  (g.includes.isEmpty || (expandPatterns G.expands G.plain g.includes).any (fun pat => gm pat (joinPath p))) &&
  !(!g.excludes.isEmpty && (expandPatterns G.expands G.plain g.excludes).any (fun pat => gm pat (joinPath p)))

-- binary sniff --------------------------------------------------------------------------------------------

structure SniffCfg where
  maxScan : Nat
  boms : List Bytes
  magics : List Bytes
  deriving Repr

/-- `content_inspector::inspect(buf) == BINARY` -/
def isBinary (S : SniffCfg) (buf : Bytes) : Bool :=
  if S.boms.any (fun m => m.isPrefixOf buf) then false
  else if B.contains (buf.take S.maxScan) 0 then true
  else S.magics.any (fun m => m.isPrefixOf buf)

-- entries and the two content planners ----------------------------------------------------------------------

structure Entry where
  path : RelPath
  ftype : FType
  content : Bytes := []
  /-- for a symlink: does it resolve to a regular file (what `Path::is_file` sees) -/
  linkToFile : Bool := false
  deriving Repr

/-- the regular-file test; `follows` = the planner uses `Path::is_file` (stat) instead of the walker's lstat type -/
def isFileFor (follows : Bool) (e : Entry) : Bool :=
  match e.ftype with
  | .file => true
  | .symlink => follows && e.linkToFile
  | .dir => false

structure Pipeline where
  W : WalkerCfg
  G : GlobCfg
  S : SniffCfg
  binaryAsText : Nat → Bool
  scanFollows : Bool
  simpleFollows : Bool
  /-- `create_simple_plan` / `process_path_renames` strip only the FIRST search path before matching globs -/
  simpleFirstRootOnly : Bool := false
  /-- `process_file_content` leaves a file that is not valid UTF-8 out of the plan (at every level) -/
  simpleSkipsInvalidUtf8 : Bool := false

structure Request where
  level : Nat
  respectGitignore : Bool := true
  site : Site
  /-- is the scan root of this request the first PATHS argument -/
  firstRoot : Bool := true
  /-- the absolute path of the root as components (what glob patterns see when the prefix is not stripped) -/
  absPrefix : RelPath := []
  gm : Bytes → Bytes → Bool
  globs : Globs

def Pipeline.cfgFor (P : Pipeline) (r : Request) : LevelCfg := P.W.cfg (P.W.effectiveLevel r.respectGitignore r.level)

/-- `plan` / `rename` / `search`: may the content of entry `e` be matched -/
def inScope (P : Pipeline) (r : Request) (e : Entry) : Bool :=
  walked (P.cfgFor r) r.site e.path &&
  isFileFor P.scanFollows e &&
  globsOk P.G r.gm r.globs e.path &&
  (P.binaryAsText r.level || !(isBinary P.S e.content))

/-- the path the `replace` planner hands to the glob sets -/
def simpleGlobPath (P : Pipeline) (r : Request) (e : Entry) : RelPath :=
  if P.simpleFirstRootOnly && !r.firstRoot then r.absPrefix ++ e.path else e.path

/-- `replace` (create_simple_plan) -/
def inScopeSimple (P : Pipeline) (r : Request) (e : Entry) : Bool :=
  walked (P.cfgFor r) r.site e.path &&
  globsOk P.G r.gm r.globs (simpleGlobPath P r e) &&
  isFileFor P.simpleFollows e &&
  (P.binaryAsText r.level || !(isBinary P.S e.content)) &&
  (!P.simpleSkipsInvalidUtf8 || Utf8.valid e.content)

/-- both rename planners: may the entry be proposed for renaming (any lstat type) -/
def renameCandidate (P : Pipeline) (r : Request) (e : Entry) : Bool :=
  walked (P.cfgFor r) r.site e.path && globsOk P.G r.gm r.globs e.path

/-- `replace`: rename proposals (process_path_renames) -/
def renameCandidateSimple (P : Pipeline) (r : Request) (e : Entry) : Bool :=
  walked (P.cfgFor r) r.site e.path && globsOk P.G r.gm r.globs (simpleGlobPath P r e)

-- match and line exclusion ------------------------------------------------------------------------------------

structure Match where
  variant : Bytes
  text : Bytes
  line : Bytes
  deriving DecidableEq, Repr

structure ExclCfg where
  comparesVariant : Bool
  comparesText : Bool

def excludedMatch (X : ExclCfg) (excl : List Bytes) (m : Match) : Bool :=
  (X.comparesVariant && excl.contains m.variant) || (X.comparesText && excl.contains m.text)

/-- the matches `generate_hunks` turns into hunks (`lineRe` = the compiled --exclude-matching-lines regex) -/
def keptMatches (X : ExclCfg) (excl : List Bytes) (lineRe : Option (Bytes → Bool)) (ms : List Match) : List Match :=
  ms.filter (fun m => !(excludedMatch X excl m) && !(match lineRe with | some re => re m.line | none => false))

end Scope

/-
  A concrete matcher for the glob class the generators emit: literals, `?`, `*`, and `**` as a whole component
  (`**/` prefix, `/**` suffix, `/**/` inside). Transliterates globset 0.4 with default options
  (`literal_separator = false`: `*` and `?` match `/`). Patterns with `[ ] { } \` are unsupported (`none`).
-/
namespace Glob

inductive Tok where
  | lit (c : UInt8) | any | star | recPrefix | recSuffix | recMiddle
  deriving DecidableEq, Repr

def unsupported (c : UInt8) : Bool := c == 91 || c == 93 || c == 123 || c == 125 || c == 92

/-- `Parser::parse_star` for the second `*` (`prev` = character before the first `*`); returns tokens (reversed
    accumulator) and the remaining input -/
def star2 (acc : List Tok) (prev : Option UInt8) (rest : Bytes) : List Tok × Bytes :=
  if acc.isEmpty then
    match rest with
    | [] => ([.recPrefix], [])
    | 47 :: r => ([.recPrefix], r)
    | _ => ([.star, .star], rest)
  else if prev != some 47 then (.star :: .star :: acc, rest)
  else
    match rest with
    | [] =>
      (match acc with
       | .recPrefix :: a => .recPrefix :: a
       | .recSuffix :: a => .recSuffix :: a
       | _ :: a => .recSuffix :: a
       | [] => [.recSuffix], [])
    | 47 :: r =>
      (match acc with
       | .recPrefix :: a => .recPrefix :: a
       | .recSuffix :: a => .recSuffix :: a
       | _ :: a => .recMiddle :: a
       | [] => [.recMiddle], r)
    | _ => (.star :: .star :: acc, rest)

def parseGo : Nat → List Tok → Option UInt8 → Bytes → Option (List Tok)
  | 0, _, _, _ => none
  | _, acc, _, [] => some acc.reverse
  | fuel + 1, acc, prev, c :: rest =>
    if unsupported c then none
    else if c == 63 then parseGo fuel (.any :: acc) (some c) rest
    else if c == 42 then
      match rest with
      | 42 :: rest' =>
        let (acc', rest'') := star2 acc prev rest'
        -- globset's `prev` after the construct is the last consumed character
        parseGo fuel acc' (if rest''.length < rest'.length then some 47 else some 42) rest''
      | _ => parseGo fuel (.star :: acc) (some c) rest
    else parseGo fuel (.lit c :: acc) (some c) rest

def parse (p : Bytes) : Option (List Tok) := parseGo (p.length + 1) [] none p

/-- all `r` with `s = a ++ [47] ++ r` -/
def afterSlashes : Bytes → List Bytes
  | [] => []
  | c :: cs => if c == 47 then cs :: afterSlashes cs else afterSlashes cs

/-- all suffixes of `s`, longest first, including `[]` -/
def tails : Bytes → List Bytes
  | [] => [[]]
  | c :: cs => (c :: cs) :: tails cs

/-- anchored match of the token list against the whole string (the regex globset builds) -/
def matchToks : List Tok → Bytes → Bool
  | [], s => s.isEmpty
  | .lit c :: ts, s => (match s with | x :: xs => x == c && matchToks ts xs | [] => false)
  | .any :: ts, s => (match s with | _ :: xs => matchToks ts xs | [] => false)
  | .star :: ts, s => (tails s).any (fun r => matchToks ts r)
  | .recPrefix :: ts, s => matchToks ts s || (afterSlashes s).any (fun r => matchToks ts r)
  | .recSuffix :: ts, s => (match s with | 47 :: xs => (tails xs).any (fun r => matchToks ts r) | _ => false)
  | .recMiddle :: ts, s =>
    (match s with
     | 47 :: xs => matchToks ts xs || (afterSlashes xs).any (fun r => matchToks ts r)
     | _ => false)

/-- `none` = pattern outside the supported class -/
def matches? (pat path : Bytes) : Option Bool := (parse pat).map (fun ts => matchToks ts path)

def matchesD (pat path : Bytes) : Bool := (matches? pat path).getD false

end Glob
