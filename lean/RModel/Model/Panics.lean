import RModel.Base.Bytes
import RModel.Base.Utf8
import RModel.Model.Edits
import RModel.Gen.ExitCodes
import RModel.Gen.PanicGuards
/-
  C16 — index / slice / arithmetic models of the data-dependent panic sites.

  Every function returns `none` (or `.error .panic`) exactly where the Rust expression panics:
  slice index out of range, `start > end`, `str` index not on a character boundary, `u64`
  subtraction underflow (overflow-checked builds).  Nothing here computes *what* the code returns
  beyond what is needed to decide *whether* it panics.

  Each repaired site has three definitions: `…Old` (the unchecked shape before the fix commit, kept with its
  witnesses), the checked shape, and `…Cur` = whichever of the two the source has NOW, selected by the flag the
  translator extracts into `Gen.PanicGuards` (it looks for `.get(`, `saturating_sub`, the guards).  The totality
  theorems are stated about `…Cur`: reverting a fix flips the flag, the theorem stops compiling, and the driver
  (which also runs `…Cur`) predicts the panic again.
-/
open B

namespace Panics

/-! ### pattern.rs::is_boundary -/

def isWs (c : UInt8) : Bool :=
  decide (c.toNat = 32) || decide (c.toNat = 9) || decide (c.toNat = 10) || decide (c.toNat = 12) || decide (c.toNat = 13)

def isPunct (c : UInt8) : Bool :=
  (decide (33 ≤ c.toNat) && decide (c.toNat ≤ 47)) || (decide (58 ≤ c.toNat) && decide (c.toNat ≤ 64)) ||
  (decide (91 ≤ c.toNat) && decide (c.toNat ≤ 96)) || (decide (123 ≤ c.toNat) && decide (c.toNat ≤ 126))

/-- the non-alphanumeric test of the space-separated branch -/
def spaceSide (c : UInt8) : Bool :=
  isWs c || (isPunct c && c.toNat ≠ 45 && c.toNat ≠ 95) || (!isAlnum c && c.toNat ≠ 45 && c.toNat ≠ 95)

/-- `bytes[i]` -/
def idx (bytes : Bytes) (i : Nat) : Option UInt8 := bytes[i]?

/-- left side of `is_boundary`, evaluation order and short-circuits as in the source -/
def leftBoundary (bytes : Bytes) (start : Nat) (spaceSep : Bool) : Option Bool :=
  if start = 0 then some true
  else
    match idx bytes (start - 1) with            -- let prev_byte = bytes[start - 1];
    | none => none
    | some prev =>
      if spaceSep then some (spaceSide prev)
      else if !isAlnum prev then some true       -- `||` short-circuits: bytes[start] is not evaluated
      else
        match idx bytes start with               -- bytes[start].is_ascii_uppercase()
        | none => none
        | some cur => some (isUpper cur && isLower prev)

def rightBoundary (bytes : Bytes) (stop : Nat) (spaceSep : Bool) : Option Bool :=
  if stop ≥ bytes.length then some true
  else
    match idx bytes stop with                    -- let next_byte = bytes[end];
    | none => none
    | some next =>
      if spaceSep then some (spaceSide next)
      else if !isAlnum next then some true
      else if !isUpper next then some false
      else if stop = 0 then some false           -- `end > 0 &&` guards bytes[end - 1]
      else
        match idx bytes (stop - 1) with
        | none => none
        | some p => some (isLower p)

/-- `pattern.rs::is_boundary(bytes, start, end)`; `none` = panic -/
def isBoundary (bytes : Bytes) (start stop : Nat) : Option Bool :=
  if start ≤ stop ∧ stop ≤ bytes.length then      -- let match_bytes = &bytes[start..end];
    let spaceSep := ((bytes.take stop).drop start).any (fun c => c.toNat = 32)
    match leftBoundary bytes start spaceSep with
    | none => none
    | some l =>
      match rightBoundary bytes stop spaceSep with
      | none => none
      | some r => some (l && r)
  else none

/-- the exact precondition -/
def boundarySafe (bytes : Bytes) (start stop : Nat) : Prop :=
  start ≤ stop ∧ stop ≤ bytes.length ∧
  ¬ (0 < start ∧ start = bytes.length ∧ ∃ p, bytes[start - 1]? = some p ∧ isAlnum p = true)

/-! ### the index arithmetic of case_model.rs::parse_to_tokens_with_acronyms -/

/-- `while j < bytes.len() && pred(bytes[j]) { j += 1 }`, fuel = remaining length -/
def scanWhile (pred : UInt8 → Bool) (bytes : Bytes) : Nat → Nat → Nat
  | 0, j => j
  | fuel + 1, j =>
    match bytes[j]? with
    | some c => if pred c then scanWhile pred bytes fuel (j + 1) else j
    | none => j

/-- `let mut j = i; while j < len && bytes[j].is_ascii_uppercase() { j += 1 }` -/
def scanUpper (bytes : Bytes) (i : Nat) : Nat := scanWhile isUpper bytes (bytes.length - i) i

/-- `while digit_start > 0 && current[digit_start - 1].is_ascii_digit() { digit_start -= 1 }` -/
def digitStart (current : Bytes) : Nat → Nat
  | 0 => 0
  | d + 1 =>
    match current[d]? with
    | some c => if isDigit c then digitStart current d else d + 1
    | none => d + 1        -- would be the panic case `current[digit_start - 1]`; shown unreachable below

/-- `&bytes[a..b]` on a byte slice -/
def sliceOk (bytes : Bytes) (a b : Nat) : Prop := a ≤ b ∧ b ≤ bytes.length

/-! ### scanner.rs::generate_hunks — the `line_after` computation -/

/-- `match_col < line_string.len() && line_string[match_col..].starts_with(&content)` followed by the three slices
    `[..match_col]`, `[match_col + content.len()..]`; `line` is the *lossily decoded* line, `col` the byte column in
    the raw line.  `none` = panic. -/
def lineAfterOld (line : Bytes) (col : Nat) (content : Bytes) (repl : Bytes) : Option Bytes :=
  if col < line.length then
    match Edits.sliceStr line col line.length with          -- line_string[match_col..]
    | none => none
    | some tail =>
      if content.isPrefixOf tail then
        match Edits.sliceStr line 0 col, Edits.sliceStr line (col + content.length) line.length with
        | some a, some b => some (a ++ repl ++ b)
        | _, _ => none
      else some line          -- (fallback branch: `find` returns boundaries; not modelled further)
  else some line

/-- the repaired shape: `line_string.get(match_col..)` — never panics -/
def lineAfterChecked (line : Bytes) (col : Nat) (content : Bytes) (repl : Bytes) : Option Bytes :=
  match Edits.sliceStr line col line.length with
  | none => some line
  | some tail =>
    if content.isPrefixOf tail ∧ col < line.length then some (line.take col ++ repl ++ tail.drop content.length)
    else some line

/-- the code as it is now -/
def lineAfterCur (line : Bytes) (col : Nat) (content repl : Bytes) : Option Bytes :=
  if Gen.PanicGuards.lineAfterChecked then lineAfterChecked line col content repl else lineAfterOld line col content repl

/-- `&line[a..b]` on a BYTE slice: only the range matters, there is no character-boundary condition -/
def byteSlice (s : Bytes) (a b : Nat) : Option Bytes :=
  if a ≤ b ∧ b ≤ s.length then some ((s.take b).drop a) else none

/-- Third shape (repo commit 7807217): the match is looked up in the RAW line, the text before and after it is decoded
    separately.
      let raw_end = match_col + content.len();
      if line.get(match_col..raw_end) == Some(content.as_bytes()) {
          from_utf8_lossy(&line[..match_col]) + replace + from_utf8_lossy(&line[raw_end..])
      } else { find() fallback on the decoded line }
    `none` = panic (the two unchecked byte slices). -/
def lineAfterRaw (raw : Bytes) (col : Nat) (content repl : Bytes) : Option Bytes :=
  let rawEnd := col + content.length
  if byteSlice raw col rawEnd = some content then            -- line.get(..) == Some(..): `get` never panics
    match byteSlice raw 0 col, byteSlice raw rawEnd raw.length with
    | some a, some b => some (Utf8.lossy a ++ repl ++ Utf8.lossy b)
    | _, _ => none
  else some (Utf8.lossy raw)          -- (fallback branch: `find` returns boundaries; see extractContext_no_panic)

/-- what `generate_hunks` passes: the raw line decoded lossily, the column measured in the raw line -/
def lineAfterOfRawOld (raw : Bytes) (col : Nat) (content repl : Bytes) : Option Bytes :=
  lineAfterOld (Utf8.lossy raw) col content repl

/-- the code as it is now: whichever of the three shapes the source has -/
def lineAfterOfRaw (raw : Bytes) (col : Nat) (content repl : Bytes) : Option Bytes :=
  if Gen.PanicGuards.lineAfterRawChecked then lineAfterRaw raw col content repl
  else lineAfterCur (Utf8.lossy raw) col content repl

/-! ### the same raw column reused: ambiguity/resolver.rs, preview/diff.rs, preview/matches.rs -/

/-- `if match_pos > 0 { &line[..match_pos] } else { "" }` -/
def prefixOld (line : Bytes) (pos : Nat) : Option Bytes :=
  if pos > 0 then Edits.sliceStr line 0 pos else some []

/-- `line.get(..match_pos).unwrap_or("")`; also the shape of every repaired slice in the colour renderers
    (`line.get(a..b).unwrap_or("")`) -/
def sliceOrEmpty (line : Bytes) (a b : Nat) : Option Bytes := some ((Edits.sliceStr line a b).getD [])

def resolverPrefixCur (line : Bytes) (pos : Nat) : Option Bytes :=
  if Gen.PanicGuards.resolverPrefixChecked then sliceOrEmpty line 0 pos else prefixOld line pos

/-- preview/diff.rs render_diff, several hunks on one line:
    `if col < after_line.len() && after_line[col..].starts_with(&hunk.content) { after_line.replace_range(col..end, …) }` -/
def diffStepOld (afterLine : Bytes) (col : Nat) (content repl : Bytes) : Option Bytes :=
  if col < afterLine.length then
    match Edits.sliceStr afterLine col afterLine.length with
    | none => none
    | some tail =>
      if content.isPrefixOf tail then Edits.replaceRange afterLine col (col + content.length) repl
      else some afterLine
  else some afterLine

/-- `after_line.get(col..).is_some_and(|tail| !tail.is_empty() && tail.starts_with(..))` then `replace_range`:
    the end `col + content.len()` closes a prefix that is itself a `String` (hypothesis `hend` of the theorem) -/
def diffStepChecked (afterLine : Bytes) (col : Nat) (content repl : Bytes) : Option Bytes :=
  match Edits.sliceStr afterLine col afterLine.length with
  | none => some afterLine
  | some tail =>
    if !tail.isEmpty && content.isPrefixOf tail then Edits.replaceRange afterLine col (col + content.length) repl
    else some afterLine

def diffStepCur (afterLine : Bytes) (col : Nat) (content repl : Bytes) : Option Bytes :=
  if Gen.PanicGuards.diffAfterLineChecked then diffStepChecked afterLine col content repl else diffStepOld afterLine col content repl

/-- preview/matches.rs (colour): `&line_before[..col]`, `[col..actual_end]`, `[actual_end..]` -/
def matchesSlicesOld (line : Bytes) (col stop : Nat) : Option (Bytes × Bytes × Bytes) :=
  let actualEnd := min stop line.length
  match (if col > 0 then Edits.sliceStr line 0 col else some []) with
  | none => none
  | some a =>
    if col < line.length then
      match Edits.sliceStr line col actualEnd with
      | none => none
      | some b =>
        if actualEnd < line.length then
          match Edits.sliceStr line actualEnd line.length with
          | none => none
          | some c => some (a, b, c)
        else some (a, b, [])
    else some (a, [], [])

def matchesSlicesChecked (line : Bytes) (col stop : Nat) : Option (Bytes × Bytes × Bytes) :=
  let actualEnd := min stop line.length
  some ((Edits.sliceStr line 0 col).getD [], (Edits.sliceStr line col actualEnd).getD [], (Edits.sliceStr line actualEnd line.length).getD [])

def matchesSlicesCur (line : Bytes) (col stop : Nat) : Option (Bytes × Bytes × Bytes) :=
  if Gen.PanicGuards.matchesLineChecked && Gen.PanicGuards.diffHighlightChecked then matchesSlicesChecked line col stop
  else matchesSlicesOld line col stop

/-! ### coercion.rs::replace_case_insensitive with an abstract lower-casing -/

/-- one round of the loop: `text_lower[last_end..].find(&pattern_lower)`, then `&text[last_end..absolute_start]`.
    `lower` is the (abstract) `str::to_lowercase`; fuel bounds the loop (the Rust loop needs none when the pattern
    is non-empty; with an empty pattern it never terminates — `none` is returned for panic only). -/
inductive CIOutcome where
  | done (result : Bytes)
  | panic
  | diverges          -- fuel exhausted without progress: the empty-pattern loop
  deriving DecidableEq, Repr

def ciLoop (text textLower pattern patLower repl : Bytes) : Nat → Nat → Bytes → CIOutcome
  | 0, _, _ => .diverges
  | fuel + 1, lastEnd, acc =>
    match Edits.sliceStr textLower lastEnd textLower.length with     -- text_lower[last_end..]
    | none => .panic
    | some rest =>
      match B.find rest patLower with
      | none =>
        match Edits.sliceStr text lastEnd text.length with           -- &text[last_end..]
        | none => .panic
        | some tail => .done (acc ++ tail)
      | some start =>
        let absStart := lastEnd + start
        let absEnd := absStart + pattern.length
        match Edits.sliceStr text lastEnd absStart with              -- &text[last_end..absolute_start]
        | none => .panic
        | some before => ciLoop text textLower pattern patLower repl fuel absEnd (acc ++ before ++ repl)

def replaceCIOld (lower : Bytes → Bytes) (text pattern repl : Bytes) : CIOutcome :=
  ciLoop text (lower text) pattern (lower pattern) repl (text.length + 2) 0 []

/-- the repaired loop: every slice is `get(..)`, a miss returns the text unchanged -/
def ciLoopChecked (text textLower pattern patLower repl : Bytes) : Nat → Nat → Bytes → CIOutcome
  | 0, _, _ => .diverges
  | fuel + 1, lastEnd, acc =>
    match (Edits.sliceStr textLower lastEnd textLower.length).bind (fun rest => B.find rest patLower) with
    | none =>
      match Edits.sliceStr text lastEnd text.length with           -- text.get(last_end..)
      | none => .done text
      | some tail => .done (acc ++ tail)
    | some start =>
      let absStart := lastEnd + start
      let absEnd := absStart + pattern.length
      match Edits.sliceStr text lastEnd absStart with              -- text.get(last_end..absolute_start)
      | none => .done text
      | some before => ciLoopChecked text textLower pattern patLower repl fuel absEnd (acc ++ before ++ repl)

/-- `replace_case_insensitive` as repaired: empty / length-changing lower-casing returns the text unchanged -/
def replaceCIChecked (lower : Bytes → Bytes) (text pattern repl : Bytes) : CIOutcome :=
  let tl := lower text
  let pl := lower pattern
  if pl.isEmpty || tl.length ≠ text.length || pl.length ≠ pattern.length then .done text
  else ciLoopChecked text tl pattern pl repl (text.length + 2) 0 []

def replaceCICur (lower : Bytes → Bytes) (text pattern repl : Bytes) : CIOutcome :=
  if Gen.PanicGuards.ciEmptyAndLengthGuard && Gen.PanicGuards.ciSlicesChecked then replaceCIChecked lower text pattern repl
  else replaceCIOld lower text pattern repl

/-- coercion.rs::apply_coercion: `&container[pos..pos + old_pattern.len()]` (old) / `.get(..)?` (now: `None` result) -/
def patternPartOld (container : Bytes) (pos plen : Nat) : Option (Option Bytes) :=
  (Edits.sliceStr container pos (pos + plen)).map some

def patternPartChecked (container : Bytes) (pos plen : Nat) : Option (Option Bytes) :=
  some (Edits.sliceStr container pos (pos + plen))

def patternPartCur (container : Bytes) (pos plen : Nat) : Option (Option Bytes) :=
  if Gen.PanicGuards.coercionPartChecked then patternPartChecked container pos plen else patternPartOld container pos plen

/-- a lower-casing that is ASCII on ASCII and maps U+0130 `İ` (C4 B0) to `i̇` (69 CC 87): enough for the witness -/
def lowerDemo : Bytes → Bytes
  | [] => []
  | 0xC4 :: 0xB0 :: rest => 0x69 :: 0xCC :: 0x87 :: lowerDemo rest
  | c :: rest => toLower c :: lowerDemo rest

/-! ### lock.rs::acquire — age of an existing lock -/

/-- `current_time - timestamp` on `u64` in an overflow-checked build -/
def lockAgeOld (now ts : Nat) : Option Nat := if ts ≤ now then some (now - ts) else none

/-- repaired: `current_time.saturating_sub(timestamp)` -/
def lockAgeSat (now ts : Nat) : Nat := now - ts

def lockAgeCur (now ts : Nat) : Option Nat :=
  if Gen.PanicGuards.lockAgeSaturating then some (lockAgeSat now ts) else lockAgeOld now ts

def isDigitChar (c : UInt8) : Bool := isDigit c

/-- `str::parse::<u64>()` restricted to what matters: optional `+`, at least one ASCII digit, no overflow -/
def parseU64 (s : Bytes) : Option Nat :=
  let ds := match s with | 43 :: r => r | _ => s
  if ds.isEmpty || !ds.all isDigitChar then none
  else
    let n := ds.foldl (fun acc c => acc * 10 + (c.toNat - 48)) 0
    if n < 2 ^ 64 then some n else none

/-- Unicode `White_Space` as far as it can occur in a one/two/three-byte UTF-8 prefix we generate: ASCII only;
    other white space is not generated by the check (documented in the driver op) -/
def trimAscii (s : Bytes) : Bytes :=
  let f := fun (c : UInt8) => isWs c || c.toNat = 11
  ((s.dropWhile f).reverse.dropWhile f).reverse

/-- does `LockFile::acquire` reach the subtraction, and with which timestamp?  (`parts.len() == 2`) -/
def lockTimestamp (content : Bytes) : Option Nat :=
  match splitOn (trimAscii content) 58 with
  | [_, b] => some ((parseU64 b).getD 0)
  | _ => none

def lockPanicsOld (content : Bytes) (now : Nat) : Bool :=
  match lockTimestamp content with
  | some ts => (lockAgeOld now ts).isNone
  | none => false

def lockPanics (content : Bytes) (now : Nat) : Bool :=
  match lockTimestamp content with
  | some ts => (lockAgeCur now ts).isNone
  | none => false

/-! ### scanner.rs::extract_immediate_context -/

/-- the two `str` slices `line[..match_start]`, `line[..match_end]`; everything after them indexes a `Vec<char>`
    with indices bounded by the loops' own guards (`context_start > 0`, `context_end < chars.len()`) -/
def extractContextSlices (line : Bytes) (s e : Nat) : Option (Bytes × Bytes) :=
  match Edits.sliceStr line 0 s, Edits.sliceStr line 0 e with
  | some a, some b => some (a, b)
  | _, _ => none

/-! ### apply.rs::apply_content_edits_with_content — the loop as the source has it now -/

def applyEditsCur (orig : Bytes) (es : List Edits.Edit) : Except Edits.Err Bytes :=
  Edits.applyEditsG (Gen.PanicGuards.applyOrigChecked && Gen.PanicGuards.applyModifiedChecked) orig es

/-! ### case_model.rs::generate_variant_map_internal — the keys of the variant map -/

/-- keys inserted by the style loop (`rendered` = the search term in every requested style / plural form) plus the
    "exact match" entry for the term as typed (`exact` = whether that branch is taken) -/
def variantKeysOld (rendered : List Bytes) (search : Bytes) (exact : Bool) : List Bytes :=
  rendered ++ (if exact then [search] else [])

/-- now: `if search_variant.is_empty() { continue; }` and `&& !search.is_empty()` -/
def variantKeysChecked (rendered : List Bytes) (search : Bytes) (exact : Bool) : List Bytes :=
  rendered.filter (fun v => !v.isEmpty) ++ (if exact && !search.isEmpty then [search] else [])

def variantKeysCur (rendered : List Bytes) (search : Bytes) (exact : Bool) : List Bytes :=
  if Gen.PanicGuards.emptyVariantSkipped then variantKeysChecked rendered search exact else variantKeysOld rendered search exact

/-- a regex match of the alternation of `variants` in `bytes`: the matched text is one of the variants -/
def IsMatchOf (variants : List Bytes) (bytes : Bytes) (m : Nat × Nat) : Prop :=
  m.1 ≤ m.2 ∧ m.2 ≤ bytes.length ∧ (bytes.take m.2).drop m.1 ∈ variants

/-! ### case_constraints.rs::has_consecutive_uppercase -/

/-- the slices `chars[start..start + len]` for `len` in `2..=bound` are all in range of a `Vec<char>` of `n` chars -/
def upperRunOk (n start bound : Nat) : Bool := (List.range (bound + 1)).all (fun len => decide (len < 2 ∨ start + len ≤ n))

/-- before: `bound = sequence.len()` — the BYTE length of the run -/
def upperRunOld (n start _i byteLen : Nat) : Bool := upperRunOk n start byteLen
/-- now: `bound = i - start` — its length in characters -/
def upperRunChecked (n start i _byteLen : Nat) : Bool := upperRunOk n start (i - start)

def upperRunCur (n start i byteLen : Nat) : Bool :=
  if Gen.PanicGuards.upperRunCountsChars then upperRunChecked n start i byteLen else upperRunOld n start i byteLen

/-! ### scanner.rs::process_file_content — literal mode of `replace` -/

inductive LitOutcome where
  | done (count : Nat)
  | rejected            -- `create_simple_plan` returns Err("invalid pattern …") (status 2)
  | diverges
  deriving DecidableEq, Repr

/-- `while let Some(pos) = line[search_start..].find(pattern) { …; search_start = start + pattern.len() }` -/
def litLoop (line pattern : Bytes) : Nat → Nat → Nat → LitOutcome
  | 0, _, _ => .diverges
  | fuel + 1, searchStart, n =>
    match B.find (line.drop searchStart) pattern with
    | none => .done n
    | some pos => litLoop line pattern fuel (searchStart + pos + pattern.length) (n + 1)

def literalOld (line pattern : Bytes) : LitOutcome := litLoop line pattern (line.length + 2) 0 0

def literalChecked (line pattern : Bytes) : LitOutcome :=
  if pattern.isEmpty then .rejected else litLoop line pattern (line.length + 2) 0 0

def literalCur (line pattern : Bytes) : LitOutcome :=
  if Gen.PanicGuards.emptyLiteralRejected then literalChecked line pattern else literalOld line pattern

/-! ### output.rs::format_json — `json!({ … "plan": self.plan })` -/

/-- `ser` = result of serialising the plan (`none` = serde error: a path that is not UTF-8).
    before: `json!` unwraps it; now: `to_value(..).unwrap_or(Null)`.  Outer `none` = panic. -/
def planValueOld {α} (ser : Option α) : Option (Option α) := ser.map some
def planValueChecked {α} (ser : Option α) : Option (Option α) := some ser
def planValueCur {α} (ser : Option α) : Option (Option α) :=
  if Gen.PanicGuards.jsonPlanChecked then planValueChecked ser else planValueOld ser

/-! ### acronym.rs::find_longest_match -/

/-- the trie walk: `next` = child lookup for the byte cast to a char, `isEnd` = node ends an acronym.
    Returns `last_match_end`.  `guard` = the `if !bytes[i].is_ascii() { break; }` added by the fix. -/
def acrLoop {σ} (guard : Bool) (next : σ → UInt8 → Option σ) (isEnd : σ → Bool) (bytes : Bytes) :
    Nat → Nat → σ → Option Nat → Option Nat
  | 0, _, _, last => last
  | fuel + 1, i, node, last =>
    match bytes[i]? with
    | none => last
    | some b =>
      if guard && decide (128 ≤ b.toNat) then last
      else
        match next node b with
        | none => last
        | some node' => acrLoop guard next isEnd bytes fuel (i + 1) node' (if isEnd node' then some (i + 1) else last)

/-- `last_match_end.map(|end| &text[start_pos..end])`: outer `none` = panic -/
def findLongestG {σ} (guard : Bool) (next : σ → UInt8 → Option σ) (isEnd : σ → Bool) (root : σ) (text : Bytes) (start : Nat) :
    Option (Option Bytes) :=
  match acrLoop guard next isEnd text (text.length - start) start root none with
  | none => some none
  | some e => (Edits.sliceStr text start e).map some

def findLongestOld {σ} := @findLongestG σ false
def findLongestCur {σ} := @findLongestG σ Gen.PanicGuards.acronymAsciiGuard

/-- a fact about every `str`: a continuation byte never follows an ASCII byte -/
def ContAfterNonAscii (text : Bytes) : Prop :=
  ∀ j b c, text[j]? = some b → text[j + 1]? = some c → Edits.isCont c = true → 128 ≤ b.toNat

/-! ### scanner.rs::process_file_content — `$N` expansion of `replace` in regex mode -/

/-- One capture group: `cap` = its text (`none` = the group took no part in this match), `mentioned` = the replacement
    contains `$i`.  The code as it is: `if let Some(cap) = captures.get(i) { replace }` — an unset group is skipped.
    `captures[i]` (regex's `Index` impl) instead PANICS for an unset group.  Outer `none` = panic; the inner value is the
    text substituted, if any. -/
def expandGroupGet (cap : Option Bytes) (_mentioned : Bool) : Option (Option Bytes) := some cap
def expandGroupIndex (cap : Option Bytes) (mentioned : Bool) : Option (Option Bytes) :=
  if mentioned then cap.map some else some none

def expandGroupCur (cap : Option Bytes) (mentioned : Bool) : Option (Option Bytes) :=
  if Gen.PanicGuards.capturesGetChecked then expandGroupGet cap mentioned else expandGroupIndex cap mentioned

/-- the loop over groups `1..captures.len()` -/
def expandAll (step : Option Bytes → Bool → Option (Option Bytes)) : List (Option Bytes × Bool) → Option (List (Option Bytes))
  | [] => some []
  | (c, m) :: rest =>
    match step c m, expandAll step rest with
    | some x, some xs => some (x :: xs)
    | _, _ => none

/-! ### main.rs — exit status -/

def containsSub (msg sub : Bytes) : Bool := (B.find msg sub).isSome

/-- the `if … contains … else if …` chain over the translator-extracted table -/
def statusOfError (msg : Bytes) : Nat :=
  match Gen.ExitCodes.rules.find? (fun r => r.1.any (containsSub msg)) with
  | some r => r.2
  | none => Gen.ExitCodes.fallback

def documented : List Nat := [0, 1, 2, 3, 130]

/-- status of a run that does not panic: success, an error mapped by `statusOfError`, or one of the literal exits -/
inductive Outcome where
  | ok
  | err (msg : Bytes)
  | literalExit (i : Fin Gen.ExitCodes.literalExits.length)

def exitStatus : Outcome → Nat
  | .ok => Gen.ExitCodes.success
  | .err m => statusOfError m
  | .literalExit i => (Gen.ExitCodes.literalExits.get i).2.2

end Panics
