import RModel.Base.Bytes
import RModel.Base.Utf8
import RModel.Model.Edits
import RModel.Gen.ExitCodes
/-
  C16 — index / slice / arithmetic models of the data-dependent panic sites.

  Every function returns `none` (or `.error .panic`) exactly where the Rust expression panics:
  slice index out of range, `start > end`, `str` index not on a character boundary, `u64`
  subtraction underflow (overflow-checked builds).  Nothing here computes *what* the code returns
  beyond what is needed to decide *whether* it panics.
-/
open B

namespace Panics

/-! ### pattern.rs::is_boundary -/

def isWs (c : UInt8) : Bool :=
  decide (c.toNat = 32) || decide (c.toNat = 9) || decide (c.toNat = 10) || decide (c.toNat = 12) || decide (c.toNat = 13)

def isPunct (c : UInt8) : Bool :=
  (decide (33 ≤ c.toNat) && decide (c.toNat ≤ 47)) || (decide (58 ≤ c.toNat) && decide (c.toNat ≤ 64)) ||
  (decide (91 ≤ c.toNat) && decide (c.toNat ≤ 96)) || (decide (123 ≤ c.toNat) && decide (c.toNat ≤ 126))

/-- the non-alphanumeric test of the space-separated branch -/
def spaceSide (c : UInt8) : Bool :=
  isWs c || (isPunct c && c.toNat ≠ 45 && c.toNat ≠ 95) || (!isAlnum c && c.toNat ≠ 45 && c.toNat ≠ 95)

/-- `bytes[i]` -/
def idx (bytes : Bytes) (i : Nat) : Option UInt8 := bytes[i]?

/-- left side of `is_boundary`, evaluation order and short-circuits as in the source -/
def leftBoundary (bytes : Bytes) (start : Nat) (spaceSep : Bool) : Option Bool :=
  if start = 0 then some true
  else
    match idx bytes (start - 1) with            -- let prev_byte = bytes[start - 1];
    | none => none
    | some prev =>
      if spaceSep then some (spaceSide prev)
      else if !isAlnum prev then some true       -- `||` short-circuits: bytes[start] is not evaluated
      else
        match idx bytes start with               -- bytes[start].is_ascii_uppercase()
        | none => none
        | some cur => some (isUpper cur && isLower prev)

def rightBoundary (bytes : Bytes) (stop : Nat) (spaceSep : Bool) : Option Bool :=
  if stop ≥ bytes.length then some true
  else
    match idx bytes stop with                    -- let next_byte = bytes[end];
    | none => none
    | some next =>
      if spaceSep then some (spaceSide next)
      else if !isAlnum next then some true
      else if !isUpper next then some false
      else if stop = 0 then some false           -- `end > 0 &&` guards bytes[end - 1]
      else
        match idx bytes (stop - 1) with
        | none => none
        | some p => some (isLower p)

/-- `pattern.rs::is_boundary(bytes, start, end)`; `none` = panic -/
def isBoundary (bytes : Bytes) (start stop : Nat) : Option Bool :=
  if start ≤ stop ∧ stop ≤ bytes.length then      -- let match_bytes = &bytes[start..end];
    let spaceSep := ((bytes.take stop).drop start).any (fun c => c.toNat = 32)
    match leftBoundary bytes start spaceSep with
    | none => none
    | some l =>
      match rightBoundary bytes stop spaceSep with
      | none => none
      | some r => some (l && r)
  else none

/-- the exact precondition -/
def boundarySafe (bytes : Bytes) (start stop : Nat) : Prop :=
  start ≤ stop ∧ stop ≤ bytes.length ∧
  ¬ (0 < start ∧ start = bytes.length ∧ ∃ p, bytes[start - 1]? = some p ∧ isAlnum p = true)

/-! ### the index arithmetic of case_model.rs::parse_to_tokens_with_acronyms -/

/-- `while j < bytes.len() && pred(bytes[j]) { j += 1 }`, fuel = remaining length -/
def scanWhile (pred : UInt8 → Bool) (bytes : Bytes) : Nat → Nat → Nat
  | 0, j => j
  | fuel + 1, j =>
    match bytes[j]? with
    | some c => if pred c then scanWhile pred bytes fuel (j + 1) else j
    | none => j

/-- `let mut j = i; while j < len && bytes[j].is_ascii_uppercase() { j += 1 }` -/
def scanUpper (bytes : Bytes) (i : Nat) : Nat := scanWhile isUpper bytes (bytes.length - i) i

/-- `while digit_start > 0 && current[digit_start - 1].is_ascii_digit() { digit_start -= 1 }` -/
def digitStart (current : Bytes) : Nat → Nat
  | 0 => 0
  | d + 1 =>
    match current[d]? with
    | some c => if isDigit c then digitStart current d else d + 1
    | none => d + 1        -- would be the panic case `current[digit_start - 1]`; shown unreachable below

/-- `&bytes[a..b]` on a byte slice -/
def sliceOk (bytes : Bytes) (a b : Nat) : Prop := a ≤ b ∧ b ≤ bytes.length

/-! ### scanner.rs::generate_hunks — the `line_after` computation -/

/-- `match_col < line_string.len() && line_string[match_col..].starts_with(&content)` followed by the three slices
    `[..match_col]`, `[match_col + content.len()..]`; `line` is the *lossily decoded* line, `col` the byte column in
    the raw line.  `none` = panic. -/
def lineAfter (line : Bytes) (col : Nat) (content : Bytes) (repl : Bytes) : Option Bytes :=
  if col < line.length then
    match Edits.sliceStr line col line.length with          -- line_string[match_col..]
    | none => none
    | some tail =>
      if content.isPrefixOf tail then
        match Edits.sliceStr line 0 col, Edits.sliceStr line (col + content.length) line.length with
        | some a, some b => some (a ++ repl ++ b)
        | _, _ => none
      else some line          -- (fallback branch: `find` returns boundaries; not modelled further)
  else some line

/-- the repaired shape: `line_string.get(match_col..)` — never panics -/
def lineAfterChecked (line : Bytes) (col : Nat) (content : Bytes) (repl : Bytes) : Option Bytes :=
  match Edits.sliceStr line col line.length with
  | none => some line
  | some tail =>
    if content.isPrefixOf tail ∧ col < line.length then some (line.take col ++ repl ++ tail.drop content.length)
    else some line

/-- what `generate_hunks` passes: the raw line decoded lossily, the column measured in the raw line -/
def lineAfterOfRaw (raw : Bytes) (col : Nat) (content repl : Bytes) : Option Bytes :=
  lineAfter (Utf8.lossy raw) col content repl

/-! ### coercion.rs::replace_case_insensitive with an abstract lower-casing -/

/-- one round of the loop: `text_lower[last_end..].find(&pattern_lower)`, then `&text[last_end..absolute_start]`.
    `lower` is the (abstract) `str::to_lowercase`; fuel bounds the loop (the Rust loop needs none when the pattern
    is non-empty; with an empty pattern it never terminates — `none` is returned for panic only). -/
inductive CIOutcome where
  | done (result : Bytes)
  | panic
  | diverges          -- fuel exhausted without progress: the empty-pattern loop
  deriving DecidableEq, Repr

def ciLoop (text textLower pattern patLower repl : Bytes) : Nat → Nat → Bytes → CIOutcome
  | 0, _, _ => .diverges
  | fuel + 1, lastEnd, acc =>
    match Edits.sliceStr textLower lastEnd textLower.length with     -- text_lower[last_end..]
    | none => .panic
    | some rest =>
      match B.find rest patLower with
      | none =>
        match Edits.sliceStr text lastEnd text.length with           -- &text[last_end..]
        | none => .panic
        | some tail => .done (acc ++ tail)
      | some start =>
        let absStart := lastEnd + start
        let absEnd := absStart + pattern.length
        match Edits.sliceStr text lastEnd absStart with              -- &text[last_end..absolute_start]
        | none => .panic
        | some before => ciLoop text textLower pattern patLower repl fuel absEnd (acc ++ before ++ repl)

def replaceCI (lower : Bytes → Bytes) (text pattern repl : Bytes) : CIOutcome :=
  ciLoop text (lower text) pattern (lower pattern) repl (text.length + 2) 0 []

/-- a lower-casing that is ASCII on ASCII and maps U+0130 `İ` (C4 B0) to `i̇` (69 CC 87): enough for the witness -/
def lowerDemo : Bytes → Bytes
  | [] => []
  | 0xC4 :: 0xB0 :: rest => 0x69 :: 0xCC :: 0x87 :: lowerDemo rest
  | c :: rest => toLower c :: lowerDemo rest

/-! ### lock.rs::acquire — age of an existing lock -/

/-- `current_time - timestamp` on `u64` in an overflow-checked build -/
def lockAge (now ts : Nat) : Option Nat := if ts ≤ now then some (now - ts) else none

/-- repaired: `current_time.saturating_sub(timestamp)` -/
def lockAgeSat (now ts : Nat) : Nat := now - ts

def isDigitChar (c : UInt8) : Bool := isDigit c

/-- `str::parse::<u64>()` restricted to what matters: optional `+`, at least one ASCII digit, no overflow -/
def parseU64 (s : Bytes) : Option Nat :=
  let ds := match s with | 43 :: r => r | _ => s
  if ds.isEmpty || !ds.all isDigitChar then none
  else
    let n := ds.foldl (fun acc c => acc * 10 + (c.toNat - 48)) 0
    if n < 2 ^ 64 then some n else none

/-- Unicode `White_Space` as far as it can occur in a one/two/three-byte UTF-8 prefix we generate: ASCII only;
    other white space is not generated by the check (documented in the driver op) -/
def trimAscii (s : Bytes) : Bytes :=
  let f := fun (c : UInt8) => isWs c || c.toNat = 11
  ((s.dropWhile f).reverse.dropWhile f).reverse

/-- does `LockFile::acquire` reach the subtraction, and with which timestamp?  (`parts.len() == 2`) -/
def lockTimestamp (content : Bytes) : Option Nat :=
  match splitOn (trimAscii content) 58 with
  | [_, b] => some ((parseU64 b).getD 0)
  | _ => none

def lockPanics (content : Bytes) (now : Nat) : Bool :=
  match lockTimestamp content with
  | some ts => (lockAge now ts).isNone
  | none => false

/-! ### scanner.rs::extract_immediate_context -/

/-- the two `str` slices `line[..match_start]`, `line[..match_end]`; everything after them indexes a `Vec<char>`
    with indices bounded by the loops' own guards (`context_start > 0`, `context_end < chars.len()`) -/
def extractContextSlices (line : Bytes) (s e : Nat) : Option (Bytes × Bytes) :=
  match Edits.sliceStr line 0 s, Edits.sliceStr line 0 e with
  | some a, some b => some (a, b)
  | _, _ => none

/-! ### main.rs — exit status -/

def containsSub (msg sub : Bytes) : Bool := (B.find msg sub).isSome

/-- the `if … contains … else if …` chain over the translator-extracted table -/
def statusOfError (msg : Bytes) : Nat :=
  match Gen.ExitCodes.rules.find? (fun r => r.1.any (containsSub msg)) with
  | some r => r.2
  | none => Gen.ExitCodes.fallback

def documented : List Nat := [0, 1, 2, 3, 130]

/-- status of a run that does not panic: success, an error mapped by `statusOfError`, or one of the literal exits -/
inductive Outcome where
  | ok
  | err (msg : Bytes)
  | literalExit (i : Fin Gen.ExitCodes.literalExits.length)

def exitStatus : Outcome → Nat
  | .ok => Gen.ExitCodes.success
  | .err m => statusOfError m
  | .literalExit i => (Gen.ExitCodes.literalExits.get i).2.2

end Panics
