import RModel.Base.Bytes
import RModel.Base.Lit
import RModel.Model.CaseModel
import RModel.Model.LinePipeline
import RModel.Gen.Styles
import RModel.Gen.ResolverShape
import RModel.Model.ResolverRules
import RModel.Gen.LanguageRules
/-
  The context heuristics of the ambiguity resolver — the part of `AmbiguityResolver::resolve_with_styles` ABOVE the fallback
  chain that `LinePipeline.resolve` already models (there they are the parameter `heur`).

    ambiguity/language_heuristics.rs  `LanguageHeuristics::suggest_style`: `Path::extension`, `trim`, the extension table
    ambiguity/languages/*.rs          ALL twelve modules: ruby, python, javascript, go, rust, java, c_cpp, css, html, shell,
                                      yaml, config — not written here but PARSED from the Rust files by
                                      translate/languagerules.py into decision trees (`Gen.languageRules`), interpreted by
                                      `Block.eval` (Model/ResolverRules.lean): an `if … else if …` chain over the trimmed text
                                      in front of the match whose blocks are chains or `return Some(Style::X)`; a chain that
                                      runs out of arms answers `None` — control never re-enters an outer chain.
    ambiguity/file_context.rs         `FileContextAnalyzer`: `extract_identifiers` (string / `//` comment state machine),
                                      `analyze` (only unambiguous identifiers with a detectable style are counted; fewer than
                                      `minIdentifiers` = 50 of them → silent), `calculate_dominance` (`max_by_key` over a
                                      `HashMap`: the LAST maximum in iteration order; ratio < 0.4 → silent),
                                      `suggest_style` (dominant if possible, else the first possible style in the counts
                                      sorted by count, stable).
                                      The `HashMap` iteration order is a PARAMETER `ord` (a list of styles): `RandomState` makes
                                      it differ from map to map, so at equal counts the code's answer is not a function of its
                                      input.  `fileChoices` is the set of answers over all orders (Lemmas/Resolver.lean).
    ambiguity/cross_file_context.rs   reached only through `try_cross_file_context`, whose first statement is
                                      `context.project_root.as_ref()?`.  Both places that build an `AmbiguityContext`
                                      (scanner.rs::generate_hunks, rename.rs::determine_filename_replacement) write `project_root: None`
                                      (`Gen.projectRootAlwaysNone`, read from the source by translate/resolvershape.py).  The level is the
                                      parameter `cross` of `heurCtx`, consulted only when `root` is `some`;
                                      `heurCtx_root_none` (Lemmas) shows it is irrelevant for the contexts of `hunkCtx`.
    ambiguity/resolver.rs             `try_language_heuristics`, `try_file_context`, `try_cross_file_context` and their order.

  Domain: ASCII path, line and file content.  Rust's `trim`, `char::is_uppercase / is_alphabetic / is_alphanumeric /
  is_numeric / is_whitespace` are Unicode aware, the model's classes are the ASCII ones (a byte ≥ 0x80 is none of them), and
  `String::from_utf8_lossy` / `line.get(..column)` are the identity / `take` on ASCII.
  f64: `count as f64 / total as f64 >= 0.4` is `5·count ≥ 2·total` for every total below 10^15 (the quotient of two integers
  differs from 2/5 by at least 1/(5·total), far more than half an ulp).
-/
open B CaseModel

namespace Resolver

-- ---------------------------------------------------------------------------------------------------------------------
-- ambiguity/language_heuristics.rs  (the modules themselves: `Gen.languageRules`, interpreter in Model/ResolverRules.lean)

/-- the `match extension { … }` of `LanguageHeuristics::suggest_style` (case sensitive; `Gen.languageExtensions`): the
    decision tree of the language module the extension selects -/
def rulesOfExt (e : Bytes) : Option Block :=
  match Gen.languageExtensions.find? (fun row => row.1.contains e) with
  | some row => Gen.languageRules.lookup row.2
  | none => none

/-- `Path::file_name` on a `/`-separated path: the last component that is not empty and not `.`; none for `..` -/
def fileName (path : Bytes) : Option Bytes :=
  match ((B.splitOn path 47).filter (fun comp => !comp.isEmpty && comp != b!".")).getLast? with
  | none => none
  | some comp => if comp == b!".." then none else some comp

/-- `Path::extension`: what follows the last `.` of the file name; none without a `.` or when the only one is the first byte -/
def extension (path : Bytes) : Option Bytes :=
  match fileName path with
  | none => none
  | some name =>
    match B.find name.reverse [46] with
    | none => none
    | some i => if i + 1 = name.length then none else some (name.drop (name.length - i))

/-- `LanguageHeuristics::suggest_style(file_path, preceding_context, possible_styles)` -/
def langSuggest (path preceding : Bytes) (possible : List Style) : Option Style :=
  match extension path with
  | none => none
  | some e =>
    match rulesOfExt e with
    | none => none
    | some rules => rules.eval (trim preceding) possible

/-- `line.get(..match_pos).unwrap_or("")` -/
def preceding (line : Bytes) (pos : Nat) : Bytes := if pos ≤ line.length then line.take pos else []

-- ---------------------------------------------------------------------------------------------------------------------
-- ambiguity/file_context.rs

/-- `min_identifiers_threshold` (50); `medium_confidence_ratio` (0.4) as a fraction — both read from the source -/
def minIdentifiers : Nat := Gen.fileContextMinIdentifiers
def mediumNum : Nat := Gen.fileContextMediumNum
def mediumDen : Nat := Gen.fileContextMediumDen

def pushRaw (cur : Bytes) (ids : List Bytes) : List Bytes := if cur.isEmpty then ids else cur.reverse :: ids

/-- "filter out numbers and very short identifiers" -/
def pushFiltered (cur : Bytes) (ids : List Bytes) : List Bytes :=
  if decide (cur.length > 1) && !cur.all isDigit then cur.reverse :: ids else ids

/-- the loop of `extract_identifiers`; `cur` (reversed) = `current`, `d` = `string_delimiter`, `ids` reversed -/
def extractGo : Bytes → Bytes → Bool → Bool → UInt8 → List Bytes → List Bytes
  | [], cur, _, _, _, ids => (if cur.isEmpty then ids else pushFiltered cur ids).reverse
  | ch :: rest, cur, inStr, inCom, d, ids =>
    if !inCom && (ch == 34 || ch == 39 || ch == 96) then
      let st : Bool × UInt8 := if !inStr then (true, ch) else if ch == d then (false, d) else (true, d)
      extractGo rest [] st.1 inCom st.2 (pushRaw cur ids)
    else if inStr then extractGo rest cur inStr inCom d ids
    else if ch == 47 && rest.head? == some 47 then extractGo rest [] inStr true d (pushRaw cur ids)
    else if inCom && ch == 10 then extractGo rest cur inStr false d ids
    else if inCom then extractGo rest cur inStr inCom d ids
    else if isAlnum ch || ch == 95 || ch == 45 then extractGo rest (ch :: cur) inStr inCom d ids
    else if !cur.isEmpty then extractGo rest [] inStr inCom d (pushFiltered cur ids)
    else extractGo rest cur inStr inCom d ids

/-- `FileContextAnalyzer::extract_identifiers` -/
def extractIdentifiers (content : Bytes) : List Bytes := extractGo content [] false false 32 []

/-- what `analyze` counts an identifier as: nothing when it is ambiguous, else its detected style -/
def identStyle (A : Acr) (ident : Bytes) : Option Style :=
  if LinePipeline.isAmbiguous A ident Gen.allStyles then none else detectStyle A ident

/-- the styles of the counted identifiers, one entry per identifier (`style_counts` = the multiplicities,
    `total_unambiguous` = the length) -/
def styleTags (A : Acr) (content : Bytes) : List Style := (extractIdentifiers content).filterMap (identStyle A)

/-- the keys of `style_counts` in the map's iteration order `ord` (styles `ord` does not mention follow in `all_styles`
    order; a style mentioned twice is harmless below) -/
def keysOf (ord : List Style) (tags : List Style) : List Style :=
  (ord ++ Gen.allStyles.filter (fun s => !ord.contains s)).filter (fun s => decide (tags.count s > 0))

/-- `Iterator::max_by_key`: the LAST element with the maximal key -/
def lastMax (f : Style → Nat) : List Style → Option Style
  | [] => none
  | s :: rest =>
    match lastMax f rest with
    | none => some s
    | some m => if f s > f m then some s else some m

/-- stable insertion into a list ordered by count descending (`sort_by_key(Reverse(count))`): `sortDesc` inserts the
    elements from the right, so an element that stood EARLIER goes in front of the elements with the same count -/
def insertDesc (f : Style → Nat) (s : Style) : List Style → List Style
  | [] => [s]
  | x :: xs => if f x ≤ f s then s :: x :: xs else x :: insertDesc f s xs

def sortDesc (f : Style → Nat) (l : List Style) : List Style := l.foldr (insertDesc f) []

/-- `FileContextAnalyzer::suggest_style(content, possible_styles)` for the iteration order `ord` -/
def fileSuggestTags (ord : List Style) (tags : List Style) (possible : List Style) : Option Style :=
  let total := tags.length
  if total < minIdentifiers then none            -- ConfidenceLevel::Insufficient
  else
    let keys := keysOf ord tags
    match lastMax (fun s => tags.count s) keys with
    | none => none                               -- `style_counts.is_empty()`
    | some dom =>
      if mediumDen * tags.count dom < mediumNum * total then none      -- ConfidenceLevel::Low
      else if possible.contains dom then some dom
      else (sortDesc (fun s => tags.count s) keys).find? (fun s => possible.contains s)

def fileSuggest (A : Acr) (ord : List Style) (content : Bytes) (possible : List Style) : Option Style :=
  fileSuggestTags ord (styleTags A content) possible

/-- every answer `suggest_style` can give, over all iteration orders: the possible styles that occur in the file with the
    highest count among the possible ones (in `all_styles` order) -/
def fileChoicesTags (tags : List Style) (possible : List Style) : List Style :=
  let total := tags.length
  let cnt := fun s => tags.count s
  if decide (total < minIdentifiers) || Gen.allStyles.all (fun s => decide (mediumDen * cnt s < mediumNum * total)) then []
  else
    let cands := Gen.allStyles.filter (fun s => possible.contains s && decide (cnt s > 0))
    cands.filter (fun s => cands.all (fun t => decide (cnt t ≤ cnt s)))

def fileChoices (A : Acr) (content : Bytes) (possible : List Style) : List Style :=
  fileChoicesTags (styleTags A content) possible

-- ---------------------------------------------------------------------------------------------------------------------
-- ambiguity/resolver.rs: levels 1–3

/-- `AmbiguityContext` -/
structure Ctx where
  path : Option Bytes
  content : Option Bytes
  line : Option Bytes
  pos : Option Nat
  root : Option Bytes

/-- `try_language_heuristics` -/
def tryLanguage (c : Ctx) (possible : List Style) : Option Style :=
  match c.path, c.line, c.pos with
  | some path, some line, some pos => langSuggest path (preceding line pos) possible
  | _, _, _ => none

/-- `try_file_context` -/
def tryFile (A : Acr) (ord : List Style) (c : Ctx) (possible : List Style) : Option Style :=
  match c.content with
  | some content => fileSuggest A ord content possible
  | none => none

/-- the last white-space separated word (`split_whitespace().last().unwrap_or("")`) -/
def lastWord (s : Bytes) : Bytes :=
  ((s.reverse.dropWhile isWs).takeWhile (fun x => !isWs x)).reverse

/-- `try_cross_file_context`; `cross root extension preceding_word possible` = `CrossFileContextAnalyzer::suggest_style`
    (walks the project, process-wide cache) — NOT modelled, a parameter -/
def tryCross (cross : Bytes → Bytes → Bytes → List Style → Option Style) (c : Ctx) (possible : List Style) : Option Style :=
  match c.root, c.path, c.line, c.pos with
  | some root, some path, some line, some pos =>
    match extension path with
    | none => none
    | some e =>
      let w := lastWord (preceding line pos)
      if w.isEmpty then none else cross root e w possible
  | _, _, _, _ => none

/-- levels 1–3 of `resolve_with_styles`, in the code's order -/
def heurCtx (A : Acr) (ord : List Style) (cross : Bytes → Bytes → Bytes → List Style → Option Style) (c : Ctx)
    (possible : List Style) : Option Style :=
  match tryLanguage c possible with
  | some s => some s
  | none =>
    match tryFile A ord c possible with
    | some s => some s
    | none => tryCross cross c possible

/-- the context `generate_hunks` (scanner.rs) builds for a match at byte column `pos` of `line` in the file `path` with
    `content`: four fields `Some(..)`, `project_root: None` (`Gen.ambiguityContextSites`) -/
def hunkCtx (path content line : Bytes) (pos : Nat) : Ctx :=
  { path := some path, content := some content, line := some line, pos := some pos, root := none }

/-- the context `determine_filename_replacement` (rename.rs) builds for a path component: every field `None` -/
def pathCtx : Ctx := { path := none, content := none, line := none, pos := none, root := none }

/-- the shape of a context as `Gen.ambiguityContextSites` records it -/
def Ctx.shape (c : Ctx) : List Bool := [c.path.isSome, c.content.isSome, c.line.isSome, c.pos.isSome, c.root.isSome]

/-- THE parameter `heur` of `LinePipeline.resolve`, as the scanner instantiates it -/
def heurReal (A : Acr) (ord : List Style) (path content line : Bytes) (pos : Nat) : List Style → Option Style :=
  heurCtx A ord (fun _ _ _ _ => none) (hunkCtx path content line pos)

-- ---------------------------------------------------------------------------------------------------------------------
-- `resolve_with_styles` with the level that answered (`ResolvedStyle.method`, the two fallback methods as one)

inductive Method where
  | notAmbiguous | language | file | cross | fallback
  deriving DecidableEq, Repr

/-- the level that answers -/
def resolveMethod (A : Acr) (ord : List Style) (cross : Bytes → Bytes → Bytes → List Style → Option Style) (c : Ctx)
    (matched : Bytes) : Method :=
  if !LinePipeline.isAmbiguous A matched Gen.allStyles && (detectStyle A matched).isSome then .notAmbiguous
  else
    let possible := LinePipeline.filterCompatible A matched Gen.allStyles
    let constrained := LinePipeline.filterCompatible A matched possible
    if constrained.isEmpty then .fallback
    else if (tryLanguage c constrained).isSome then .language
    else if (tryFile A ord c constrained).isSome then .file
    else if (tryCross cross c constrained).isSome then .cross
    else .fallback

/-- `resolve_with_styles` on a context: the style is BY DEFINITION the one of `LinePipeline.resolve` (the model the clause-3
    theorems are about) with the three context levels as its `heur` parameter -/
def resolveWhy (A : Acr) (ord : List Style) (cross : Bytes → Bytes → Bytes → List Style → Option Style) (c : Ctx)
    (matched repl : Bytes) (replPossible : List Style) : Method × Style :=
  (resolveMethod A ord cross c matched, LinePipeline.resolve A (heurCtx A ord cross c) matched repl replPossible)

end Resolver
