import RModel.Base.Bytes
import RModel.Model.Edits
import RModel.Model.Fs
import RModel.Model.Apply
import RModel.Model.History
import RModel.Model.HistoryTree
/-
  A second concrete tree side for the `histrun` driver operation (C10): files below top-level DIRECTORIES whose
  name may contain the term, so that an operation edits files and renames a directory.

    tree    association list  relative path (with `/`) ↦ content; directories are implicit
    plan    hunks on the paths the files have BEFORE the renames (as `Plan.matches`), plus the renames of top-level
            directories whose name contains the search text (as `Plan.paths`, kind Dir)
    apply   STEP 2 on the original paths in `BTreeMap<PathBuf>` order (component-wise), a failure stops the command and
            the files written before it stay written; STEP 3 moves every file below a renamed directory; STEP 4 records
            the reverse patch of every changed file under its ORIGINAL path
    revert  `undo_renaming`: the renamed directories that exist are moved back, then every reverse patch is applied at the
            original path (whole-file match, as in `HistoryTree`); a patch that does not apply leaves `<file>.rej`.
            The pre-validation of 657a7be reads each file where it is now (the renamed location if it exists, else the
            original one) — the same content the patch step reads after the directories are moved back, so "`revert`
            fails" is exactly "the pre-validation refuses".
  Restrictions (the check's workspace W5 respects them): file names never contain a term, renamed directories are
  top-level, a rename never meets an existing destination.
-/

namespace HistoryTreeDir
open History HistoryTree

abbrev Tree := HistoryTree.Tree

structure Plan where
  hunks : List Hunk
  dirs  : List (Bytes × Bytes)       -- top-level directory renames (old name, new name)
  deriving DecidableEq, Repr

abbrev Backup := HistoryTree.Backup

/-- replace the leftmost non-overlapping occurrences of `pat` (non-empty) -/
def replaceAll (pat rep : Bytes) : Bytes → Nat → Bytes
  | [], _ => []
  | _ :: cs, skip + 1 => replaceAll pat rep cs skip
  | c :: cs, 0 =>
    if pat.isPrefixOf (c :: cs) then rep ++ replaceAll pat rep cs (pat.length - 1)
    else c :: replaceAll pat rep cs 0

/-- the first component of a path that has more than one -/
def topDir (f : Bytes) : Option Bytes :=
  match B.splitOn f 47 with
  | d :: _ :: _ => some d
  | _ => none

def addOnce (d : Bytes) (ds : List Bytes) : List Bytes := if ds.contains d then ds else ds ++ [d]

def scan (t : Tree) (search replace : Bytes) : Plan :=
  if search.isEmpty then { hunks := [], dirs := [] }
  else
    { hunks := HistoryTree.scan t search replace,
      dirs := ((t.foldl (fun acc e => match topDir e.1 with | some d => addOnce d acc | none => acc) []).filter
                (fun d => !(occurrences search d 0 0).isEmpty)).map (fun d => (d, replaceAll search replace d 0)) }

/-- `PathBuf` order: component-wise -/
def pathLtB (a b : Bytes) : Bool := Apply.pathLt (Fs.splitPath a) (Fs.splitPath b)

def insertPathB (f : Bytes) : List Bytes → List Bytes
  | [] => [f]
  | g :: gs => if f == g then g :: gs else if pathLtB f g then f :: g :: gs else g :: insertPathB f gs

def planFiles (p : Plan) : List Bytes := p.hunks.foldl (fun acc h => insertPathB h.file acc) []

/-- where a file is after the directory renames of the plan -/
def moved (dirs : List (Bytes × Bytes)) (f : Bytes) : Bytes :=
  match dirs.find? (fun r => (r.1 ++ [47]).isPrefixOf f) with
  | some r => r.2 ++ f.drop r.1.length
  | none => f

def movedBack (dirs : List (Bytes × Bytes)) (f : Bytes) : Bytes :=
  match dirs.find? (fun r => (r.2 ++ [47]).isPrefixOf f) with
  | some r => r.1 ++ f.drop r.2.length
  | none => f

def hasDir (t : Tree) (d : Bytes) : Bool := t.any (fun e => (d ++ [47]).isPrefixOf e.1)

/-- STEP 2 + STEP 4 over the files of the plan (same as the flat instance, other file order) -/
def applyFiles (p : Plan) : Tree → Backup → Bool → List Bytes → ApplyRes Tree Backup
  | t, b, _, [] => .ok t b
  | t, b, wrote, f :: fs =>
    match get t f with
    | none => if wrote then .partly t else .rejected
    | some c =>
      match Edits.applyEdits c (HistoryTree.editsFor p.hunks f) with
      | .error _ => if wrote then .partly t else .rejected
      | .ok c' => applyFiles p (set t f c') (if c' == c then b else b ++ [(f, c', c)]) true fs

def apply (t : Tree) (p : Plan) : ApplyRes Tree Backup :=
  match applyFiles p t [] false (planFiles p) with
  | .ok t1 b =>
    -- STEP 3: the directories (a destination that exists makes the rename fail; content edits stay)
    if p.dirs.any (fun r => hasDir t1 r.2) then .partly t1
    else .ok (normalize (t1.map (fun e => (moved (p.dirs.filter (fun r => hasDir t1 r.1)) e.1, e.2)))) b
  | r => r

def revertFiles : Tree → Bool → Backup → RevertRes Tree
  | t, ok, [] => if ok then .ok t else .failed t
  | t, ok, (f, after, before) :: rest =>
    if get t f == some after then revertFiles (set t f before) ok rest
    else revertFiles (insert (rejName f) rejBody t) false rest

def revert (t : Tree) (p : Plan) (b : Backup) : RevertRes Tree :=
  -- STEP 1: `if to.exists() { fs::rename(to, from) }`
  let back := p.dirs.filter (fun r => hasDir t r.2)
  let t1 := normalize (t.map (fun e => (movedBack back e.1, e.2)))
  revertFiles t1 true (b.filter (fun e => (planFiles p).contains e.1)).reverse

def ops : Ops Tree Plan Backup HistoryTree.H where
  hash := fun k s => (k, s)
  scan := scan
  isEmpty := fun p => p.hunks.isEmpty && p.dirs.isEmpty
  apply := apply
  revert := revert
  merge := HistoryTree.merge

abbrev World := History.World Tree Plan Backup HistoryTree.H

def start (t : Tree) (clock : Nat := 0) : World := History.init (normalize t) clock

end HistoryTreeDir
