//! case-model operations: real `parse_to_tokens`, `to_style`, `detect_style`
use crate::util::*;
use renamify_core::case_model::{Style, Token, TokenModel};
use renamify_core::{detect_style, parse_to_tokens, to_style};

pub fn style_of(s: &str) -> Option<Style> {
    Some(match s {
        "snake" => Style::Snake,
        "kebab" => Style::Kebab,
        "camel" => Style::Camel,
        "pascal" => Style::Pascal,
        "screaming_snake" => Style::ScreamingSnake,
        "title" => Style::Title,
        "train" => Style::Train,
        "screaming_train" => Style::ScreamingTrain,
        "dot" => Style::Dot,
        "lower_flat" => Style::LowerFlat,
        "upper_flat" => Style::UpperFlat,
        "sentence" => Style::Sentence,
        "lower_sentence" => Style::LowerSentence,
        "upper_sentence" => Style::UpperSentence,
        _ => return None,
    })
}

pub fn style_name(s: Style) -> &'static str {
    match s {
        Style::Snake => "snake",
        Style::Kebab => "kebab",
        Style::Camel => "camel",
        Style::Pascal => "pascal",
        Style::ScreamingSnake => "screaming_snake",
        Style::Title => "title",
        Style::Train => "train",
        Style::ScreamingTrain => "screaming_train",
        Style::Dot => "dot",
        Style::LowerFlat => "lower_flat",
        Style::UpperFlat => "upper_flat",
        Style::Sentence => "sentence",
        Style::LowerSentence => "lower_sentence",
        Style::UpperSentence => "upper_sentence",
    }
}

pub fn dispatch(f: &[&str]) -> Option<String> {
    match f.first().copied() {
        Some("tokens") if f.len() == 2 => {
            let Some(s) = unhex_str(f[1]) else { return Some("bad-req".into()) };
            let m = parse_to_tokens(&s);
            let mut out = vec!["t".to_string()];
            for t in m.tokens {
                out.push(hex(t.text.as_bytes()));
            }
            Some(out.join(" "))
        },
        Some("tostyle") if f.len() >= 2 => {
            let Some(st) = style_of(f[1]) else { return Some("bad-req".into()) };
            let mut toks = vec![];
            for h in &f[2..] {
                let Some(s) = unhex_str(h) else { return Some("bad-req".into()) };
                toks.push(Token::new(s));
            }
            Some(format!("s {}", hex(to_style(&TokenModel::new(toks), st).as_bytes())))
        },
        Some("detect") if f.len() == 2 => {
            let Some(s) = unhex_str(f[1]) else { return Some("bad-req".into()) };
            Some(match detect_style(&s) {
                Some(st) => format!("d {}", style_name(st)),
                None => "d none".to_string(),
            })
        },
        Some("vmap") if f.len() == 4 => {
            let (Some(a), Some(b)) = (unhex_str(f[1]), unhex_str(f[2])) else { return Some("bad-req".into()) };
            let styles: Option<Vec<Style>> = match f[3] {
                "default" => None,
                "all" => Some(Style::all_styles()),
                list => {
                    let mut v = vec![];
                    for n in list.split(',') {
                        let Some(st) = style_of(n) else { return Some("bad-req".into()) };
                        v.push(st);
                    }
                    Some(v)
                },
            };
            let m = renamify_core::generate_variant_map(&a, &b, styles.as_deref());
            let mut out = vec!["v".to_string()];
            for (k, v) in m {
                out.push(format!("{}={}", hex(k.as_bytes()), hex(v.as_bytes())));
            }
            Some(out.join(" "))
        },
        _ => None,
    }
}
