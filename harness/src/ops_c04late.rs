//! C04 — "apply refused for a reason that is only detected late", in-process.
//! `lateapply <undo|redo|applied> T… H… R…`
//!     real `apply_plan` (id p1), then `undo_renaming` / `undo_renaming` + `redo_renaming` / nothing, then the SAME plan
//!     (same id) through the real `apply_plan` again.  Answer:
//!     `<setup ok|setup:<what>> <outcome of the second apply> <tree unchanged 0|1> <history unchanged 0|1> <entries before>/<entries after>`
use crate::ops_apply::{build_plan, classify, opts_for};
use crate::util::*;
use crate::wire::*;
use renamify_core::{apply_plan, redo_renaming, undo_renaming};
use std::fs;
use std::path::Path;

fn history_ids(root: &Path) -> String {
    let p = root.join(".renamify/history.json");
    let Ok(text) = fs::read_to_string(&p) else { return "absent".into() };
    let Ok(v) = serde_json::from_str::<serde_json::Value>(&text) else { return "bad".into() };
    let ids: Vec<String> = v
        .as_array()
        .map(|a| {
            a.iter()
                .map(|e| {
                    let id = e.get("id").and_then(|x| x.as_str()).unwrap_or("?");
                    // run-specific timestamps out
                    if id.starts_with("revert-") {
                        "revert".to_string()
                    } else if id.starts_with("redo-") {
                        "redo".to_string()
                    } else {
                        id.to_string()
                    }
                })
                .collect()
        })
        .unwrap_or_default();
    ids.join(",")
}

pub fn lateapply(f: &[&str]) -> String {
    if f.is_empty() {
        return "bad-req".into();
    }
    let seq = f[0];
    let mut c = Cursor::new(&f[1..]);
    let (Some(tree), Some(hunks), Some(rens)) = (parse_tree(&mut c), parse_hunks(&mut c), parse_rens(&mut c)) else {
        return "bad-req".into();
    };
    if !c.done() || !["undo", "redo", "applied"].contains(&seq) {
        return "bad-req".into();
    }
    let root = fresh("late");
    materialize(&root, &tree);
    std::env::set_current_dir(&root).unwrap();
    let opts = opts_for(&root);
    let rdir = root.join(".renamify");
    let mut setup = "ok".to_string();
    {
        let mut plan = build_plan(&root, &hunks, &rens, "p1");
        let a = classify(std::panic::catch_unwind(std::panic::AssertUnwindSafe(|| apply_plan(&mut plan, &opts))));
        if a != "ok" {
            setup = format!("setup:apply:{}", a);
        }
    }
    if setup == "ok" && (seq == "undo" || seq == "redo") {
        let r = std::panic::catch_unwind(std::panic::AssertUnwindSafe(|| undo_renaming("p1", &rdir)));
        if !matches!(r, Ok(Ok(()))) {
            setup = "setup:undo".into();
        }
    }
    if setup == "ok" && seq == "redo" {
        let r = std::panic::catch_unwind(std::panic::AssertUnwindSafe(|| redo_renaming("p1", &rdir)));
        if !matches!(r, Ok(Ok(()))) {
            setup = "setup:redo".into();
        }
    }
    let out = if setup == "ok" {
        let tree_before = show_tree(&root);
        let hist_before = history_ids(&root);
        let mut plan = build_plan(&root, &hunks, &rens, "p1");
        let a = classify(std::panic::catch_unwind(std::panic::AssertUnwindSafe(|| apply_plan(&mut plan, &opts))));
        let tree_after = show_tree(&root);
        let hist_after = history_ids(&root);
        let cls = if a.starts_with("err:") { "refused".to_string() } else { a };
        format!(
            "ok {} {} {} {}/{}",
            cls,
            u8::from(tree_before == tree_after),
            u8::from(hist_before == hist_after),
            hist_before,
            hist_after
        )
    } else {
        format!("{} - - - -", setup)
    };
    std::env::set_current_dir(scratch()).unwrap();
    cleanup(&root);
    out
}

pub fn dispatch(f: &[&str]) -> Option<String> {
    match f.first().copied() {
        Some("lateapply") => Some(lateapply(&f[1..])),
        _ => None,
    }
}
