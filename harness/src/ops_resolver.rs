//! the ambiguity resolver with its context heuristics (C06, clause 3); mirror of lean/Driver/OpsResolver.lean
//!
//!   resolvewhy <hex path> <hex file content|none> <hex line> <pos> <hex matched> <hex replacement> <reps>
//!       real `AmbiguityResolver::resolve_with_styles` exactly as `scanner.rs::generate_hunks` calls it: an
//!       `AmbiguityContext` with `file_path`, `file_content` (`none` = `None`, as rename.rs passes it), `line_content`,
//!       `match_position` and `project_root: None`, the replacement's compatible styles pre-computed.  The call is made
//!       <reps> times, each with a fresh resolver (as every file gets one); the answer of `FileContextAnalyzer` depends on
//!       the iteration order of a `HashMap` when two styles are counted equally often, so the DISTINCT answers are reported.
//!       -> `w <notambiguous|language|file|cross|fallback> <style>[|<style>…]`   (styles sorted by name; `w mixed-methods …`
//!          if the answering level itself differs between repetitions)
//!   langsuggest <hex path> <hex preceding text> <names>
//!       real `LanguageHeuristics::suggest_style(path, preceding, possible)`  -> `g <style|none>`
//!   filesuggest <hex file content> <names> <reps>
//!       real `FileContextAnalyzer::suggest_style(content, possible)`, <reps> times with a fresh analyzer
//!       -> `q <style|none>[|…]`   (distinct answers sorted by name)
use crate::ops_case::{style_name, style_of};
use crate::util::*;
use renamify_core::ambiguity::language_heuristics::LanguageHeuristics;
use renamify_core::ambiguity::resolver::ResolutionMethod;
use renamify_core::ambiguity::{AmbiguityContext, AmbiguityResolver};
use renamify_core::case_model::Style;
use std::collections::BTreeSet;

fn method_name(m: &ResolutionMethod) -> &'static str {
    match m {
        ResolutionMethod::NotAmbiguous => "notambiguous",
        ResolutionMethod::LanguageHeuristic => "language",
        ResolutionMethod::FileContext => "file",
        ResolutionMethod::CrossFileContext => "cross",
        ResolutionMethod::ReplacementStringPreference | ResolutionMethod::DefaultFallback => "fallback",
    }
}

pub fn dispatch(f: &[&str]) -> Option<String> {
    match f.first().copied() {
        Some("resolvewhy") if f.len() == 8 => {
            let content = if f[2] == "none" { Some(None) } else { unhex_str(f[2]).map(Some) };
            let (Some(path), Some(content), Some(line), Ok(pos), Some(m), Some(r), Ok(reps)) = (
                unhex_str(f[1]),
                content,
                unhex_str(f[3]),
                f[4].parse::<usize>(),
                unhex_str(f[5]),
                unhex_str(f[6]),
                f[7].parse::<usize>(),
            ) else {
                return Some("bad-req".into());
            };
            let poss = renamify_core::case_constraints::filter_compatible_styles(&r, &Style::all_styles());
            let mut methods = BTreeSet::new();
            let mut styles = BTreeSet::new();
            for _ in 0..reps.max(1) {
                let resolver = AmbiguityResolver::new();
                let ctx = AmbiguityContext {
                    file_path: Some(std::path::PathBuf::from(&path)),
                    file_content: content.clone(),
                    line_content: Some(line.clone()),
                    match_position: Some(pos),
                    project_root: None,
                };
                let res = resolver.resolve_with_styles(&m, &r, &ctx, Some(&poss));
                methods.insert(method_name(&res.method));
                styles.insert(style_name(res.style));
            }
            let styles = styles.into_iter().collect::<Vec<_>>().join("|");
            if methods.len() == 1 {
                Some(format!("w {} {}", methods.iter().next().unwrap(), styles))
            } else {
                Some(format!("w mixed-methods {}", styles))
            }
        },
        Some("langsuggest") if f.len() == 4 => {
            let (Some(path), Some(pre)) = (unhex_str(f[1]), unhex_str(f[2])) else { return Some("bad-req".into()) };
            let mut poss = vec![];
            if f[3] != "-" {
                for n in f[3].split(',') {
                    poss.push(style_of(n)?);
                }
            }
            let got = LanguageHeuristics::suggest_style(std::path::Path::new(&path), &pre, &poss);
            Some(format!("g {}", got.map_or("none", style_name)))
        },
        Some("filesuggest") if f.len() == 4 => {
            let (Some(content), Ok(reps)) = (unhex_str(f[1]), f[3].parse::<usize>()) else { return Some("bad-req".into()) };
            let mut poss = vec![];
            if f[2] != "-" {
                for n in f[2].split(',') {
                    poss.push(style_of(n)?);
                }
            }
            let mut answers = BTreeSet::new();
            for _ in 0..reps.max(1) {
                let an = renamify_core::ambiguity::file_context::FileContextAnalyzer::new();
                answers.insert(an.suggest_style(&content, &poss).map_or("none", style_name));
            }
            Some(format!("q {}", answers.into_iter().collect::<Vec<_>>().join("|")))
        },
        _ => None,
    }
}
