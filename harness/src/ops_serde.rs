//! serde operations (C17): build a real `Plan` / `HistoryEntry` from a typed description (never by
//! deserialising), write it with the functions the code uses (`write_plan`; `History::add_entry` -> `save`), report the
//! complete decoded JSON document in canonical form, then load it back with `serde_json::from_str` and
//! report whether that succeeds, gives a value equal field by field, and re-serialises to the same document.
//!
//!   serde plan    <tokens>        serde history <tokens>
//!
//! token grammar (schema-directed, fields in declaration order):
//!   String/PathBuf  hex | -          number  decimal         bool  t | f        unit enum  variant index
//!   Option<T>  N | S <T>             Vec<T>  L n <T>*n        HashMap<K,T>  M n (<hex> <T>)*n      (A,B)  <A> <B>
//! result:  ok <canonical json> de=ok same=0|1 load=ok|differs|err   |   ok <canonical json> de=<error kind>[:<field hex>]   |   sererr
use crate::util::*;
use crate::wire::Cursor;
use renamify_core::case_model::Style;
use renamify_core::history::HistoryEntry;
use renamify_core::scanner::{MatchHunk, Plan, Rename, RenameKind, Stats};
use std::collections::HashMap;
use std::path::PathBuf;

/// `Style` variants in declaration order (the order of the generated schema)
const STYLES: [Style; 14] = [
    Style::Snake,
    Style::Kebab,
    Style::Camel,
    Style::Pascal,
    Style::ScreamingSnake,
    Style::Title,
    Style::Train,
    Style::ScreamingTrain,
    Style::Dot,
    Style::LowerFlat,
    Style::UpperFlat,
    Style::Sentence,
    Style::LowerSentence,
    Style::UpperSentence,
];

fn p_str(c: &mut Cursor) -> Option<String> {
    unhex_str(c.next()?)
}

fn p_path(c: &mut Cursor) -> Option<PathBuf> {
    use std::os::unix::ffi::OsStringExt;
    Some(PathBuf::from(std::ffi::OsString::from_vec(unhex(c.next()?)?)))
}

fn p_u64(c: &mut Cursor) -> Option<u64> {
    c.next()?.parse().ok()
}

fn p_u32(c: &mut Cursor) -> Option<u32> {
    c.next()?.parse().ok()
}

fn p_usize(c: &mut Cursor) -> Option<usize> {
    c.next()?.parse().ok()
}

fn p_opt<T>(c: &mut Cursor, f: fn(&mut Cursor) -> Option<T>) -> Option<Option<T>> {
    match c.next()? {
        "N" => Some(None),
        "S" => Some(Some(f(c)?)),
        _ => None,
    }
}

fn p_vec<T>(c: &mut Cursor, f: fn(&mut Cursor) -> Option<T>) -> Option<Vec<T>> {
    let n = c.counted("L")?;
    let mut v = Vec::with_capacity(n);
    for _ in 0..n {
        v.push(f(c)?);
    }
    Some(v)
}

fn p_style(c: &mut Cursor) -> Option<Style> {
    let i: usize = c.next()?.parse().ok()?;
    STYLES.get(i).copied()
}

fn p_kind(c: &mut Cursor) -> Option<RenameKind> {
    match c.next()? {
        "0" => Some(RenameKind::File),
        "1" => Some(RenameKind::Dir),
        _ => None,
    }
}

fn p_vec_path(c: &mut Cursor) -> Option<Vec<PathBuf>> {
    p_vec(c, p_path)
}

fn p_hunk(c: &mut Cursor) -> Option<MatchHunk> {
    Some(MatchHunk {
        file: p_path(c)?,
        line: p_u64(c)?,
        byte_offset: p_u32(c)?,
        char_offset: p_u32(c)?,
        variant: p_str(c)?,
        content: p_str(c)?,
        replace: p_str(c)?,
        start: p_usize(c)?,
        end: p_usize(c)?,
        line_before: p_opt(c, p_str)?,
        line_after: p_opt(c, p_str)?,
        coercion_applied: p_opt(c, p_str)?,
        original_file: p_opt(c, p_path)?,
        renamed_file: p_opt(c, p_path)?,
        patch_hash: p_opt(c, p_str)?,
    })
}

fn p_rename(c: &mut Cursor) -> Option<Rename> {
    Some(Rename {
        path: p_path(c)?,
        new_path: p_path(c)?,
        kind: p_kind(c)?,
        coercion_applied: p_opt(c, p_str)?,
    })
}

fn p_stats(c: &mut Cursor) -> Option<Stats> {
    let files_scanned = p_usize(c)?;
    let total_matches = p_usize(c)?;
    let n = c.counted("M")?;
    let mut matches_by_variant = HashMap::new();
    for _ in 0..n {
        let k = p_str(c)?;
        let v = p_usize(c)?;
        matches_by_variant.insert(k, v);
    }
    let files_with_matches = p_usize(c)?;
    Some(Stats {
        files_scanned,
        total_matches,
        matches_by_variant,
        files_with_matches,
    })
}

fn p_plan(c: &mut Cursor) -> Option<Plan> {
    Some(Plan {
        id: p_str(c)?,
        created_at: p_str(c)?,
        search: p_str(c)?,
        replace: p_str(c)?,
        styles: p_vec(c, p_style)?,
        includes: p_vec(c, p_str)?,
        excludes: p_vec(c, p_str)?,
        matches: p_vec(c, p_hunk)?,
        paths: p_vec(c, p_rename)?,
        stats: p_stats(c)?,
        version: p_str(c)?,
        created_directories: p_opt(c, p_vec_path)?,
    })
}

fn p_pair(c: &mut Cursor) -> Option<(PathBuf, PathBuf)> {
    Some((p_path(c)?, p_path(c)?))
}

fn p_history(c: &mut Cursor) -> Option<HistoryEntry> {
    let id = p_str(c)?;
    let created_at = p_str(c)?;
    let search = p_str(c)?;
    let replace = p_str(c)?;
    let styles = p_vec(c, p_str)?;
    let includes = p_vec(c, p_str)?;
    let excludes = p_vec(c, p_str)?;
    let n = c.counted("M")?;
    let mut affected_files = HashMap::new();
    for _ in 0..n {
        let k = p_path(c)?;
        let v = p_str(c)?;
        affected_files.insert(k, v);
    }
    Some(HistoryEntry {
        id,
        created_at,
        search,
        replace,
        styles,
        includes,
        excludes,
        affected_files,
        renames: p_vec(c, p_pair)?,
        backups_path: p_path(c)?,
        revert_of: p_opt(c, p_str)?,
        redo_of: p_opt(c, p_str)?,
    })
}

/// canonical rendering of a decoded JSON document: no spaces, object keys sorted by bytes, strings hex
fn canon(v: &serde_json::Value, out: &mut String) {
    use serde_json::Value as V;
    match v {
        V::Null => out.push('z'),
        V::Bool(b) => out.push(if *b { 't' } else { 'f' }),
        V::Number(n) => out.push_str(&n.to_string()),
        V::String(s) => {
            out.push('s');
            out.push_str(&hex(s.as_bytes()));
        },
        V::Array(a) => {
            out.push('[');
            for (i, x) in a.iter().enumerate() {
                if i > 0 {
                    out.push(',');
                }
                canon(x, out);
            }
            out.push(']');
        },
        V::Object(m) => {
            let mut ks: Vec<&String> = m.keys().collect();
            ks.sort_by(|a, b| a.as_bytes().cmp(b.as_bytes()));
            out.push('{');
            for (i, k) in ks.iter().enumerate() {
                if i > 0 {
                    out.push(',');
                }
                out.push_str(&hex(k.as_bytes()));
                out.push(':');
                canon(&m[*k], out);
            }
            out.push('}');
        },
    }
}

fn err_kind(msg: &str) -> String {
    let field = |pat: &str| -> Option<String> {
        let i = msg.find(pat)? + pat.len();
        let rest = &msg[i..];
        let j = rest.find('`')?;
        Some(hex(rest[..j].as_bytes()))
    };
    if let Some(f) = field("missing field `") {
        return format!("missing:{f}");
    }
    if let Some(f) = field("unknown field `") {
        return format!("unknownfield:{f}");
    }
    if let Some(f) = field("unknown variant `") {
        return format!("unknownvariant:{f}");
    }
    if msg.contains("invalid type") {
        return "invalidtype".into();
    }
    if msg.contains("invalid length") {
        return "invalidlength".into();
    }
    if msg.contains("duplicate field") {
        return "duplicatefield".into();
    }
    "other".into()
}

// field-by-field equality (the types do not implement PartialEq); exhaustive destructuring, so a new field
// does not go unnoticed
fn eq_hunk(a: &MatchHunk, b: &MatchHunk) -> bool {
    let MatchHunk {
        file,
        line,
        byte_offset,
        char_offset,
        variant,
        content,
        replace,
        start,
        end,
        line_before,
        line_after,
        coercion_applied,
        original_file,
        renamed_file,
        patch_hash,
    } = a;
    *file == b.file
        && *line == b.line
        && *byte_offset == b.byte_offset
        && *char_offset == b.char_offset
        && *variant == b.variant
        && *content == b.content
        && *replace == b.replace
        && *start == b.start
        && *end == b.end
        && *line_before == b.line_before
        && *line_after == b.line_after
        && *coercion_applied == b.coercion_applied
        && *original_file == b.original_file
        && *renamed_file == b.renamed_file
        && *patch_hash == b.patch_hash
}

fn eq_rename(a: &Rename, b: &Rename) -> bool {
    let Rename { path, new_path, kind, coercion_applied } = a;
    *path == b.path && *new_path == b.new_path && *kind == b.kind && *coercion_applied == b.coercion_applied
}

fn eq_stats(a: &Stats, b: &Stats) -> bool {
    let Stats { files_scanned, total_matches, matches_by_variant, files_with_matches } = a;
    *files_scanned == b.files_scanned
        && *total_matches == b.total_matches
        && *matches_by_variant == b.matches_by_variant
        && *files_with_matches == b.files_with_matches
}

trait SameValue {
    fn same_value(&self, other: &Self) -> bool;
}

impl SameValue for Plan {
    fn same_value(&self, b: &Self) -> bool {
        let Plan {
            id,
            created_at,
            search,
            replace,
            styles,
            includes,
            excludes,
            matches,
            paths,
            stats,
            version,
            created_directories,
        } = self;
        *id == b.id
            && *created_at == b.created_at
            && *search == b.search
            && *replace == b.replace
            && *styles == b.styles
            && *includes == b.includes
            && *excludes == b.excludes
            && matches.len() == b.matches.len()
            && matches.iter().zip(&b.matches).all(|(x, y)| eq_hunk(x, y))
            && paths.len() == b.paths.len()
            && paths.iter().zip(&b.paths).all(|(x, y)| eq_rename(x, y))
            && eq_stats(stats, &b.stats)
            && *version == b.version
            && *created_directories == b.created_directories
    }
}

impl SameValue for HistoryEntry {
    fn same_value(&self, b: &Self) -> bool {
        let HistoryEntry {
            id,
            created_at,
            search,
            replace,
            styles,
            includes,
            excludes,
            affected_files,
            renames,
            backups_path,
            revert_of,
            redo_of,
        } = self;
        *id == b.id
            && *created_at == b.created_at
            && *search == b.search
            && *replace == b.replace
            && *styles == b.styles
            && *includes == b.includes
            && *excludes == b.excludes
            && *affected_files == b.affected_files
            && *renames == b.renames
            && *backups_path == b.backups_path
            && *revert_of == b.revert_of
            && *redo_of == b.redo_of
    }
}

impl<T: SameValue> SameValue for Vec<T> {
    fn same_value(&self, b: &Self) -> bool {
        self.len() == b.len() && self.iter().zip(b).all(|(x, y)| x.same_value(y))
    }
}

/// `text` is what the code under test wrote to disk; report the decoded document and what loading it gives
fn judge_text<T>(value: &T, text: &str) -> String
where
    T: serde::Serialize + serde::de::DeserializeOwned + SameValue,
{
    let doc: serde_json::Value = match serde_json::from_str(text) {
        Ok(d) => d,
        Err(_) => return "notjson".into(),
    };
    let mut c = String::new();
    canon(&doc, &mut c);
    // the load sites use serde_json::from_str / from_reader on the file content
    match serde_json::from_str::<T>(text) {
        Ok(back) => {
            let same = value.same_value(&back)
                && match serde_json::to_string_pretty(&back) {
                    Ok(t2) => {
                        // maps are unordered: compare the decoded documents
                        serde_json::from_str::<serde_json::Value>(&t2).map(|d2| d2 == doc).unwrap_or(false)
                    },
                    Err(_) => false,
                };
            format!("ok {} de=ok same={}", c, u8::from(same))
        },
        Err(e) => format!("ok {} de={}", c, err_kind(&e.to_string())),
    }
}

/// plan.json exactly as the code writes it: `renamify_core::write_plan` into a scratch file
fn plan_via_write_plan(p: &Plan) -> String {
    let dir = fresh("serde");
    let rdir = dir.join(".renamify");
    let _ = std::fs::create_dir_all(&rdir);
    let path = rdir.join("plan.json");
    let res = renamify_core::write_plan(p, &path);
    let out = match res {
        Err(_) => "sererr".to_string(),
        Ok(()) => match std::fs::read_to_string(&path) {
            Ok(text) => {
                let mut line = judge_text(p, &text);
                // … and through the code's own in-process loader of plan.json that has no side effect: status
                let load = match renamify_core::status_operation(Some(&dir)) {
                    Ok(st) => match st.pending_plan {
                        Some(pp)
                            if pp.id == p.id
                                && pp.search == p.search
                                && pp.replace == p.replace
                                && pp.created_at == p.created_at =>
                        {
                            "ok"
                        },
                        _ => "differs",
                    },
                    Err(_) => "err",
                };
                if line.contains(" de=ok") {
                    line.push_str(&format!(" load={load}"));
                }
                // … and once more OVER an earlier, longer document at the same path (a pending plan that was never
                // applied): the file must hold exactly the new document.  Reported only when it does not.
                let mut big = p.clone();
                big.search.push_str(&"x".repeat(4096));
                if renamify_core::write_plan(&big, &path).is_ok() {
                    match renamify_core::write_plan(p, &path).map(|()| std::fs::read_to_string(&path)) {
                        Ok(Ok(again)) if again == text => {},
                        Ok(Ok(again)) => line.push_str(&format!(
                            " ow=differs:{}+{}",
                            u8::from(again.starts_with(&text)),
                            again.len().saturating_sub(text.len())
                        )),
                        _ => line.push_str(" ow=err"),
                    }
                }
                line
            },
            Err(_) => "notjson".to_string(),
        },
    };
    let _ = std::fs::remove_dir_all(&dir);
    out
}

/// history.json exactly as the code writes it: `History::load` (empty) + `add_entry` (which saves)
fn history_via_save(h: &HistoryEntry) -> String {
    let dir = fresh("serdeh");
    let out = (|| -> String {
        let Ok(mut hist) = renamify_core::history::History::load(&dir) else { return "sererr".into() };
        if hist.add_entry(h.clone()).is_err() {
            return "sererr".into();
        }
        match std::fs::read_to_string(dir.join("history.json")) {
            Ok(text) => {
                let mut line = judge_text(&vec![h.clone()], &text);
                // … and through the code's own loader
                let load = match renamify_core::history::History::load(&dir) {
                    Ok(back) => {
                        let es = back.list_entries(None);
                        if es.len() == 1 && es[0].same_value(h) {
                            "ok"
                        } else {
                            "differs"
                        }
                    },
                    Err(_) => "err",
                };
                if line.contains(" de=ok") {
                    line.push_str(&format!(" load={load}"));
                }
                line
            },
            Err(_) => "notjson".into(),
        }
    })();
    let _ = std::fs::remove_dir_all(&dir);
    out
}

pub fn dispatch(f: &[&str]) -> Option<String> {
    if f.first().copied() != Some("serde") {
        return None;
    }
    let Some(which) = f.get(1).copied() else { return Some("bad-req".into()) };
    let mut c = Cursor::new(&f[2..]);
    Some(match which {
        "plan" => match p_plan(&mut c) {
            Some(p) if c.done() => plan_via_write_plan(&p),
            _ => "bad-req".into(),
        },
        "history" => match p_history(&mut c) {
            Some(h) if c.done() => history_via_save(&h),
            _ => "bad-req".into(),
        },
        _ => "bad-req".into(),
    })
}
