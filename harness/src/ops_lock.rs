//! harness operations for the workspace lock (C12): the real `renamify_core::LockFile` in-process.
//!
//! lockbuild                                  -> debug | release   (overflow checks of this build)
//! lockseq <build> absent | file <tok>*       -> `<outcome> <file after acquire> <file after drop>`
//!     tokens: x<hex> literal bytes | SELF own pid | NOW | NOW-k | NOW+k   (see lean/Driver/OpsLock.lean)
//! lockwit <name>                             -> in-process replay of the witnesses that need no second process
use crate::util::*;
use renamify_core::LockFile;
use std::fs;
use std::panic::{self, AssertUnwindSafe};
use std::path::{Path, PathBuf};
use std::time::{SystemTime, UNIX_EPOCH};

fn now_secs() -> u64 {
    SystemTime::now().duration_since(UNIX_EPOCH).unwrap().as_secs()
}

fn lock_path(dir: &Path) -> PathBuf {
    dir.join("renamify.lock")
}

/// pid of a live process that is not renamify: a `sleep` child of the harness, started once and killed when the
/// harness's stdin closes (it sleeps at most 10 minutes anyway)
static OTHER_CHILD: std::sync::OnceLock<u32> = std::sync::OnceLock::new();

fn other_pid() -> u32 {
    *OTHER_CHILD.get_or_init(|| {
        let child = std::process::Command::new("sleep")
            .arg("600")
            .stdin(std::process::Stdio::null())
            .stdout(std::process::Stdio::null())
            .stderr(std::process::Stdio::null())
            .spawn()
            .expect("spawn sleep");
        let pid = child.id();
        std::mem::forget(child);
        pid
    })
}

/// stop the helper process (called by `lockother stop`)
fn stop_other() -> String {
    let Some(&pid) = OTHER_CHILD.get() else { return "stopped".to_string() };
    unsafe {
        libc::kill(pid as libc::pid_t, libc::SIGKILL);
        libc::waitpid(pid as libc::pid_t, std::ptr::null_mut(), 0);
    }
    "stopped".to_string()
}

fn token(t: &str, now: u64) -> Option<Vec<u8>> {
    if let Some(h) = t.strip_prefix('x') {
        return unhex(if h.is_empty() { "-" } else { h });
    }
    if t == "SELF" {
        return Some(std::process::id().to_string().into_bytes());
    }
    if t == "OTHER" {
        return Some(other_pid().to_string().into_bytes());
    }
    if t == "NOW" {
        return Some(now.to_string().into_bytes());
    }
    if let Some(k) = t.strip_prefix("NOW-") {
        let k: u64 = k.parse().ok()?;
        return Some(now.saturating_sub(k).to_string().into_bytes());
    }
    if let Some(k) = t.strip_prefix("NOW+") {
        let k: u64 = k.parse().ok()?;
        return Some((now + k).to_string().into_bytes());
    }
    None
}

/// canonical description of the lock file: absent | unchanged | SELF:NOW | other:<hex>
fn show_file(dir: &Path, injected: Option<&[u8]>, t0: u64) -> String {
    let p = lock_path(dir);
    match fs::read(&p) {
        Err(_) => "absent".to_string(),
        Ok(bytes) => {
            if let Some(inj) = injected {
                if inj == bytes.as_slice() {
                    return "unchanged".to_string();
                }
            }
            if is_self_now(&bytes, t0) {
                "SELF:NOW".to_string()
            } else {
                format!("other:{}", hex(&bytes))
            }
        },
    }
}

fn is_self_now(bytes: &[u8], t0: u64) -> bool {
    let Ok(s) = std::str::from_utf8(bytes) else { return false };
    let parts: Vec<&str> = s.split(':').collect();
    if parts.len() != 2 {
        return false;
    }
    let (Ok(pid), Ok(ts)) = (parts[0].parse::<u32>(), parts[1].parse::<u64>()) else { return false };
    pid == std::process::id() && ts + 2 >= t0 && ts <= t0 + 2
}

enum Outcome {
    Acquired(LockFile),
    Refused(String),
    Panic,
}

fn classify(msg: &str) -> String {
    if let Some(i) = msg.find("already running (PID: ") {
        let rest = &msg[i + "already running (PID: ".len()..];
        let pid: String = rest.chars().take_while(|c| c.is_ascii_digit()).collect();
        let shown = if pid == std::process::id().to_string() {
            "SELF".to_string()
        } else if OTHER_CHILD.get().is_some_and(|p| pid == p.to_string()) {
            "OTHER".to_string()
        } else {
            pid
        };
        return format!("already-running:{}", shown);
    }
    if msg.contains("Failed to create lock file") {
        return "eexist".to_string();
    }
    if msg.contains("Failed to read lock file content") {
        return "io-error:read-content".to_string();
    }
    if msg.contains("Failed to read lock file") {
        return "io-error:read".to_string();
    }
    if msg.contains("Failed to remove stale lock file") {
        return "io-error:remove-stale".to_string();
    }
    if msg.contains("Failed to remove unparsable lock file") {
        return "io-error:remove-unparsable".to_string();
    }
    if msg.contains("Failed to remove empty lock file") {
        return "io-error:remove-empty".to_string();
    }
    if msg.contains("Failed to remove orphaned lock file") {
        return "io-error:remove-orphaned".to_string();
    }
    format!("io-error:other:{}", hex(msg.as_bytes()))
}

fn try_acquire(dir: &Path) -> Outcome {
    let d = dir.to_path_buf();
    match panic::catch_unwind(AssertUnwindSafe(|| LockFile::acquire(&d))) {
        Err(_) => Outcome::Panic,
        Ok(Ok(l)) => Outcome::Acquired(l),
        Ok(Err(e)) => Outcome::Refused(classify(&format!("{e:#}"))),
    }
}

fn lockseq(fields: &[&str]) -> String {
    // fields[0] = build (informational: must equal `lockbuild`), then `absent` | `file` tok*
    if fields.len() < 2 {
        return "bad-req".to_string();
    }
    let ws = fresh("lockseq");
    let dir = ws.join(".renamify");
    fs::create_dir_all(&dir).unwrap();
    let t0 = now_secs();
    let injected: Option<Vec<u8>> = match fields[1] {
        "absent" if fields.len() == 2 => None,
        "file" => {
            let mut bytes = vec![];
            for t in &fields[2..] {
                match token(t, t0) {
                    Some(b) => bytes.extend(b),
                    None => return "bad-req".to_string(),
                }
            }
            fs::write(lock_path(&dir), &bytes).unwrap();
            Some(bytes)
        },
        _ => return "bad-req".to_string(),
    };
    let out = try_acquire(&dir);
    let after = show_file(&dir, injected.as_deref(), t0);
    let line = match out {
        Outcome::Acquired(lock) => {
            drop(lock);
            let gone = !lock_path(&dir).exists();
            format!("acquired {} {}", after, if gone { "gone" } else { "present" })
        },
        Outcome::Refused(what) => format!("{} {} -", what, after),
        Outcome::Panic => format!("panic {} -", after),
    };
    let _ = fs::remove_dir_all(&ws);
    line
}

/// witnesses that can be re-observed from one process: the second "process" is a second `LockFile`
/// value in this process (same pid, which is alive — exactly what a live holder looks like).
fn lockwit(fields: &[&str]) -> String {
    let Some(name) = fields.first() else { return "bad-req".to_string() };
    let ws = fresh("lockwit");
    let dir = ws.join(".renamify");
    fs::create_dir_all(&dir).unwrap();
    let me = std::process::id();
    let line = match *name {
        // the safe case: a live, recent holder keeps a second acquire out; drop removes the file
        "double_acquire" => {
            let Outcome::Acquired(a) = try_acquire(&dir) else { return "first-acquire-failed".to_string() };
            let second = match try_acquire(&dir) {
                Outcome::Acquired(_b) => "acquired".to_string(),
                Outcome::Refused(w) => format!("refused:{}", w),
                Outcome::Panic => "panic".to_string(),
            };
            drop(a);
            format!("second={} file-after-drop={}", second, if lock_path(&dir).exists() { "present" } else { "gone" })
        },
        // holder older than the stale timeout: its file says `SELF:now-301` (the state after 301 s of work)
        "stale_live_evicted" | "drop_removes_foreign" => {
            let Outcome::Acquired(a) = try_acquire(&dir) else { return "first-acquire-failed".to_string() };
            fs::write(lock_path(&dir), format!("{}:{}", me, now_secs() - 301)).unwrap();
            // both "processes" have this process's pid: make sure the second lock at least gets another
            // timestamp than the first, as two real processes would differ in the pid
            let t_first = now_secs();
            while now_secs() == t_first {
                std::thread::sleep(std::time::Duration::from_millis(20));
            }
            let t0 = now_secs();
            match try_acquire(&dir) {
                Outcome::Acquired(b) => {
                    let file = show_file(&dir, None, t0);
                    if *name == "stale_live_evicted" {
                        let s = format!("second=acquired holders=2 file={}", file);
                        drop(b);
                        drop(a);
                        s
                    } else {
                        // the evicted first holder finishes: Drop removes the second holder's file
                        drop(a);
                        let after = if lock_path(&dir).exists() { "present" } else { "gone" };
                        let third = match try_acquire(&dir) {
                            Outcome::Acquired(c) => {
                                drop(c);
                                "acquired".to_string()
                            },
                            Outcome::Refused(w) => format!("refused:{}", w),
                            Outcome::Panic => "panic".to_string(),
                        };
                        drop(b);
                        format!("second=acquired file-after-first-drop={} third={}", after, third)
                    }
                },
                Outcome::Refused(w) => {
                    drop(a);
                    format!("second=refused:{} holders=1", w)
                },
                Outcome::Panic => {
                    drop(a);
                    "second=panic".to_string()
                },
            }
        },
        _ => "bad-req".to_string(),
    };
    let _ = fs::remove_dir_all(&ws);
    line
}

pub fn dispatch(fields: &[&str]) -> Option<String> {
    match fields.first().copied() {
        Some("lockbuild") => Some(if cfg!(debug_assertions) { "debug" } else { "release" }.to_string()),
        Some("lockseq") => Some(lockseq(&fields[1..])),
        Some("lockother") => Some(stop_other()),
        Some("lockwit") => Some(lockwit(&fields[1..])),
        _ => None,
    }
}
