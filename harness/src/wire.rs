//! wire format for trees and plans (mirror of lean/Driver/Wire.lean)
use crate::util::*;
use std::fs;
use std::os::unix::fs::PermissionsExt;
use std::path::{Path, PathBuf};

#[derive(Clone, Debug)]
pub enum Node {
    File(Vec<u8>, u32),
    Dir(u32),
    Link(Vec<u8>),
}

pub struct Cursor<'a> {
    pub f: &'a [&'a str],
    pub i: usize,
}

impl<'a> Cursor<'a> {
    pub fn new(f: &'a [&'a str]) -> Self {
        Self { f, i: 0 }
    }
    pub fn next(&mut self) -> Option<&'a str> {
        let x = self.f.get(self.i).copied();
        self.i += 1;
        x
    }
    pub fn done(&self) -> bool {
        self.i >= self.f.len()
    }
    pub fn counted(&mut self, tag: &str) -> Option<usize> {
        if self.next()? != tag {
            return None;
        }
        self.next()?.parse().ok()
    }
}

pub fn relpath(hexs: &str) -> Option<PathBuf> {
    use std::os::unix::ffi::OsStringExt;
    let b = unhex(hexs)?;
    Some(PathBuf::from(std::ffi::OsString::from_vec(b)))
}

pub fn parse_tree(c: &mut Cursor) -> Option<Vec<(PathBuf, Node)>> {
    let n = c.counted("T")?;
    let mut v = vec![];
    for _ in 0..n {
        match c.next()? {
            "f" => {
                let p = relpath(c.next()?)?;
                let content = unhex(c.next()?)?;
                let m = u32::from_str_radix(c.next()?, 8).ok()?;
                v.push((p, Node::File(content, m)));
            },
            "d" => {
                let p = relpath(c.next()?)?;
                let m = u32::from_str_radix(c.next()?, 8).ok()?;
                v.push((p, Node::Dir(m)));
            },
            "l" => {
                let p = relpath(c.next()?)?;
                let t = unhex(c.next()?)?;
                v.push((p, Node::Link(t)));
            },
            _ => return None,
        }
    }
    Some(v)
}

pub struct WHunk {
    pub file: PathBuf,
    pub before: String,
    pub after: String,
    pub start: usize,
    pub end: usize,
}

pub fn parse_hunks(c: &mut Cursor) -> Option<Vec<WHunk>> {
    let n = c.counted("H")?;
    let mut v = vec![];
    for _ in 0..n {
        let file = relpath(c.next()?)?;
        let before = unhex_str(c.next()?)?;
        let after = unhex_str(c.next()?)?;
        let start = c.next()?.parse().ok()?;
        let end = c.next()?.parse().ok()?;
        v.push(WHunk { file, before, after, start, end });
    }
    Some(v)
}

pub struct WRen {
    pub dir: bool,
    pub path: PathBuf,
    pub new_path: PathBuf,
}

pub fn parse_rens(c: &mut Cursor) -> Option<Vec<WRen>> {
    let n = c.counted("R")?;
    let mut v = vec![];
    for _ in 0..n {
        let k = c.next()?;
        let path = relpath(c.next()?)?;
        let new_path = relpath(c.next()?)?;
        v.push(WRen { dir: k == "d", path, new_path });
    }
    Some(v)
}

pub fn materialize(root: &Path, tree: &[(PathBuf, Node)]) {
    use std::os::unix::ffi::OsStringExt;
    let mut t: Vec<_> = tree.to_vec();
    t.sort_by_key(|(p, _)| p.components().count());
    for (p, n) in &t {
        let full = root.join(p);
        if let Some(par) = full.parent() {
            fs::create_dir_all(par).unwrap();
        }
        match n {
            Node::Dir(_) => fs::create_dir_all(&full).unwrap(),
            Node::File(c, _) => fs::write(&full, c).unwrap(),
            Node::Link(tg) => {
                std::os::unix::fs::symlink(std::ffi::OsString::from_vec(tg.clone()), &full).unwrap()
            },
        }
    }
    for (p, n) in t.iter().rev() {
        let full = root.join(p);
        match n {
            Node::Dir(m) | Node::File(_, m) => {
                fs::set_permissions(&full, fs::Permissions::from_mode(*m)).unwrap()
            },
            Node::Link(_) => {},
        }
    }
}

fn walk(root: &Path, dir: &Path, skip_top: &[&str], out: &mut Vec<String>) {
    use std::os::unix::ffi::OsStrExt;
    let Ok(rd) = fs::read_dir(dir) else { return };
    for e in rd.flatten() {
        let p = e.path();
        if dir == root {
            if let Some(n) = p.file_name().and_then(|s| s.to_str()) {
                if skip_top.contains(&n) {
                    continue;
                }
            }
        }
        let rel = p.strip_prefix(root).unwrap();
        let relhex = hex(rel.as_os_str().as_bytes());
        let md = fs::symlink_metadata(&p).unwrap();
        if md.file_type().is_symlink() {
            let t = fs::read_link(&p).unwrap();
            out.push(format!("l:{}:{}", relhex, hex(t.as_os_str().as_bytes())));
        } else if md.is_dir() {
            out.push(format!("d:{}:{:o}", relhex, md.permissions().mode() & 0o7777));
            walk(root, &p, skip_top, out);
        } else {
            let c = fs::read(&p).unwrap_or_default();
            out.push(format!("f:{}:{:o}:{}", relhex, md.permissions().mode() & 0o7777, hex(&c)));
        }
    }
}

pub fn show_tree(root: &Path) -> String {
    let mut v = vec![];
    walk(root, root, &[".renamify"], &mut v);
    v.sort();
    v.join(" ")
}

pub fn cleanup(root: &Path) {
    // make everything removable again
    fn fix(p: &Path) {
        if let Ok(md) = fs::symlink_metadata(p) {
            if md.is_dir() {
                let _ = fs::set_permissions(p, fs::Permissions::from_mode(0o755));
                if let Ok(rd) = fs::read_dir(p) {
                    for e in rd.flatten() {
                        fix(&e.path());
                    }
                }
            }
        }
    }
    fix(root);
    let _ = fs::remove_dir_all(root);
}
