//! C16: panic / no panic of public renamify-core entry points on hostile inputs, each under `catch_unwind`.
//!   panic_boundary <bytes> <start> <end>      pattern::is_boundary
//!   panic_tokens   <utf8>                      parse_to_tokens
//!   panic_lock     <lock file bytes> <now>     LockFile::acquire on an existing lock file (`now` is for the model only)
//!   panic_coerce   <container> <old> <new>     coercion::apply_coercion   (old must not be empty: the loop would not return)
//! Result: `panic` | `nopanic`.
use crate::util::*;
use std::panic::{catch_unwind, AssertUnwindSafe};

fn verdict<T>(r: std::thread::Result<T>) -> String {
    if r.is_ok() { "nopanic".into() } else { "panic".into() }
}

pub fn dispatch(f: &[&str]) -> Option<String> {
    match f.first().copied() {
        Some("panic_boundary") => {
            if f.len() != 4 { return Some("bad-req".into()); }
            let (Some(b), Ok(s), Ok(e)) = (unhex(f[1]), f[2].parse::<usize>(), f[3].parse::<usize>()) else { return Some("bad-req".into()) };
            Some(verdict(catch_unwind(|| renamify_core::is_boundary(&b, s, e))))
        },
        Some("panic_tokens") => {
            if f.len() != 2 { return Some("bad-req".into()); }
            let Some(s) = unhex_str(f[1]) else { return Some("bad-req".into()) };
            Some(verdict(catch_unwind(|| renamify_core::parse_to_tokens(&s))))
        },
        Some("panic_lock") => {
            if f.len() != 3 { return Some("bad-req".into()); }
            let Some(c) = unhex(f[1]) else { return Some("bad-req".into()) };
            let dir = fresh("l");
            let rdir = dir.join(".renamify");
            std::fs::create_dir_all(&rdir).unwrap();
            std::fs::write(rdir.join("renamify.lock"), &c).unwrap();
            let r = catch_unwind(AssertUnwindSafe(|| {
                let l = renamify_core::LockFile::acquire(&rdir);
                drop(l);
            }));
            let _ = std::fs::remove_dir_all(&dir);
            Some(verdict(r))
        },
        Some("panic_coerce") => {
            if f.len() != 4 { return Some("bad-req".into()); }
            let (Some(c), Some(o), Some(n)) = (unhex_str(f[1]), unhex_str(f[2]), unhex_str(f[3])) else { return Some("bad-req".into()) };
            if o.is_empty() { return Some("bad-req".into()); }
            Some(verdict(catch_unwind(|| renamify_core::coercion::apply_coercion(&c, &o, &n))))
        },
        _ => None,
    }
}
