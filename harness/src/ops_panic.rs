//! C16: panic / no panic of public renamify-core entry points on hostile inputs, each under `catch_unwind`.
//!   panic_boundary <bytes> <start> <end>      pattern::is_boundary
//!   panic_tokens   <utf8>                      parse_to_tokens
//!   panic_lock     <lock file bytes> <now>     LockFile::acquire on an existing lock file (`now` is for the model only)
//!   panic_coerce   <container> <old> <new>     coercion::apply_coercion   (old must not be empty: the loop would not return)
//!   panic_tokens_acr <utf8> <acronym>...      parse_to_tokens_with_acronyms with a custom acronym set
//!   panic_edits    <orig> (<before> <after> <start> <end>)*   apply_plan on one file (stale / hostile offsets)
//!   panic_vmap     <search> <replace>          generate_variant_map: `no-empty-key` | `empty-key`
//!   panic_upper    <utf8>                      case_constraints::can_match_style (reaches has_consecutive_uppercase)
//!   panic_find     <content> <variant>...      build_pattern + find_matches
//!   panic_replace  <content> <pattern> <replacement> <regex|literal>   scanner::create_simple_plan (the planner of `replace`)
//!   panic_compound <identifier> <old> <new>   compound_matcher::find_compound_variants, all styles
//! Result: `panic` | `nopanic` (panic_vmap: `panic` | `no-empty-key` | `empty-key`).
use crate::util::*;
use std::panic::{catch_unwind, AssertUnwindSafe};

fn verdict<T>(r: std::thread::Result<T>) -> String {
    if r.is_ok() { "nopanic".into() } else { "panic".into() }
}

pub fn dispatch(f: &[&str]) -> Option<String> {
    match f.first().copied() {
        Some("panic_boundary") => {
            if f.len() != 4 { return Some("bad-req".into()); }
            let (Some(b), Ok(s), Ok(e)) = (unhex(f[1]), f[2].parse::<usize>(), f[3].parse::<usize>()) else { return Some("bad-req".into()) };
            Some(verdict(catch_unwind(|| renamify_core::is_boundary(&b, s, e))))
        },
        Some("panic_tokens") => {
            if f.len() != 2 { return Some("bad-req".into()); }
            let Some(s) = unhex_str(f[1]) else { return Some("bad-req".into()) };
            Some(verdict(catch_unwind(|| renamify_core::parse_to_tokens(&s))))
        },
        Some("panic_lock") => {
            if f.len() != 3 { return Some("bad-req".into()); }
            let Some(c) = unhex(f[1]) else { return Some("bad-req".into()) };
            let dir = fresh("l");
            let rdir = dir.join(".renamify");
            std::fs::create_dir_all(&rdir).unwrap();
            std::fs::write(rdir.join("renamify.lock"), &c).unwrap();
            let r = catch_unwind(AssertUnwindSafe(|| {
                let l = renamify_core::LockFile::acquire(&rdir);
                drop(l);
            }));
            let _ = std::fs::remove_dir_all(&dir);
            Some(verdict(r))
        },
        Some("panic_coerce") => {
            if f.len() != 4 { return Some("bad-req".into()); }
            let (Some(c), Some(o), Some(n)) = (unhex_str(f[1]), unhex_str(f[2]), unhex_str(f[3])) else { return Some("bad-req".into()) };
            if o.is_empty() { return Some("bad-req".into()); }
            Some(verdict(catch_unwind(|| renamify_core::coercion::apply_coercion(&c, &o, &n))))
        },
        Some("panic_tokens_acr") => {
            if f.len() < 2 { return Some("bad-req".into()); }
            let Some(s) = unhex_str(f[1]) else { return Some("bad-req".into()) };
            let mut acrs = vec![];
            for a in &f[2..] {
                let Some(x) = unhex_str(a) else { return Some("bad-req".into()) };
                acrs.push(x);
            }
            Some(verdict(catch_unwind(AssertUnwindSafe(|| {
                let set = renamify_core::acronym::AcronymSet::from_list(&acrs);
                renamify_core::case_model::parse_to_tokens_with_acronyms(&s, &set)
            }))))
        },
        Some("panic_edits") => {
            if f.len() < 2 { return Some("bad-req".into()); }
            let r = crate::ops_edits::edits(&f[1..]);
            if r == "bad-req" { return Some(r); }
            Some(if r == "panic" { "panic".into() } else { "nopanic".into() })
        },
        Some("panic_vmap") => {
            if f.len() != 3 { return Some("bad-req".into()); }
            let (Some(s), Some(r)) = (unhex_str(f[1]), unhex_str(f[2])) else { return Some("bad-req".into()) };
            match catch_unwind(|| renamify_core::case_model::generate_variant_map(&s, &r, None)) {
                Err(_) => Some("panic".into()),
                Ok(m) => Some(if m.keys().any(|k| k.is_empty()) { "empty-key".into() } else { "no-empty-key".into() }),
            }
        },
        Some("panic_upper") => {
            if f.len() != 2 { return Some("bad-req".into()); }
            let Some(s) = unhex_str(f[1]) else { return Some("bad-req".into()) };
            Some(verdict(catch_unwind(|| {
                (
                    renamify_core::case_constraints::can_match_style(&s, renamify_core::case_model::Style::Camel),
                    renamify_core::case_constraints::can_match_style(&s, renamify_core::case_model::Style::Pascal),
                )
            })))
        },
        Some("panic_find") => {
            if f.len() < 2 { return Some("bad-req".into()); }
            let Some(c) = unhex(f[1]) else { return Some("bad-req".into()) };
            let mut vars = vec![];
            for a in &f[2..] {
                let Some(x) = unhex_str(a) else { return Some("bad-req".into()) };
                vars.push(x);
            }
            Some(verdict(catch_unwind(AssertUnwindSafe(|| {
                renamify_core::build_pattern(&vars).map(|p| renamify_core::find_matches(&p, &c, "f").len())
            }))))
        },
        Some("panic_replace") => {
            // panic_replace <file content> <pattern> <replacement> <regex|literal>: scanner::create_simple_plan on a one-file tree
            if f.len() != 5 { return Some("bad-req".into()); }
            let (Some(c), Some(p), Some(r)) = (unhex(f[1]), unhex_str(f[2]), unhex_str(f[3])) else { return Some("bad-req".into()) };
            if p.is_empty() && f[4] != "regex" { return Some("nopanic".into()); }
            let dir = fresh("r");
            std::fs::write(dir.join("a.txt"), &c).unwrap();
            let opts = renamify_core::scanner::PlanOptions::default();
            let is_regex = f[4] == "regex";
            let res = catch_unwind(AssertUnwindSafe(|| {
                renamify_core::scanner::create_simple_plan(&p, &r, vec![dir.clone()], &opts, is_regex).map(|pl| pl.matches.len()).ok()
            }));
            let _ = std::fs::remove_dir_all(&dir);
            Some(verdict(res))
        },
        Some("panic_compound") => {
            if f.len() != 4 { return Some("bad-req".into()); }
            let (Some(i), Some(o), Some(n)) = (unhex_str(f[1]), unhex_str(f[2]), unhex_str(f[3])) else { return Some("bad-req".into()) };
            Some(verdict(catch_unwind(|| {
                renamify_core::compound_matcher::find_compound_variants(&i, &o, &n, &renamify_core::case_model::Style::all_styles()).len()
            })))
        },
        _ => None,
    }
}
