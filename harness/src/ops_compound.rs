//! compound-matcher operations (C07): real `find_compound_variants`, `IdentifierExtractor::find_all`,
//! `find_enhanced_matches`, `is_boundary`, and a one-file `scan_repository` + `apply_plan` round.
//!
//!   compound    <identifier> <search> <replace> <styles>      -> `c none` | `c <full>:<replacement>:<style>`
//!   identifiers <content> <styles>                            -> `i <start>:<end>:<text> ...`
//!   boundary    <content> <start> <end>                       -> `b true|false|oob`
//!   enhanced    <content> <search> <replace> <styles>         -> `e <start>:<end>:<variant>:<text> ...`
//!               (variant table = for every style of the list: search tokens in that style -> replace tokens in
//!                that style; no plural rows, no as-typed row; `additional_lines` = None)
//!   planfile    <content> <search> <replace> <styles|cli|none> [noplural] [nocoerce]
//!               -> `p <n> <start>:<end>:<content>:<replace> ... | <resulting file bytes>`  (real scan_repository on a
//!                  one-file tree `f.txt`, then real apply_plan; implementation only, no model counterpart)
//! byte strings hex, `-` = empty; styles = comma list of style names.
use crate::ops_case::{style_name, style_of};
use crate::util::*;
use renamify_core::case_model::{parse_to_tokens, to_style, Style};
use renamify_core::compound_matcher::find_compound_variants;
use renamify_core::compound_scanner::{find_enhanced_matches, IdentifierExtractor};
use renamify_core::scanner::{CoercionMode, PlanOptions, VariantMap};
use renamify_core::{apply_plan, is_boundary, scan_repository, ApplyOptions};
use std::fs;

fn styles_of(s: &str) -> Option<Vec<Style>> {
    if s == "-" {
        return Some(vec![]);
    }
    let mut v = vec![];
    for n in s.split(',') {
        v.push(style_of(n)?);
    }
    Some(v)
}

fn compound(f: &[&str]) -> String {
    let (Some(id), Some(s), Some(r), Some(styles)) = (unhex_str(f[0]), unhex_str(f[1]), unhex_str(f[2]), styles_of(f[3]))
    else {
        return "bad-req".into();
    };
    let ms = find_compound_variants(&id, &s, &r, &styles);
    if ms.is_empty() {
        return "c none".into();
    }
    let mut out = vec!["c".to_string()];
    for m in ms {
        out.push(format!(
            "{}:{}:{}",
            hex(m.full_identifier.as_bytes()),
            hex(m.replacement.as_bytes()),
            style_name(m.style)
        ));
    }
    out.join(" ")
}

fn identifiers(f: &[&str]) -> String {
    let (Some(content), Some(styles)) = (unhex(f[0]), styles_of(f[1])) else { return "bad-req".into() };
    let ex = IdentifierExtractor::new(&styles);
    let mut out = vec!["i".to_string()];
    for (s, e, t) in ex.find_all(&content) {
        out.push(format!("{}:{}:{}", s, e, hex(t.as_bytes())));
    }
    out.join(" ")
}

fn boundary(f: &[&str]) -> String {
    let (Some(content), Ok(s), Ok(e)) = (unhex(f[0]), f[1].parse::<usize>(), f[2].parse::<usize>()) else {
        return "bad-req".into();
    };
    if s > e || e > content.len() || s >= content.len() {
        return "b oob".into();
    }
    format!("b {}", is_boundary(&content, s, e))
}

/// the exact-style rows of `scanner::generate_variant_map_with_acronyms` for an explicit style list
fn table(search: &str, replace: &str, styles: &[Style]) -> VariantMap {
    let old = parse_to_tokens(search);
    let new = parse_to_tokens(replace);
    let mut m = VariantMap::new();
    for st in styles {
        m.insert(to_style(&old, *st), Some(*st), to_style(&new, *st));
    }
    m
}

fn enhanced(f: &[&str]) -> String {
    let (Some(content), Some(s), Some(r), Some(styles)) = (unhex(f[0]), unhex_str(f[1]), unhex_str(f[2]), styles_of(f[3]))
    else {
        return "bad-req".into();
    };
    let vm = table(&s, &r, &styles);
    let ex = IdentifierExtractor::new(&styles);
    let ms = find_enhanced_matches(&content, "f", &s, &r, &vm, &styles, &ex, None);
    let mut out = vec!["e".to_string()];
    for m in ms {
        out.push(format!("{}:{}:{}:{}", m.start, m.end, hex(m.variant.as_bytes()), hex(m.text.as_bytes())));
    }
    out.join(" ")
}

fn planfile(f: &[&str]) -> String {
    let (Some(content), Some(s), Some(r)) = (unhex(f[0]), unhex_str(f[1]), unhex_str(f[2])) else {
        return "bad-req".into();
    };
    let styles = match f[3] {
        "none" => None,
        "cli" => Some(Style::default_styles()),
        l => match styles_of(l) {
            Some(v) => Some(v),
            None => return "bad-req".into(),
        },
    };
    let root = fresh("c07");
    let file = root.join("f.txt");
    fs::write(&file, &content).unwrap();
    let mut opts = PlanOptions::default();
    opts.styles = styles;
    opts.rename_files = false;
    opts.rename_dirs = false;
    opts.unrestricted_level = 2;
    for extra in &f[4..] {
        match *extra {
            "noplural" => opts.enable_plural_variants = false,
            "nocoerce" => opts.coerce_separators = CoercionMode::Off,
            _ => return "bad-req".into(),
        }
    }
    let plan = scan_repository(&root, &s, &r, &opts);
    let out = match plan {
        Err(e) => format!("p err:{}", hex(format!("{:#}", e).as_bytes())),
        Ok(mut plan) => {
            let mut parts = vec![format!("p {}", plan.matches.len())];
            for h in &plan.matches {
                parts.push(format!("{}:{}:{}:{}", h.start, h.end, hex(h.content.as_bytes()), hex(h.replace.as_bytes())));
            }
            let aopts = ApplyOptions {
                create_backups: false,
                backup_dir: root.join(".renamify/backups"),
                commit: false,
                force: true,
                skip_symlinks: true,
                log_file: None,
            };
            let res = if plan.matches.is_empty() { Ok(()) } else { apply_plan(&mut plan, &aopts) };
            match res {
                Ok(()) => {
                    let after = fs::read(&file).unwrap_or_default();
                    parts.push("|".into());
                    parts.push(hex(&after));
                },
                Err(e) => {
                    parts.push("|".into());
                    parts.push(format!("applyerr:{}", hex(format!("{:#}", e).as_bytes())));
                },
            }
            parts.join(" ")
        },
    };
    let _ = fs::remove_dir_all(&root);
    out
}

pub fn dispatch(f: &[&str]) -> Option<String> {
    match f.first().copied() {
        Some("compound") if f.len() == 5 => Some(compound(&f[1..])),
        Some("identifiers") if f.len() == 3 => Some(identifiers(&f[1..])),
        Some("boundary") if f.len() == 4 => Some(boundary(&f[1..])),
        Some("enhanced") if f.len() == 5 => Some(enhanced(&f[1..])),
        Some("planfile") if f.len() >= 5 => Some(planfile(&f[1..])),
        Some("compound" | "identifiers" | "boundary" | "enhanced" | "planfile") => Some("bad-req".into()),
        _ => None,
    }
}
