//! `applytree T n … H n … R n …`: real `apply_plan` on a materialised tree; prints outcome + user tree.
use crate::ops_edits::{mk_hunk, mk_plan};
use crate::util::*;
use crate::wire::*;
use renamify_core::scanner::{Plan, Rename, RenameKind};
use renamify_core::{apply_plan, ApplyOptions};
use std::path::Path;

pub fn build_plan(root: &Path, hunks: &[WHunk], rens: &[WRen], id: &str) -> Plan {
    let hs = hunks
        .iter()
        .map(|h| mk_hunk(&root.join(&h.file), h.before.clone(), h.after.clone(), h.start, h.end))
        .collect();
    let rs = rens
        .iter()
        .map(|r| Rename {
            path: root.join(&r.path),
            new_path: root.join(&r.new_path),
            kind: if r.dir { RenameKind::Dir } else { RenameKind::File },
            coercion_applied: None,
        })
        .collect();
    mk_plan(id, hs, rs)
}

pub fn classify(res: std::thread::Result<anyhow::Result<()>>) -> String {
    match res {
        Err(_) => "panic".to_string(),
        Ok(Ok(())) => "ok".to_string(),
        Ok(Err(e)) => {
            let m = format!("{:#}", e);
            if m.contains("Content mismatch") {
                "mismatch".into()
            } else if m.contains("destination already exists") {
                "destexists".into()
            } else if m.contains("both would end up at the same path") {
                "shareddest".into()
            } else if m.contains("Rollback encountered errors") {
                "rollbackfailed".into()
            } else if m.contains("Failed to read current content") {
                "backupfailed".into()
            } else if m.contains("Failed to read") || m.contains("Failed to get metadata") {
                "unreadable".into()
            } else if m.contains("Failed to rename") {
                "renamefailed".into()
            } else {
                format!("err:{}", hex(m.as_bytes()))
            }
        },
    }
}

pub fn opts_for(root: &Path) -> ApplyOptions {
    ApplyOptions {
        create_backups: true,
        backup_dir: root.join(".renamify/backups"),
        commit: false,
        force: false,
        skip_symlinks: true,
        log_file: Some(root.join(".renamify/apply.log")),
    }
}

pub fn applytree(f: &[&str]) -> String {
    let mut c = Cursor::new(f);
    let (Some(tree), Some(hunks), Some(rens)) = (parse_tree(&mut c), parse_hunks(&mut c), parse_rens(&mut c)) else {
        return "bad-req".into();
    };
    if !c.done() {
        return "bad-req".into();
    }
    let root = fresh("t");
    materialize(&root, &tree);
    let mut plan = build_plan(&root, &hunks, &rens, "p1");
    let opts = opts_for(&root);
    let res = std::panic::catch_unwind(std::panic::AssertUnwindSafe(|| apply_plan(&mut plan, &opts)));
    let out = format!("{} {}", classify(res), show_tree(&root));
    cleanup(&root);
    out
}

pub fn dispatch(f: &[&str]) -> Option<String> {
    match f.first().copied() {
        Some("applytree") => Some(applytree(&f[1..])),
        _ => None,
    }
}
