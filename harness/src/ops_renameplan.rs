//! rename-planner operations (C08): the real `plan_renames_with_search`, `plan_renames_with_conflicts`
//! and `scan_repository_multi` on a materialised tree, plus the variant map with the per-key
//! ambiguity information the planner derives from it.
//!
//!   c08vmap <search> <replace> <styles|default> <plural 0|1>
//!       -> v <key>=<value>=<resolved|!> ...            (BTreeMap order)
//!   planrenames <mode> <flags> <cwd> <search> <replace> <styles|default> <plural> ROOTS n <root>.. V n (<k> <v> <a>).. T n <nodes>..
//!       mode search : plan_renames_with_search on the first root with the given map
//!       mode conf   : plan_renames_with_conflicts on the first root with the given map (renames + conflicts)
//!       mode scan   : scan_repository_multi on all roots (builds its own map from search/replace/styles)
//!       optional tail after the tree: S <level> I n <include>.. X n <exclude>.. G n (<kind> <dir> <path>)..  (unrestricted level,
//!       glob patterns; G = ignore facts for the model, the ignore files themselves are in the tree)
//!       flags: f = rename_files, d = rename_dirs, c = coercion auto   (`-` = none)
//!       -> ok <f|d>:<path>><newpath> ... [| <m|w>:<target><<src>,<src> ...]   |  refused <n>  |  error
//! Paths are relative to a fresh base directory; <cwd> (relative to it) becomes the working directory.
use crate::ops_case::style_of;
use crate::util::*;
use crate::wire::*;
use renamify_core::ambiguity::{is_ambiguous, AmbiguityContext, AmbiguityResolver};
use renamify_core::case_constraints::filter_compatible_styles;
use renamify_core::case_model::Style;
use renamify_core::rename::{plan_renames_with_conflicts, plan_renames_with_search, ConflictKind};
use renamify_core::scanner::{CoercionMode, PlanOptions, Rename, RenameKind};
use renamify_core::{parse_to_tokens, scan_repository_multi, to_style};
use std::collections::BTreeMap;
use std::os::unix::ffi::OsStrExt;
use std::path::{Path, PathBuf};

fn styles_of(s: &str) -> Option<Option<Vec<Style>>> {
    if s == "default" {
        return Some(None);
    }
    let mut v = vec![];
    for n in s.split(',') {
        v.push(style_of(n)?);
    }
    Some(Some(v))
}

fn vmap(f: &[&str]) -> String {
    let (Some(search), Some(replace), Some(styles)) = (unhex_str(f[1]), unhex_str(f[2]), styles_of(f[3])) else {
        return "bad-req".into();
    };
    let plural = f[4] == "1";
    let map = renamify_core::case_model::generate_variant_map_with_atomic_and_plurals(
        &search,
        &replace,
        styles.as_deref(),
        None,
        plural,
    );
    let resolver = AmbiguityResolver::new();
    let mut out = vec!["v".to_string()];
    for (k, v) in &map {
        // the ambiguous branch of rename.rs::determine_filename_replacement, through the public API
        let a = if is_ambiguous(k, &Style::all_styles()) {
            let possible = filter_compatible_styles(&replace, &Style::all_styles());
            let ctx = AmbiguityContext {
                file_path: None,
                file_content: None,
                line_content: None,
                match_position: None,
                project_root: None,
            };
            let resolved = resolver.resolve_with_styles(k, &replace, &ctx, Some(&possible));
            hex(to_style(&parse_to_tokens(&replace), resolved.style).as_bytes())
        } else {
            "!".to_string()
        };
        out.push(format!("{}={}={}", hex(k.as_bytes()), hex(v.as_bytes()), a));
    }
    out.join(" ")
}

fn rel(base: &Path, p: &Path) -> String {
    match p.strip_prefix(base) {
        Ok(r) => hex(r.as_os_str().as_bytes()),
        Err(_) => format!("ABS{}", hex(p.as_os_str().as_bytes())),
    }
}

fn show_renames(base: &Path, rs: &[Rename]) -> Vec<String> {
    let mut v: Vec<String> = rs
        .iter()
        .map(|r| {
            format!(
                "{}:{}>{}",
                if matches!(r.kind, RenameKind::Dir) { "d" } else { "f" },
                rel(base, &r.path),
                rel(base, &r.new_path)
            )
        })
        .collect();
    v.sort();
    v
}

fn refused(msg: &str) -> String {
    // "Found N rename conflicts:" (possibly wrapped in context)
    if let Some(i) = msg.find("Found ") {
        let rest = &msg[i + 6..];
        let n: String = rest.chars().take_while(|c| c.is_ascii_digit()).collect();
        if !n.is_empty() && rest[n.len()..].starts_with(" rename conflicts") {
            return format!("refused {}", n);
        }
    }
    "error".to_string()
}

fn plan(f: &[&str]) -> String {
    if f.len() < 8 {
        return "bad-req".into();
    }
    let mode = f[1];
    let flags = f[2];
    let (Some(cwd), Some(search), Some(replace), Some(styles)) =
        (relpath(f[3]), unhex_str(f[4]), unhex_str(f[5]), styles_of(f[6]))
    else {
        return "bad-req".into();
    };
    let plural = f[7] == "1";
    let mut c = Cursor::new(&f[8..]);
    let Some(nroots) = c.counted("ROOTS") else { return "bad-req".into() };
    let mut roots_rel = vec![];
    for _ in 0..nroots {
        let Some(r) = c.next().and_then(relpath) else { return "bad-req".into() };
        roots_rel.push(r);
    }
    let Some(nv) = c.counted("V") else { return "bad-req".into() };
    let mut mapping = BTreeMap::new();
    for _ in 0..nv {
        let (Some(k), Some(v), Some(_a)) = (c.next(), c.next(), c.next()) else { return "bad-req".into() };
        let (Some(k), Some(v)) = (unhex_str(k), unhex_str(v)) else { return "bad-req".into() };
        mapping.insert(k, v);
    }
    let Some(tree) = parse_tree(&mut c) else { return "bad-req".into() };
    // optional scope section: `S <level> I n <pat>.. X n <pat>.. G n (<kind> <dir> <path>)..`
    // (the ignore files themselves are part of the tree; the G facts are for the model only)
    let mut level: u8 = 0;
    let mut includes: Vec<String> = vec![];
    let mut excludes: Vec<String> = vec![];
    if !c.done() {
        if c.next() != Some("S") {
            return "bad-req".into();
        }
        let Some(l) = c.next().and_then(|x| x.parse::<u8>().ok()) else { return "bad-req".into() };
        level = l;
        for (tag, dst) in [("I", &mut includes), ("X", &mut excludes)] {
            let Some(n) = c.counted(tag) else { return "bad-req".into() };
            for _ in 0..n {
                let Some(p) = c.next().and_then(unhex_str) else { return "bad-req".into() };
                dst.push(p);
            }
        }
        let Some(n) = c.counted("G") else { return "bad-req".into() };
        for _ in 0..3 * n {
            if c.next().is_none() {
                return "bad-req".into();
            }
        }
        if !c.done() {
            return "bad-req".into();
        }
    }

    let base = fresh("rp");
    let base = base.canonicalize().unwrap_or(base);
    materialize(&base, &tree);
    let cwd_abs = base.join(&cwd);
    if std::env::set_current_dir(&cwd_abs).is_err() {
        cleanup(&base);
        return "bad-req".into();
    }
    let roots: Vec<PathBuf> = roots_rel.iter().map(|r| base.join(r)).collect();
    let opts = PlanOptions {
        styles,
        rename_files: flags.contains('f'),
        rename_dirs: flags.contains('d'),
        rename_root: false,
        coerce_separators: if flags.contains('c') { CoercionMode::Auto } else { CoercionMode::Off },
        enable_plural_variants: plural,
        unrestricted_level: level,
        includes,
        excludes,
        ..PlanOptions::default()
    };
    let out = match mode {
        "search" => match plan_renames_with_search(&roots[0], &mapping, &opts, &search, &replace) {
            Ok(rs) => format!("ok {}", show_renames(&base, &rs).join(" ")),
            Err(e) => refused(&format!("{:#}", e)),
        },
        "conf" => match plan_renames_with_conflicts(&roots[0], &mapping, &opts) {
            Ok(p) => {
                let mut cs: Vec<String> = p
                    .conflicts
                    .iter()
                    .map(|c| {
                        let k = match c.kind {
                            ConflictKind::MultipleToOne => "m",
                            ConflictKind::WindowsReserved => "w",
                            ConflictKind::CaseInsensitive => "c",
                        };
                        let mut s: Vec<String> = c.sources.iter().map(|s| rel(&base, s)).collect();
                        s.sort();
                        format!("{}:{}<{}", k, rel(&base, &c.target), s.join(","))
                    })
                    .collect();
                cs.sort();
                let mut items = show_renames(&base, &p.renames);
                if !cs.is_empty() {
                    items.push("|".to_string());
                    items.extend(cs);
                }
                format!("ok {}", items.join(" "))
            },
            Err(_) => "error".to_string(),
        },
        "scan" => match scan_repository_multi(&roots, &search, &replace, &opts) {
            Ok(p) => format!("ok {}", show_renames(&base, &p.paths).join(" ")),
            Err(e) => refused(&format!("{:#}", e)),
        },
        _ => "bad-req".to_string(),
    };
    let _ = std::env::set_current_dir(scratch());
    cleanup(&base);
    out.trim_end().to_string()
}

pub fn dispatch(f: &[&str]) -> Option<String> {
    match f.first().copied() {
        Some("c08vmap") if f.len() == 5 => Some(vmap(f)),
        Some("planrenames") => Some(plan(f)),
        _ => None,
    }
}
