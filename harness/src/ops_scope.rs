//! C09 operations: the real walker / planners on a materialised tree.
//!
//! `scope <level> <respect 0|1> I n pat… X n pat… P n root… T n node… O n (path bitsBelow bitsAbove)… M <search>`
//!     roots are relative to the top of the materialised tree (`-` = the top); ignore files above a root are part of the tree
//!     -> `W <walked…> | S <files_scanned> <files with hunks…> | R <rename sources…> | Q <files_scanned> <files with
//!         matches…> | QR <rename sources…>`   (paths relative to the root, hex, sorted)
//!     W  entries (depth >= 1) yielded by `renamify_core::configure_walker(&[root], &opts).build()`
//!     S  `scan_repository`: stats.files_scanned and the files that have hunks;  R  its `paths`
//!     Q / QR  the same for `create_simple_plan` (the `replace` planner, literal mode)
//!     The `O` section (ignore oracle) is for the Lean model only.
//! `isbinary <level> <content>` -> `b scanned|skipped q planned|skipped` (q = the `replace` planner, create_simple_plan): a one-file tree through `scan_repository`; the content
//!     carries the search term `foo_bar` on a line of its own, so "no hunk" means the binary sniff skipped the file.
//! `globs n pat… <path>` -> `g 0|1|err`: `build_globset(pats)` on a relative path.
//! `hunkfilter E n value… L <regex|-> T n node…` -> `h <file:line:variant…>` hunks of `scan_repository` with the exclusions.
use crate::util::*;
use crate::wire::*;
use renamify_core::scanner::{build_globset, PlanOptions};
use renamify_core::{configure_walker, create_simple_plan, scan_repository, scan_repository_multi};
use std::os::unix::ffi::OsStrExt;
use std::path::Path;

fn rel_hex(root: &Path, p: &Path) -> String {
    let r = p.strip_prefix(root).unwrap_or(p);
    hex(r.as_os_str().as_bytes())
}

fn strings(c: &mut Cursor, tag: &str) -> Option<Vec<String>> {
    let n = c.counted(tag)?;
    let mut v = vec![];
    for _ in 0..n {
        v.push(unhex_str(c.next()?)?);
    }
    Some(v)
}

fn sorted_join(mut v: Vec<String>) -> String {
    v.sort();
    v.dedup();
    v.join(" ")
}

fn scope(f: &[&str]) -> String {
    let mut c = Cursor::new(f);
    let (Some(level), Some(respect)) = (c.next().and_then(|s| s.parse::<u8>().ok()), c.next()) else {
        return "bad-req".into();
    };
    let (Some(inc), Some(exc), Some(rootrels), Some(tree)) =
        (strings(&mut c, "I"), strings(&mut c, "X"), strings(&mut c, "P"), parse_tree(&mut c))
    else {
        return "bad-req".into();
    };
    // skip the oracle section
    let Some(n) = c.counted("O") else { return "bad-req".into() };
    for _ in 0..3 * n {
        c.next();
    }
    if c.next() != Some("M") {
        return "bad-req".into();
    }
    let Some(search) = c.next().and_then(unhex_str) else { return "bad-req".into() };
    let root = fresh("s");
    materialize(&root, &tree);
    let roots: Vec<std::path::PathBuf> =
        rootrels.iter().map(|r| if r.is_empty() { root.clone() } else { root.join(r) }).collect();
    if roots.is_empty() {
        return "bad-req".into();
    }
    let opts = PlanOptions {
        includes: inc,
        excludes: exc,
        unrestricted_level: level,
        respect_gitignore: respect == "1",
        ..PlanOptions::default()
    };
    let mut walked = vec![];
    for e in configure_walker(&roots, &opts).build().flatten() {
        if e.depth() >= 1 {
            walked.push(rel_hex(&root, e.path()));
        }
    }
    let s_part = match scan_repository_multi(&roots, &search, "baz_qux", &opts) {
        Ok(plan) => format!(
            "S {} {} | R {}",
            plan.stats.files_scanned,
            sorted_join(plan.matches.iter().map(|m| rel_hex(&root, &m.file)).collect()),
            sorted_join(plan.paths.iter().map(|r| rel_hex(&root, &r.path)).collect())
        ),
        Err(_) => "S err | R err".to_string(),
    };
    let q_part = match create_simple_plan(&search, "baz_qux", roots.clone(), &opts, false) {
        Ok(plan) => format!(
            "Q {} {} | QR {}",
            plan.stats.files_scanned,
            // create_simple_plan reports paths relative to its first root
            sorted_join(plan.matches.iter().map(|m| rel_hex(&root, &roots[0].join(&m.file))).collect()),
            sorted_join(plan.paths.iter().map(|r| rel_hex(&root, &roots[0].join(&r.path))).collect())
        ),
        Err(_) => "Q err | QR err".to_string(),
    };
    cleanup(&root);
    format!("W {} | {} | {}", sorted_join(walked), s_part, q_part)
}

fn isbinary(f: &[&str]) -> String {
    let (Some(level), Some(content)) = (f.first().and_then(|s| s.parse::<u8>().ok()), f.get(1).and_then(|s| unhex(s))) else {
        return "bad-req".into();
    };
    let root = fresh("b");
    std::fs::write(root.join("data"), &content).unwrap();
    let opts = PlanOptions { unrestricted_level: level, ..PlanOptions::default() };
    let b = match scan_repository(&root, "foo_bar", "baz_qux", &opts) {
        Ok(plan) => {
            if plan.matches.is_empty() {
                "skipped"
            } else {
                "scanned"
            }
        },
        Err(_) => "err",
    };
    let q = match create_simple_plan("foo_bar", "baz_qux", vec![root.clone()], &opts, false) {
        Ok(plan) => {
            if plan.matches.is_empty() {
                "skipped"
            } else {
                "planned"
            }
        },
        Err(_) => "err",
    };
    cleanup(&root);
    format!("b {} q {}", b, q)
}

fn globs(f: &[&str]) -> String {
    let mut c = Cursor::new(f);
    let Some(n) = c.next().and_then(|s| s.parse::<usize>().ok()) else { return "bad-req".into() };
    let mut pats = vec![];
    for _ in 0..n {
        let Some(p) = c.next().and_then(unhex_str) else { return "bad-req".into() };
        pats.push(p);
    }
    let Some(path) = c.next().and_then(relpath) else { return "bad-req".into() };
    match build_globset(&pats) {
        Ok(Some(gs)) => format!("g {}", u8::from(gs.is_match(&path))),
        Ok(None) => "g none".into(),
        Err(_) => "g err".into(),
    }
}

fn hunkfilter(f: &[&str]) -> String {
    let mut c = Cursor::new(f);
    let Some(excl) = strings(&mut c, "E") else { return "bad-req".into() };
    if c.next() != Some("L") {
        return "bad-req".into();
    }
    let Some(re) = c.next().and_then(unhex_str) else { return "bad-req".into() };
    let Some(tree) = parse_tree(&mut c) else { return "bad-req".into() };
    let root = fresh("h");
    materialize(&root, &tree);
    let opts = PlanOptions {
        exclude_match: excl,
        exclude_matching_lines: if re.is_empty() { None } else { Some(re) },
        ..PlanOptions::default()
    };
    let out = match scan_repository(&root, "foo_bar", "baz_qux", &opts) {
        Ok(plan) => {
            let mut v: Vec<String> = plan
                .matches
                .iter()
                .map(|m| format!("{}:{}:{}:{}", rel_hex(&root, &m.file), m.line, m.byte_offset, hex(m.variant.as_bytes())))
                .collect();
            v.sort();
            format!("h {}", v.join(" "))
        },
        Err(_) => "h err".into(),
    };
    cleanup(&root);
    out
}

pub fn dispatch(f: &[&str]) -> Option<String> {
    match f.first().copied() {
        Some("scope") => Some(scope(&f[1..])),
        Some("isbinary") => Some(isbinary(&f[1..])),
        Some("globs") => Some(globs(&f[1..])),
        Some("hunkfilter") => Some(hunkfilter(&f[1..])),
        _ => None,
    }
}
