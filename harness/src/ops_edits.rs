//! `edits <orig> (<before> <after> <start> <end>)*`
//! Drives the real `apply_plan` over a one-file plan and reports the resulting file bytes.
use crate::util::*;
use renamify_core::scanner::{MatchHunk, Plan, Stats};
use renamify_core::{apply_plan, ApplyOptions};
use std::collections::HashMap;
use std::fs;

pub fn mk_hunk(file: &std::path::Path, before: String, after: String, start: usize, end: usize) -> MatchHunk {
    MatchHunk {
        file: file.to_path_buf(),
        line: 1,
        byte_offset: 0,
        char_offset: 0,
        variant: before.clone(),
        content: before,
        replace: after,
        start,
        end,
        line_before: None,
        line_after: None,
        coercion_applied: None,
        original_file: None,
        renamed_file: None,
        patch_hash: None,
    }
}

pub fn mk_plan(id: &str, matches: Vec<MatchHunk>, paths: Vec<renamify_core::Rename>) -> Plan {
    Plan {
        id: id.to_string(),
        created_at: "0".to_string(),
        search: "s".to_string(),
        replace: "r".to_string(),
        styles: vec![],
        includes: vec![],
        excludes: vec![],
        matches,
        paths,
        stats: Stats {
            files_scanned: 0,
            total_matches: 0,
            matches_by_variant: HashMap::new(),
            files_with_matches: 0,
        },
        version: "1.0.0".to_string(),
        created_directories: None,
    }
}

pub fn edits(f: &[&str]) -> String {
    if f.is_empty() || (f.len() - 1) % 4 != 0 {
        return "bad-req".into();
    }
    let Some(orig) = unhex(f[0]) else { return "bad-req".into() };
    let dir = fresh("e");
    let file = dir.join("f.txt");
    fs::write(&file, &orig).unwrap();
    let mut hunks = vec![];
    for g in f[1..].chunks(4) {
        let (Some(b), Some(a)) = (unhex_str(g[0]), unhex_str(g[1])) else { return "bad-req".into() };
        let (Ok(s), Ok(e)) = (g[2].parse::<usize>(), g[3].parse::<usize>()) else { return "bad-req".into() };
        hunks.push(mk_hunk(&file, b, a, s, e));
    }
    let mut plan = mk_plan("p1", hunks, vec![]);
    let opts = ApplyOptions {
        create_backups: false,
        backup_dir: dir.join(".renamify/backups"),
        commit: false,
        force: false,
        skip_symlinks: true,
        log_file: None,
    };
    let res = std::panic::catch_unwind(std::panic::AssertUnwindSafe(|| apply_plan(&mut plan, &opts)));
    let out = match res {
        Err(_) => "panic".to_string(),
        Ok(Err(e)) => {
            let m = format!("{:#}", e);
            if m.contains("Content mismatch") {
                "mismatch".to_string()
            } else if m.contains("Failed to read") {
                "unreadable".to_string()
            } else {
                format!("err {}", hex(m.as_bytes()))
            }
        },
        Ok(Ok(())) => format!("ok {}", hex(&fs::read(&file).unwrap())),
    };
    let _ = fs::remove_dir_all(&dir);
    out
}

pub fn dispatch(f: &[&str]) -> Option<String> {
    match f.first().copied() {
        Some("edits") => Some(edits(&f[1..])),
        _ => None,
    }
}
