//! C01 operations.
//! `applyundo T… H… R…`   real `apply_plan` (backups on) then real `undo_renaming`:
//!                        `<apply outcome> <undo outcome | -> <user tree>`
//! `applypatches T… H… R…` real `apply_plan`, then the reverse patches it stored, one item per patch, sorted:
//!                        `<file name>:<stored text>:<original rel path>:<current rel path>:<create_patch(cur, orig) text>`
//! `patchrt <patch>`      real `diffy::Patch::from_str` + `to_string`: `ok <text>` | `err <message>`
//! `papply <patch> <base>` real `from_str` + `diffy::apply`: `ok <result>` | `applyfail` | `err <message>`
//! `pnames <patch>`      real `from_str`: `ok s<original name> s<modified name>` (`none` when absent) | `err <message>`
//! `mkpatch <cur> <orig>` `diffy::create_patch(cur, orig).to_string()`
//! `diffrt <a> <b>`       the contract `apply(create_patch(a, b), a) == b`: `ok` | `fail`
use crate::ops_apply::{build_plan, classify, opts_for};
use crate::util::*;
use crate::wire::*;
use renamify_core::{apply_plan, undo_renaming};
use std::collections::BTreeSet;
use std::fs;
use std::os::unix::ffi::OsStrExt;
use std::path::{Path, PathBuf};

fn classify_undo(res: std::thread::Result<anyhow::Result<()>>) -> String {
    match res {
        Err(_) => "panic".to_string(),
        Ok(Ok(())) => "ok".to_string(),
        Ok(Err(e)) => {
            let m = format!("{:#}", e);
            if let Some(rest) = m.strip_prefix("Failed to apply ") {
                let n: String = rest.chars().take_while(|c| c.is_ascii_digit()).collect();
                format!("patchfailed{}", n)
            } else if e.downcast_ref::<std::io::Error>().is_some() {
                "renamefailed".into()
            } else {
                format!("err:{}", hex(m.as_bytes()))
            }
        },
    }
}

/// like `show_tree`, but `.rej` files that were not part of the input get empty content
fn show_tree_canon(root: &Path, input: &BTreeSet<PathBuf>) -> String {
    let raw = show_tree(root);
    let mut items: Vec<String> = vec![];
    for it in raw.split(' ').filter(|s| !s.is_empty()) {
        let f: Vec<&str> = it.split(':').collect();
        if f[0] == "f" {
            let p = unhex(f[1]).unwrap_or_default();
            let pb = PathBuf::from(std::ffi::OsStr::from_bytes(&p));
            if p.ends_with(b".rej") && !input.contains(&pb) {
                items.push(format!("f:{}:{}:-", f[1], f[2]));
                continue;
            }
        }
        items.push(it.to_string());
    }
    items.sort();
    items.join(" ")
}

struct Parsed {
    tree: Vec<(PathBuf, Node)>,
    hunks: Vec<WHunk>,
    rens: Vec<WRen>,
}

fn parse_req(f: &[&str]) -> Option<Parsed> {
    let mut c = Cursor::new(f);
    let tree = parse_tree(&mut c)?;
    let hunks = parse_hunks(&mut c)?;
    let rens = parse_rens(&mut c)?;
    if !c.done() {
        return None;
    }
    Some(Parsed { tree, hunks, rens })
}

/// the CLI runs with the working directory at the root of the tree; patch headers are relative to it
fn enter(root: &Path) {
    std::env::set_current_dir(root).unwrap();
}

fn leave() {
    std::env::set_current_dir(scratch()).unwrap();
}

pub fn applyundo(f: &[&str]) -> String {
    let Some(req) = parse_req(f) else { return "bad-req".into() };
    let root = fresh("u");
    materialize(&root, &req.tree);
    let input: BTreeSet<PathBuf> = req.tree.iter().map(|(p, _)| p.clone()).collect();
    enter(&root);
    let mut plan = build_plan(&root, &req.hunks, &req.rens, "p1");
    let opts = opts_for(&root);
    let res = std::panic::catch_unwind(std::panic::AssertUnwindSafe(|| apply_plan(&mut plan, &opts)));
    let a = classify(res);
    let out = if a == "ok" {
        let rdir = root.join(".renamify");
        let res = std::panic::catch_unwind(std::panic::AssertUnwindSafe(|| undo_renaming("p1", &rdir)));
        format!("ok {} {}", classify_undo(res), show_tree_canon(&root, &input))
    } else {
        format!("{} - {}", a, show_tree(&root))
    };
    leave();
    cleanup(&root);
    out
}

fn rel_hex(root: &Path, p: &Path) -> String {
    let r = p.strip_prefix(root).unwrap_or(p);
    hex(r.as_os_str().as_bytes())
}

pub fn applypatches(f: &[&str]) -> String {
    let Some(req) = parse_req(f) else { return "bad-req".into() };
    let root = fresh("p");
    materialize(&root, &req.tree);
    enter(&root);
    let mut plan = build_plan(&root, &req.hunks, &req.rens, "p1");
    let opts = opts_for(&root);
    let res = std::panic::catch_unwind(std::panic::AssertUnwindSafe(|| apply_plan(&mut plan, &opts)));
    let a = classify(res);
    let mut items: Vec<String> = vec![];
    if a == "ok" {
        let pdir = root.join(".renamify/backups/p1/reverse_patches");
        let mut seen = BTreeSet::new();
        for h in &plan.matches {
            let (Some(hash), Some(orig)) = (&h.patch_hash, &h.original_file) else { continue };
            if !seen.insert(hash.clone()) {
                continue;
            }
            let cur = h.renamed_file.clone().unwrap_or_else(|| orig.clone());
            let name = format!("{}.patch", hash);
            let stored = fs::read(pdir.join(&name)).unwrap_or_default();
            let cur_text = fs::read_to_string(&cur).unwrap_or_default();
            let orig_text = req
                .tree
                .iter()
                .find(|(p, _)| root.join(p) == *orig)
                .and_then(|(_, n)| match n {
                    Node::File(c, _) => String::from_utf8(c.clone()).ok(),
                    _ => None,
                })
                .unwrap_or_default();
            let raw = diffy::create_patch(&cur_text, &orig_text).to_string();
            items.push(format!(
                "{}:{}:{}:{}:{}",
                name,
                hex(&stored),
                rel_hex(&root, orig),
                rel_hex(&root, &cur),
                hex(raw.as_bytes())
            ));
        }
        // patch files on disk that no hunk refers to would be a surprise: list them too
        if let Ok(rd) = fs::read_dir(&pdir) {
            for e in rd.flatten() {
                let n = e.file_name().to_string_lossy().to_string();
                if !items.iter().any(|i| i.starts_with(&n)) {
                    items.push(format!("{}:orphan", n));
                }
            }
        }
    }
    let created = plan
        .created_directories
        .as_ref()
        .map(|v| v.iter().map(|p| rel_hex(&root, p)).collect::<Vec<_>>().join(","))
        .unwrap_or_else(|| "none".into());
    items.sort();
    leave();
    cleanup(&root);
    format!("{} created={} {}", a, created, items.join(" "))
}

pub fn patchrt(f: &[&str]) -> String {
    let [p] = f else { return "bad-req".into() };
    let Some(text) = unhex_str(p) else { return "bad-req".into() };
    match diffy::Patch::from_str(&text) {
        Ok(pt) => format!("ok {}", hex(pt.to_string().as_bytes())),
        Err(e) => {
            let m = e.to_string();
            let m = m.strip_prefix("error parsing patch: ").unwrap_or(&m);
            format!("err {}", hex(m.as_bytes()))
        },
    }
}

pub fn papply(f: &[&str]) -> String {
    let [p, b] = f else { return "bad-req".into() };
    let (Some(text), Some(base)) = (unhex_str(p), unhex_str(b)) else { return "bad-req".into() };
    match diffy::Patch::from_str(&text) {
        Ok(pt) => match diffy::apply(&base, &pt) {
            Ok(r) => format!("ok {}", hex(r.as_bytes())),
            Err(_) => "applyfail".into(),
        },
        Err(e) => {
            let m = e.to_string();
            let m = m.strip_prefix("error parsing patch: ").unwrap_or(&m);
            format!("err {}", hex(m.as_bytes()))
        },
    }
}

pub fn pnames(f: &[&str]) -> String {
    let [p] = f else { return "bad-req".into() };
    let Some(text) = unhex_str(p) else { return "bad-req".into() };
    match diffy::Patch::from_str(&text) {
        Ok(pt) => {
            let sh = |o: Option<&str>| match o {
                Some(n) => format!("s{}", hex(n.as_bytes())),
                None => "none".to_string(),
            };
            format!("ok {} {}", sh(pt.original()), sh(pt.modified()))
        },
        Err(e) => {
            let m = e.to_string();
            let m = m.strip_prefix("error parsing patch: ").unwrap_or(&m);
            format!("err {}", hex(m.as_bytes()))
        },
    }
}

pub fn mkpatch(f: &[&str]) -> String {
    let [c, o] = f else { return "bad-req".into() };
    let (Some(cur), Some(orig)) = (unhex_str(c), unhex_str(o)) else { return "bad-req".into() };
    hex(diffy::create_patch(&cur, &orig).to_string().as_bytes())
}

pub fn diffrt(f: &[&str]) -> String {
    let [a, b] = f else { return "bad-req".into() };
    let (Some(a), Some(b)) = (unhex_str(a), unhex_str(b)) else { return "bad-req".into() };
    let p = diffy::create_patch(&a, &b);
    // through the text, as renamify does
    let text = p.to_string();
    match diffy::Patch::from_str(&text) {
        Ok(pt) => match diffy::apply(&a, &pt) {
            Ok(r) if r == b => "ok".into(),
            Ok(_) => "fail-wrong".into(),
            Err(_) => "fail-apply".into(),
        },
        Err(_) => "fail-parse".into(),
    }
}

pub fn dispatch(f: &[&str]) -> Option<String> {
    match f.first().copied() {
        Some("applyundo") => Some(applyundo(&f[1..])),
        Some("applypatches") => Some(applypatches(&f[1..])),
        Some("patchrt") => Some(patchrt(&f[1..])),
        Some("papply") => Some(papply(&f[1..])),
        Some("pnames") => Some(pnames(&f[1..])),
        Some("mkpatch") => Some(mkpatch(&f[1..])),
        Some("diffrt") => Some(diffrt(&f[1..])),
        _ => None,
    }
}
