//! vharness: runs the real renamify code on request lines (one per line on stdin) and prints one
//! canonical result line per request.  The same lines are fed to the Lean driver `rmodel`.
//! Fields are separated by single spaces; byte strings are hex, `-` is the empty string.
use std::io::{self, BufRead, Write};
use std::panic;

mod util;
mod ops_edits;
mod wire;
mod ops_apply;
mod ops_case;
mod ops_compound;
mod ops_variant;
mod ops_serde;
mod ops_panic;
mod ops_line;
mod ops_resolver;
mod ops_match;
mod ops_undo;
mod ops_lock;
mod ops_renameplan;
mod ops_clap;
mod ops_scope;
mod ops_c04late;

/// every `ops_*.rs` owns some operations: `dispatch(fields) -> Option<String>` (None = not mine)
const HANDLERS: &[fn(&[&str]) -> Option<String>] = &[
    ops_edits::dispatch,
    ops_apply::dispatch,
    ops_case::dispatch,
    ops_compound::dispatch,
    ops_variant::dispatch,
    ops_serde::dispatch,
    ops_panic::dispatch,
    ops_line::dispatch,
    ops_resolver::dispatch,
    ops_match::dispatch,
    ops_undo::dispatch,
    ops_lock::dispatch,
    ops_renameplan::dispatch,
    ops_clap::dispatch,
    ops_scope::dispatch,
    ops_c04late::dispatch,
];

fn dispatch(fields: &[&str]) -> String {
    if fields.first().copied() == Some("ping") {
        return "pong".to_string();
    }
    for h in HANDLERS {
        if let Some(s) = h(fields) {
            return s;
        }
    }
    "bad-op".to_string()
}

fn main() {
    panic::set_hook(Box::new(|_| {}));
    let stdin = io::stdin();
    let stdout = io::stdout();
    let mut out = io::BufWriter::new(stdout.lock());
    for line in stdin.lock().lines() {
        let line = match line {
            Ok(l) => l,
            Err(_) => break,
        };
        let fields: Vec<&str> = line.split(' ').filter(|s| !s.is_empty()).collect();
        let res = panic::catch_unwind(|| dispatch(&fields));
        let text = match res {
            Ok(s) => s,
            Err(_) => "panic".to_string(),
        };
        writeln!(out, "{}", text).unwrap();
    }
    out.flush().unwrap();
    util::cleanup_scratch();
}
