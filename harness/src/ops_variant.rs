//! variant-table operation with plural variants disabled (C18, C06):
//!   vmapm <hex search> <hex replace> <default|all|name,name,...> <0|1>
//! calls the real `generate_variant_map_with_atomic_and_plurals(search, replace, styles, None, false)` and prints the
//! table sorted by key (BTreeMap order) together with the value of `ambiguity::is_ambiguous(search, all_styles)`
//! (the model takes that value from the last request field, so a wrong flag shows up as a difference).
//!   ambig <hex text>   ->   a 0|1      (harness only: lets the generator learn the flag)
use crate::ops_case::style_of;
use crate::util::*;
use renamify_core::case_model::{generate_variant_map_with_atomic_and_plurals, Style};

pub fn dispatch(f: &[&str]) -> Option<String> {
    match f.first().copied() {
        Some("ambig") if f.len() == 2 => {
            let Some(s) = unhex_str(f[1]) else { return Some("bad-req".into()) };
            let a = renamify_core::ambiguity::is_ambiguous(&s, &Style::all_styles());
            Some(format!("a {}", u8::from(a)))
        },
        Some("vmapm") if f.len() == 5 => {
            let (Some(a), Some(b)) = (unhex_str(f[1]), unhex_str(f[2])) else { return Some("bad-req".into()) };
            let styles: Option<Vec<Style>> = match f[3] {
                "default" => None,
                "all" => Some(Style::all_styles()),
                list => {
                    let mut v = vec![];
                    for n in list.split(',') {
                        let Some(st) = style_of(n) else { return Some("bad-req".into()) };
                        v.push(st);
                    }
                    Some(v)
                },
            };
            if f[4] != "0" && f[4] != "1" {
                return Some("bad-req".into());
            }
            let amb = renamify_core::ambiguity::is_ambiguous(&a, &Style::all_styles());
            let m = generate_variant_map_with_atomic_and_plurals(&a, &b, styles.as_deref(), None, false);
            let mut out = vec!["v".to_string(), format!("a={}", u8::from(amb))];
            for (k, v) in m {
                out.push(format!("{}={}", hex(k.as_bytes()), hex(v.as_bytes())));
            }
            Some(out.join(" "))
        },
        _ => None,
    }
}
