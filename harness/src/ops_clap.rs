//! op `clap <hex-arg>*` (C20): run the REAL clap parser, compiled from the current
//! `/repo/renamify-cli/src/cli/{mod,args,types}.rs`, on one argument vector.
//!
//!   ok <subcommand> <key>=<value> ...     keys sorted; `g.<id>` = top-level (global) arguments,
//!                                         `<id>` = arguments of the subcommand
//!   err <ErrorKind>                       clap's `ErrorKind` (Debug name)
//!
//! Values: flags `true|false`, counters decimal, options/positionals the comma-joined hex of the
//! raw values after delimiter splitting (`-` for the empty string, `none` when absent).
//! The summary is generic over `Command` (walks `get_arguments()`), so renaming or removing a field
//! in args.rs still compiles here and shows up as a different line.
use crate::util::*;
use clap::{ArgAction, ArgMatches, Command, CommandFactory, Parser};

#[allow(dead_code, unused_imports)]
#[path = "/repo/renamify-cli/src/cli/mod.rs"]
mod cli;

fn show_args(cmd: &Command, m: &ArgMatches, prefix: &str, out: &mut Vec<String>) {
    for a in cmd.get_arguments() {
        let id = a.get_id().as_str();
        if id == "help" || id == "version" {
            continue;
        }
        let v = match a.get_action() {
            ArgAction::SetTrue | ArgAction::SetFalse => match m.try_get_one::<bool>(id) {
                Ok(Some(b)) => b.to_string(),
                _ => "none".to_string(),
            },
            ArgAction::Count => match m.try_get_one::<u8>(id) {
                Ok(Some(n)) => n.to_string(),
                _ => "none".to_string(),
            },
            ArgAction::Set | ArgAction::Append => match m.try_get_raw(id) {
                Ok(Some(vals)) => {
                    let v: Vec<String> = vals
                        .map(|o| {
                            use std::os::unix::ffi::OsStrExt;
                            hex(o.as_bytes())
                        })
                        .collect();
                    if v.is_empty() {
                        "none".to_string()
                    } else {
                        v.join(",")
                    }
                },
                _ => "none".to_string(),
            },
            _ => continue,
        };
        out.push(format!("{}{}={}", prefix, id, v));
    }
}

pub fn parse(argv: Vec<String>) -> String {
    // the model has no environment: clap reads NO_COLOR / RENAMIFY_YES (`env = ...`)
    std::env::remove_var("NO_COLOR");
    std::env::remove_var("RENAMIFY_YES");
    let mut full = vec!["renamify".to_string()];
    full.extend(argv);
    let typed = cli::Cli::try_parse_from(full.iter());
    let mut cmd = cli::Cli::command();
    let res = cmd.try_get_matches_from_mut(full.iter());
    match (typed, res) {
        (Err(e), Err(e2)) => {
            if e.kind() != e2.kind() {
                return format!("err {:?}/{:?}", e.kind(), e2.kind());
            }
            format!("err {:?}", e.kind())
        },
        (Ok(_), Ok(m)) => {
            let mut out = vec![];
            show_args(&cmd, &m, "g.", &mut out);
            let name = match m.subcommand() {
                Some((name, sm)) => {
                    if let Some(sc) = cmd.find_subcommand(name) {
                        // global arguments are propagated into the subcommand; shown once as g.*
                        let mut sub = vec![];
                        show_args(sc, sm, "", &mut sub);
                        let globals: Vec<String> = cmd
                            .get_arguments()
                            .filter(|a| a.is_global_set())
                            .map(|a| a.get_id().as_str().to_string())
                            .collect();
                        let local_ids: Vec<String> = sc
                            .get_arguments()
                            .filter(|a| !a.is_global_set())
                            .map(|a| a.get_id().as_str().to_string())
                            .collect();
                        for s in sub {
                            let key = s.split('=').next().unwrap_or("").to_string();
                            if globals.contains(&key) && !local_ids.contains(&key) {
                                continue;
                            }
                            out.push(s);
                        }
                    }
                    name.to_string()
                },
                None => "-".to_string(),
            };
            out.sort();
            format!("ok {} {}", name, out.join(" ")).trim_end().to_string()
        },
        (Ok(_), Err(e)) => format!("split typed=ok matches=err:{:?}", e.kind()),
        (Err(e), Ok(_)) => format!("split typed=err:{:?} matches=ok", e.kind()),
    }
}

fn arg_table(cmd: &Command) -> serde_json::Value {
    let mut v = vec![];
    for a in cmd.get_arguments() {
        let id = a.get_id().as_str();
        if id == "help" || id == "version" {
            continue;
        }
        let action = match a.get_action() {
            ArgAction::SetTrue => "setTrue",
            ArgAction::SetFalse => "setFalse",
            ArgAction::Count => "count",
            ArgAction::Set => "set",
            ArgAction::Append => "append",
            _ => "other",
        };
        let mut longs: Vec<String> = a.get_long().map(|l| vec![l.to_string()]).unwrap_or_default();
        if let Some(al) = a.get_all_aliases() {
            longs.extend(al.iter().map(|x| x.to_string()));
        }
        let mut shorts: Vec<String> = a.get_short().map(|c| vec![c.to_string()]).unwrap_or_default();
        if let Some(al) = a.get_all_short_aliases() {
            shorts.extend(al.iter().map(|x| x.to_string()));
        }
        let defaults: Vec<String> =
            a.get_default_values().iter().map(|d| d.to_string_lossy().into_owned()).collect();
        v.push(serde_json::json!({
            "id": id, "longs": longs, "shorts": shorts, "positional": a.is_positional(),
            "index": a.get_index(), "action": action, "global": a.is_global_set(),
            "defaults": defaults, "delimiter": a.get_value_delimiter().map(|c| c.to_string()),
        }));
    }
    serde_json::Value::Array(v)
}

/// `clapargs`: the argument table of the REAL `Command` (after `build()`, so every subcommand also lists the
/// propagated globals) as one JSON line: what the intended-meaning oracle reads summaries with, independent of
/// translate/cli_grammar.py
pub fn clapargs() -> String {
    let mut cmd = cli::Cli::command();
    cmd.build();
    let mut subs = serde_json::Map::new();
    for sc in cmd.get_subcommands() {
        subs.insert(sc.get_name().to_string(), arg_table(sc));
    }
    serde_json::json!({ "top": arg_table(&cmd), "subs": subs }).to_string().replace(' ', "\\u0020")
}

pub fn dispatch(fields: &[&str]) -> Option<String> {
    if fields.first().copied() == Some("clapargs") {
        return Some(clapargs());
    }
    if fields.first().copied() != Some("clap") {
        return None;
    }
    let mut argv = vec![];
    for f in &fields[1..] {
        match unhex_str(f) {
            Some(s) => argv.push(s),
            None => return Some("bad-req".to_string()),
        }
    }
    Some(parse(argv))
}
