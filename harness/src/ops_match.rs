//! matcher / planner-geometry operations (C03, C15):
//!   findmatches <content> <variant>*            real build_pattern + find_matches
//!   isboundary <content> <start> <end>          real is_boundary (panics are caught by main)
//!   planlit <file> <pattern> <replacement>      real create_simple_plan (literal) on a one-file tree
//!   scanplan <dir> <search> <replace> <styles|-> <root>*
//!                                               real scan_repository_multi (default options) with cwd = dir;
//!                                               prints the plan JSON and the uncoloured diff preview
//!   renderdiff <plan-json>                      real render_plan(plan, Preview::Diff, Some(false))
use crate::ops_case::style_of;
use crate::util::*;
use renamify_core::scanner::{create_simple_plan, scan_repository_multi, Plan, PlanOptions};
use renamify_core::{build_pattern, find_matches, is_boundary, render_plan, Preview};
use std::fs;
use std::path::PathBuf;

fn findmatches(f: &[&str]) -> String {
    if f.is_empty() {
        return "bad-req".into();
    }
    let Some(content) = unhex(f[0]) else { return "bad-req".into() };
    let mut variants = vec![];
    for h in &f[1..] {
        let Some(v) = unhex_str(h) else { return "bad-req".into() };
        variants.push(v);
    }
    let Ok(pattern) = build_pattern(&variants) else { return "m regex-error".into() };
    let mut out = vec!["m".to_string()];
    for m in find_matches(&pattern, &content, "f") {
        out.push(format!(
            "{}:{}:{}:{}:{}:{}",
            m.start,
            m.end,
            m.line,
            m.column,
            hex(m.variant.as_bytes()),
            hex(m.text.as_bytes())
        ));
    }
    out.join(" ")
}

fn isboundary(f: &[&str]) -> String {
    if f.len() != 3 {
        return "bad-req".into();
    }
    let Some(content) = unhex(f[0]) else { return "bad-req".into() };
    let (Ok(s), Ok(e)) = (f[1].parse::<usize>(), f[2].parse::<usize>()) else { return "bad-req".into() };
    match std::panic::catch_unwind(|| is_boundary(&content, s, e)) {
        Ok(b) => format!("b {}", b),
        Err(_) => "b panic".into(),
    }
}

fn hunk_line(m: &renamify_core::scanner::MatchHunk) -> String {
    format!(
        "{}:{}:{}:{}:{}:{}:{}:{}:{}",
        m.line,
        m.byte_offset,
        m.char_offset,
        m.start,
        m.end,
        hex(m.content.as_bytes()),
        hex(m.replace.as_bytes()),
        hex(m.line_before.as_deref().unwrap_or("").as_bytes()),
        hex(m.line_after.as_deref().unwrap_or("").as_bytes())
    )
}

fn planlit(f: &[&str]) -> String {
    if f.len() != 3 {
        return "bad-req".into();
    }
    let (Some(file), Some(pat), Some(repl)) = (unhex(f[0]), unhex_str(f[1]), unhex_str(f[2])) else {
        return "bad-req".into();
    };
    if pat.is_empty() {
        return "bad-req".into(); // the real loop does not terminate on an empty pattern
    }
    let dir = fresh("pl");
    fs::write(dir.join("f.txt"), &file).unwrap();
    let opts = PlanOptions {
        rename_files: false,
        rename_dirs: false,
        unrestricted_level: 3, // treat everything as text, ignore nothing
        respect_gitignore: false,
        ..PlanOptions::default()
    };
    let res = std::panic::catch_unwind(std::panic::AssertUnwindSafe(|| {
        create_simple_plan(&pat, &repl, vec![dir.clone()], &opts, false)
    }));
    let out = match res {
        Err(_) => "p panic".to_string(),
        Ok(Err(e)) => format!("p err {}", hex(format!("{:#}", e).as_bytes())),
        Ok(Ok(plan)) => {
            let mut out = vec!["p".to_string()];
            for m in &plan.matches {
                out.push(hunk_line(m));
            }
            out.join(" ")
        },
    };
    let _ = fs::remove_dir_all(&dir);
    out
}

fn scanplan(f: &[&str]) -> String {
    if f.len() < 4 {
        return "bad-req".into();
    }
    let (Some(dir), Some(search), Some(replace)) = (unhex_str(f[0]), unhex_str(f[1]), unhex_str(f[2])) else {
        return "bad-req".into();
    };
    let styles = if f[3] == "-" {
        None
    } else {
        let mut v = vec![];
        for n in f[3].split(',') {
            let Some(st) = style_of(n) else { return "bad-req".into() };
            v.push(st);
        }
        Some(v)
    };
    let dir = PathBuf::from(dir);
    let mut roots = vec![];
    for h in &f[4..] {
        let Some(r) = unhex_str(h) else { return "bad-req".into() };
        let p = dir.join(r);
        roots.push(p.canonicalize().unwrap_or(p));
    }
    if roots.is_empty() {
        roots.push(dir.canonicalize().unwrap_or(dir.clone()));
    }
    let opts = PlanOptions { styles, ..PlanOptions::default() };
    let old = std::env::current_dir().ok();
    let _ = std::env::set_current_dir(&dir);
    let res = std::panic::catch_unwind(std::panic::AssertUnwindSafe(|| {
        scan_repository_multi(&roots, &search, &replace, &opts).map(|plan| {
            let diff = render_plan(&plan, Preview::Diff, Some(false));
            (serde_json::to_string(&plan).unwrap(), diff)
        })
    }));
    if let Some(o) = old {
        let _ = std::env::set_current_dir(o);
    }
    match res {
        Err(_) => "s panic".to_string(),
        Ok(Err(e)) => format!("s err {}", hex(format!("{:#}", e).as_bytes())),
        Ok(Ok((json, diff))) => format!("s ok {} {}", hex(json.as_bytes()), hex(diff.as_bytes())),
    }
}

fn renderdiff(f: &[&str]) -> String {
    if f.len() != 1 {
        return "bad-req".into();
    }
    let Some(json) = unhex(f[0]) else { return "bad-req".into() };
    let Ok(plan) = serde_json::from_slice::<Plan>(&json) else { return "r bad-plan".into() };
    match std::panic::catch_unwind(|| render_plan(&plan, Preview::Diff, Some(false))) {
        Ok(s) => format!("r ok {}", hex(s.as_bytes())),
        Err(_) => "r panic".into(),
    }
}

pub fn dispatch(f: &[&str]) -> Option<String> {
    match f.first().copied() {
        Some("findmatches") => Some(findmatches(&f[1..])),
        Some("isboundary") => Some(isboundary(&f[1..])),
        Some("planlit") => Some(planlit(&f[1..])),
        Some("scanplan") => Some(scanplan(&f[1..])),
        Some("renderdiff") => Some(renderdiff(&f[1..])),
        _ => None,
    }
}
