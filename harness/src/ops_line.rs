//! one-line pipeline operations (C06):
//!
//!   rewriteline <hex line> <hex search> <hex replace> <opts> <p0|p1> [model-only fields …]
//!       real `operations::plan::plan_operation` (dry run; this is the entry point that maps the three CLI style options
//!       through the real private `build_styles_list` into `PlanOptions.styles`) on a scratch directory holding the
//!       single file `a.txt` = <line>, followed by the real `apply_plan` on the returned plan.
//!       <opts> = `default` or a `;`-joined list of `o=<names>` (--only-styles), `x=<names>` (--exclude-styles),
//!       `i=<names>` (--include-styles); names comma separated (model names, e.g. `screaming_snake`).
//!       p0 = `--no-plural-variants`, p1 = plural variants on, both WITHOUT atomic configuration (core API); q0 / q1 = the same
//!       with `Some(AtomicConfig)` as every CLI handler passes it (variant table from case_model.rs).  Further fields are ignored (they carry the pluralizer's
//!       answers for the model).
//!       ->  `r <ok|planerr|applyerr> <hex new line> <n> (<col> <hex content> <hex replace>)*n`   hunks sorted by column
//!   rewritefile <hex file name> <hex content> <hex search> <hex replace> <opts> <p0|p1>
//!       as `rewriteline`, for a multi-line file with a chosen name (the extension selects the language heuristics, the
//!       content feeds the file-context heuristic)  -> `f <status> <hex new content> <n> (<line> <col> <hex content> <hex replace>)*n`
//!   resolvectx <hex file name> <hex file content> <hex line> <pos> <hex matched> <hex replacement>
//!       real `AmbiguityResolver::resolve_with_styles` with the full context (path, file content, line, position) -> `s <name>`
//!   filtercompat <hex text> <all|names>     real `case_constraints::filter_compatible_styles`   -> `c <names|->`
//!   resolve <hex matched> <hex replacement> real `AmbiguityResolver::resolve_with_styles` with an empty context (no file,
//!                                           no line: only the replacement-preference / default-fallback chain)  -> `s <name>`
//!   compoundfirst <hex identifier> <hex search> <hex replace> <names>
//!                                           real `find_compound_variants`  -> `k <n> <hex first replacement|->`
//!   plforms <hex token>                     `pluralizer::pluralize(token, 1|2, false)` exactly as
//!                                           `case_model::{singularize,pluralize}_token_case` call it (those are
//!                                           pub(crate))  -> `p <hex singular|none> <hex plural|none>`
//!   stylelist <opts>                        `plan.styles` of a plan made with these options = the list the real
//!                                           `build_styles_list` returned, or the plan header's 5-style default when it
//!                                           returned `None`  -> `y <names>`
use crate::ops_case::{style_name, style_of};
use crate::util::*;
use renamify_core::case_model::Style;
use renamify_core::{apply_plan, ApplyOptions};
use std::fs;

fn names(s: &str) -> Option<Vec<Style>> {
    if s == "-" || s.is_empty() {
        return Some(vec![]);
    }
    let mut v = vec![];
    for n in s.split(',') {
        v.push(style_of(n)?);
    }
    Some(v)
}

/// (exclude, include, only)
fn parse_opts(s: &str) -> Option<(Vec<Style>, Vec<Style>, Vec<Style>)> {
    let (mut x, mut i, mut o) = (vec![], vec![], vec![]);
    if s == "default" {
        return Some((x, i, o));
    }
    for part in s.split(';') {
        let (k, v) = part.split_once('=')?;
        let list = names(v)?;
        match k {
            "x" => x = list,
            "i" => i = list,
            "o" => o = list,
            _ => return None,
        }
    }
    if !o.is_empty() && (!x.is_empty() || !i.is_empty()) {
        return None; // clap: conflicts_with
    }
    Some((x, i, o))
}

fn show_styles(v: &[Style]) -> String {
    if v.is_empty() {
        "-".to_string()
    } else {
        v.iter().map(|s| style_name(*s)).collect::<Vec<_>>().join(",")
    }
}

fn plan_for(
    dir: &std::path::Path,
    search: &str,
    replace: &str,
    opts: &(Vec<Style>, Vec<Style>, Vec<Style>),
    (plurals, cli_path): (bool, bool),
) -> anyhow::Result<renamify_core::scanner::Plan> {
    // the CLI handlers always pass `Some(AtomicConfig::from_flags_and_config(flags, config.atomic))`; with no flag and no
    // config entry nothing is atomic, but the variant table then comes from `case_model::generate_variant_map_internal`
    // instead of the scanner's own loop
    let atomic = renamify_core::atomic::AtomicConfig::from_flags_and_config(false, false, false, vec![]);
    let (res, _) = renamify_core::operations::plan::plan_operation(
        search,
        replace,
        vec![dir.to_path_buf()],
        vec![],
        vec![],
        true,
        0,
        false,
        false,
        &opts.0,
        &opts.1,
        &opts.2,
        vec![],
        None,
        None,
        None,
        true, // dry run: no lock, no plan file
        false,
        false,
        false,
        vec![],
        vec![],
        vec![],
        plurals,
        false,
        Some(dir),
        if cli_path { Some(&atomic) } else { None },
    )?;
    res.plan.ok_or_else(|| anyhow::anyhow!("no plan in result"))
}

/// `p0|p1` = core API without atomic configuration (plural variants off|on), `q0|q1` = the CLI's call (atomic config present)
fn mode(s: &str) -> Option<(bool, bool)> {
    match s {
        "p0" => Some((false, false)),
        "p1" => Some((true, false)),
        "q0" => Some((false, true)),
        "q1" => Some((true, true)),
        _ => None,
    }
}

fn rewriteline(f: &[&str]) -> String {
    let (Some(line), Some(search), Some(replace), Some(opts)) =
        (unhex(f[1]), unhex_str(f[2]), unhex_str(f[3]), parse_opts(f[4]))
    else {
        return "bad-req".into();
    };
    let Some(plurals) = mode(f[5]) else { return "bad-req".into() };
    let dir = fresh("l");
    let file = dir.join("a.txt");
    fs::write(&file, &line).unwrap();
    let out = (|| {
        let mut plan = match plan_for(&dir, &search, &replace, &opts, plurals) {
            Ok(p) => p,
            Err(_) => return format!("r planerr {} 0", hex(&line)),
        };
        let mut hs: Vec<(u32, String, String)> =
            plan.matches.iter().map(|h| (h.byte_offset, h.content.clone(), h.replace.clone())).collect();
        hs.sort();
        let aopts = ApplyOptions {
            create_backups: false,
            backup_dir: dir.join(".renamify/backups"),
            commit: false,
            force: false,
            skip_symlinks: true,
            log_file: None,
        };
        let status = if plan.matches.is_empty() {
            "ok"
        } else {
            match apply_plan(&mut plan, &aopts) {
                Ok(()) => "ok",
                Err(_) => "applyerr",
            }
        };
        let now = fs::read(&file).unwrap_or_default();
        let mut s = format!("r {} {} {}", status, hex(&now), hs.len());
        for (c, a, b) in hs {
            s.push_str(&format!(" {} {} {}", c, hex(a.as_bytes()), hex(b.as_bytes())));
        }
        s
    })();
    let _ = fs::remove_dir_all(&dir);
    out
}

fn rewritefile(f: &[&str]) -> String {
    let (Some(name), Some(content), Some(search), Some(replace), Some(opts)) =
        (unhex_str(f[1]), unhex(f[2]), unhex_str(f[3]), unhex_str(f[4]), parse_opts(f[5]))
    else {
        return "bad-req".into();
    };
    let Some(plurals) = mode(f[6]) else { return "bad-req".into() };
    if name.is_empty() || name.contains('/') || name.starts_with('.') {
        return "bad-req".into();
    }
    let dir = fresh("f");
    let file = dir.join(&name);
    fs::write(&file, &content).unwrap();
    let out = (|| {
        let mut plan = match plan_for(&dir, &search, &replace, &opts, plurals) {
            Ok(p) => p,
            Err(_) => return format!("f planerr {} 0", hex(&content)),
        };
        let mut hs: Vec<(u64, u32, String, String)> =
            plan.matches.iter().map(|h| (h.line, h.byte_offset, h.content.clone(), h.replace.clone())).collect();
        hs.sort();
        let aopts = ApplyOptions {
            create_backups: false,
            backup_dir: dir.join(".renamify/backups"),
            commit: false,
            force: false,
            skip_symlinks: true,
            log_file: None,
        };
        let status = if plan.matches.is_empty() {
            "ok"
        } else {
            match apply_plan(&mut plan, &aopts) {
                Ok(()) => "ok",
                Err(_) => "applyerr",
            }
        };
        let now = fs::read(&file).unwrap_or_default();
        let mut s = format!("f {} {} {}", status, hex(&now), hs.len());
        for (l, c, a, b) in hs {
            s.push_str(&format!(" {} {} {} {}", l, c, hex(a.as_bytes()), hex(b.as_bytes())));
        }
        s
    })();
    let _ = fs::remove_dir_all(&dir);
    out
}

pub fn dispatch(f: &[&str]) -> Option<String> {
    match f.first().copied() {
        Some("rewriteline") if f.len() >= 6 => Some(rewriteline(f)),
        Some("rewritefile") if f.len() == 7 => Some(rewritefile(f)),
        Some("resolvectx") if f.len() == 7 => {
            let (Some(name), Some(content), Some(line), Ok(pos), Some(m), Some(r)) = (
                unhex_str(f[1]),
                unhex_str(f[2]),
                unhex_str(f[3]),
                f[4].parse::<usize>(),
                unhex_str(f[5]),
                unhex_str(f[6]),
            ) else {
                return Some("bad-req".into());
            };
            let resolver = renamify_core::ambiguity::AmbiguityResolver::new();
            let ctx = renamify_core::ambiguity::AmbiguityContext {
                file_path: Some(std::path::PathBuf::from(name)),
                file_content: Some(content),
                line_content: Some(line),
                match_position: Some(pos),
                project_root: None,
            };
            let poss = renamify_core::case_constraints::filter_compatible_styles(&r, &Style::all_styles());
            let res = resolver.resolve_with_styles(&m, &r, &ctx, Some(&poss));
            Some(format!("s {}", style_name(res.style)))
        },
        Some("filtercompat") if f.len() == 3 => {
            let Some(text) = unhex_str(f[1]) else { return Some("bad-req".into()) };
            let styles = if f[2] == "all" { Style::all_styles() } else { names(f[2])? };
            let v = renamify_core::case_constraints::filter_compatible_styles(&text, &styles);
            Some(format!("c {}", show_styles(&v)))
        },
        Some("resolve") if f.len() == 3 => {
            let (Some(m), Some(r)) = (unhex_str(f[1]), unhex_str(f[2])) else { return Some("bad-req".into()) };
            let resolver = renamify_core::ambiguity::AmbiguityResolver::new();
            let ctx = renamify_core::ambiguity::AmbiguityContext::default();
            let poss = renamify_core::case_constraints::filter_compatible_styles(&r, &Style::all_styles());
            let res = resolver.resolve_with_styles(&m, &r, &ctx, Some(&poss));
            Some(format!("s {}", style_name(res.style)))
        },
        Some("compoundfirst") if f.len() == 5 => {
            let (Some(id), Some(s), Some(r), Some(styles)) = (unhex_str(f[1]), unhex_str(f[2]), unhex_str(f[3]), names(f[4]))
            else {
                return Some("bad-req".into());
            };
            let v = renamify_core::compound_matcher::find_compound_variants(&id, &s, &r, &styles);
            Some(match v.first() {
                Some(m) => format!("k {} {}", v.len(), hex(m.replacement.as_bytes())),
                None => "k 0 -".to_string(),
            })
        },
        Some("plforms") if f.len() == 2 => {
            let Some(t) = unhex_str(f[1]) else { return Some("bad-req".into()) };
            let s = pluralizer::pluralize(&t, 1, false);
            let p = pluralizer::pluralize(&t, 2, false);
            let show = |x: String| if x == t { "none".to_string() } else { hex(x.as_bytes()) };
            Some(format!("p {} {}", show(s), show(p)))
        },
        Some("stylelist") if f.len() == 2 => {
            // the list the scan used is echoed in plan.styles when build_styles_list returned Some(list);
            // for None the plan header shows the scanner's 5-style header default, reported as `none:<that list>`
            let Some(opts) = parse_opts(f[1]) else { return Some("bad-req".into()) };
            let dir = fresh("s");
            let out = match plan_for(&dir, "foo_bar", "baz_qux", &opts, (false, true)) {
                Ok(p) => format!("y {}", show_styles(&p.styles)),
                Err(_) => "y planerr".to_string(),
            };
            let _ = fs::remove_dir_all(&dir);
            Some(out)
        },
        _ => None,
    }
}
