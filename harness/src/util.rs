use std::path::PathBuf;
use std::sync::OnceLock;

pub fn unhex(s: &str) -> Option<Vec<u8>> {
    if s == "-" {
        return Some(vec![]);
    }
    if s.len() % 2 != 0 {
        return None;
    }
    let b = s.as_bytes();
    let mut out = Vec::with_capacity(b.len() / 2);
    for i in (0..b.len()).step_by(2) {
        let h = (b[i] as char).to_digit(16)?;
        let l = (b[i + 1] as char).to_digit(16)?;
        out.push((h * 16 + l) as u8);
    }
    Some(out)
}

pub fn unhex_str(s: &str) -> Option<String> {
    String::from_utf8(unhex(s)?).ok()
}

pub fn hex(b: &[u8]) -> String {
    if b.is_empty() {
        return "-".to_string();
    }
    let mut s = String::with_capacity(b.len() * 2);
    for x in b {
        s.push_str(&format!("{:02x}", x));
    }
    s
}

static SCRATCH: OnceLock<tempfile::TempDir> = OnceLock::new();

/// one scratch directory per harness process, removed at exit of the TempDir
pub fn scratch() -> PathBuf {
    SCRATCH
        .get_or_init(|| tempfile::Builder::new().prefix("renamify-verif-h.").tempdir().unwrap())
        .path()
        .to_path_buf()
}

/// fresh sub-directory
pub fn fresh(name: &str) -> PathBuf {
    use std::sync::atomic::{AtomicUsize, Ordering};
    static N: AtomicUsize = AtomicUsize::new(0);
    let d = scratch().join(format!("{}{}", name, N.fetch_add(1, Ordering::SeqCst)));
    std::fs::create_dir_all(&d).unwrap();
    d
}

/// remove the per-process scratch directory (statics are never dropped)
pub fn cleanup_scratch() {
    if let Some(d) = SCRATCH.get() {
        let _ = std::fs::remove_dir_all(d.path());
    }
}
