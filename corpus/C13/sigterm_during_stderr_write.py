import os,subprocess,signal,time,sys,tempfile,fcntl
B=sys.argv[1]
d=tempfile.mkdtemp(prefix="sigterm.")
r,w=os.pipe()
# fill the pipe so that the child's first eprintln blocks inside write(2) while it holds the stderr lock
fl=fcntl.fcntl(w,fcntl.F_GETFL); fcntl.fcntl(w,fcntl.F_SETFL,fl|os.O_NONBLOCK)
try:
    while True: os.write(w,b"x"*4096)
except BlockingIOError: pass
fcntl.fcntl(w,fcntl.F_SETFL,fl)
p=subprocess.Popen([B,"test-lock","--delay","300","--no-auto-init"],cwd=d,env=dict(os.environ,HOME=d,NO_COLOR="true"),stderr=w,stdout=subprocess.DEVNULL)
os.close(w)
time.sleep(0.5)
p.send_signal(signal.SIGTERM)
time.sleep(0.3)
# now drain the pipe so the child can go on
os.set_blocking(r,False)
t0=time.time(); data=b""
while p.poll() is None and time.time()-t0<10:
    try: data+=os.read(r,65536)
    except BlockingIOError: time.sleep(0.01)
try: data+=os.read(r,1<<20)
except Exception: pass
print("rc",p.returncode, "lock left:", os.path.exists(os.path.join(d,".renamify","renamify.lock")))
print(data.replace(b"x",b"")[-400:].decode("utf-8","replace"))
