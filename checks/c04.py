"""C04 — A failed apply changes nothing.

prove       RModel.Props.C04 over the operation-level model RModel.Model.Exec (every fault index k, every errno)
correspond  (1) fault-free run of every scenario under shim/fsshim.c: the abstracted syscall list must equal the
                op list of the model (driver op `exectrace`), in the fine form (one item per log line, failed
                calls kept) and in the form of `shim.abstract`;
            (2) for EVERY mutating call k of that trace and every errno: the real run with the call failing
                vs. the model's prediction for the same k — exit class, user tree, history, lock, stored plan
                and the whole error-path trace (rollback renames, swallowed errors, lock release);
            (3) stale-plan perturbations between `plan` and `apply`.
oracle      independent of the model: exit != 0 => user tree and parsed history equal the pre-command snapshot;
            exit 0 => tree equals checks/oracle.py::expected_tree, history gained exactly one entry, the plan is
            stored.  Every oracle failure is decomposed into defect components; each component must be a listed
            finding *with its window* and the model must predict the observed state — anything else is a VIOLATION
            whose replay is (scenario, k, mode, errno).
"""
import json
import os
from multiprocessing import Pool

from . import common, faultlib as F, gen, oracle

PROP = "C04"
MAX_VIOLATIONS = 5          # replay files written per run; further failing points are only counted
ERRNOS_QUICK = ["EIO"]
ERRNOS_THOROUGH = ["EIO", "ENOSPC", "EACCES"]
PERTURB = ["edited", "truncated", "deleted", "latin1", "dir", "occupied", "line_tail"]
# line_tail: text appended to the END of the line that carries the file's last match (a trailing comment): every planned byte
# range still holds the planned text, so the plan is NOT stale and apply must succeed completely
CORPUS = os.path.join(common.ROOT, "corpus", PROP)


# ------------------------------------------------------------------------------------------------
# the oracle

def _core(tree):
    return {k: v for k, v in tree.items()
            if not (k.endswith(".PID.renamify.tmp") or k == ".tmpRAND" or k.startswith(".tmpRAND/"))}


def components(obs, exp_tree, cmd):
    """-> (holds, set of defect components, facts).  Pure observation of the real run."""
    pre, post = obs["pre"], obs["post"]
    rc = obs["rc"]
    comps = set()
    core = _core(post["tree"])
    extras = [k for k in post["tree"] if k not in core]
    hist_same = (post["hist_state"], post["hist"]) == (pre["hist_state"], pre["hist"])
    hist_gained = post["hist_state"] == "ok" and post["hist"][:-1] == pre["hist"] and len(post["hist"]) == len(pre["hist"]) + 1 \
        and pre["hist_state"] in ("ok", "absent")
    stored = F.stored_flag(obs, cmd) == "1"
    facts = {"rc": rc, "extras": extras, "hist_same": hist_same, "hist_gained": hist_gained, "stored": stored,
             "tree_same": post["tree"] == pre["tree"], "tree_expected": exp_tree is not None and post["tree"] == exp_tree}
    if rc == 0:
        if exp_tree is None:
            comps.add("success_on_unplannable")
        elif core != exp_tree:
            comps.add("success_tree_wrong")
        if any(k.endswith(".PID.renamify.tmp") for k in extras):
            comps.add("tmp_left")
        if any(k.startswith(".tmpRAND") for k in extras):
            comps.add("probe_left_on_success")
        if not hist_gained:
            comps.add("success_not_recorded")
        elif not stored:
            comps.add("success_plan_not_stored")
        return not comps, comps, facts
    # reported failure (error exit or panic): nothing may have changed
    if any(k.endswith(".PID.renamify.tmp") for k in extras):
        comps.add("tmp_left")
    if any(k.startswith(".tmpRAND") for k in extras):
        comps.add("probe_left_on_failure")
    if core != _core(pre["tree"]):
        moved = [k for k in pre["tree"] if k not in core]
        if exp_tree is not None and core == exp_tree and moved:
            comps.add("tree_fully_applied")
        else:
            # (a plan without renames that is "fully applied" has only rewritten files: that is content_new_kept)
            changed = [k for k in pre["tree"] if k in core and core[k] != pre["tree"][k]]
            new_ok = True
            if changed:
                # every changed file must hold exactly the planned new content (anything else is damage)
                for k in changed:
                    want = planned_content(obs, k)
                    if want is None or core[k][0] != "f" or core[k][2] != want or core[k][1] != pre["tree"][k][1]:
                        new_ok = False
                comps.add("content_new_kept" if new_ok else "content_damaged")
            if moved:
                comps.add("paths_moved")
            if not moved and not changed:
                comps.add("tree_other")
    if not hist_same:
        comps.add("history_gained_on_failure" if hist_gained else "history_damaged")
    return not comps, comps, facts


def planned_content(obs, rel):
    plan = obs.get("_plan")
    edits = oracle.plan_edits(plan, "/") if plan else {}
    node = obs["pre"]["tree"].get(rel)
    if node is None or node[0] != "f" or rel not in edits:
        return None
    new, prob = oracle.splice(node[2], edits[rel])
    return new


# window clauses of the listed findings: component -> [(slug, predicate(point, obs))]
def _is_tmp_op(pt, obs):
    return pt is not None and ".PID.renamify.tmp" in pt["op"] and pt["op"].split(" ")[0] in ("write", "chmod", "rename")


def _ph(*names):
    return lambda pt, obs: pt is not None and pt.get("phase") in names


FINDINGS = {
    "tmp_left": [("tmp_left_behind", _is_tmp_op)],
    # clause = failure after the first completed content edit CAUSED BY an injected fault (any later fault point: the renames
    # are rolled back, the rewritten files are not) or by a stale plan.  A failing run with neither is not this finding.
    "content_new_kept": [("content_not_rolled_back", lambda pt, obs: pt is not None or obs.get("_perturb") is not None)],
    "paths_moved": [
        ("rollback_nested_fails", lambda pt, obs: pt is not None and "Rollback encountered errors" in obs["stderr"]),
        ("log_failure_skips_rollback", lambda pt, obs: pt is not None and pt.get("phase") == "renames" and pt["op"] == "log"
         and "Rollback" not in obs["stderr"]),
    ],
    "tree_fully_applied": [("late_failure_no_rollback", _ph("renames", "backup", "history", "plans", "final"))],
    "history_gained_on_failure": [("failure_after_history_recorded", _ph("plans", "final", "history"))],
    "success_not_recorded": [("history_write_failure_swallowed",
                              lambda pt, obs: pt is not None and pt["op"] == "write .renamify/history.json")],
    "probe_left_on_success": [("probe_dir_left_behind", _ph("probe"))],
    "probe_left_on_failure": [("probe_dir_left_behind", _ph("probe"))],
}


def classify(comps, pt, obs):
    """-> (slugs, unexplained components)"""
    slugs, bad = [], []
    for c in sorted(comps):
        hit = None
        for slug, pred in FINDINGS.get(c, []):
            if pred(pt, obs):
                hit = slug
                break
        if hit:
            slugs.append(hit)
        else:
            bad.append(c)
    return slugs, bad


# ------------------------------------------------------------------------------------------------

def replay_case(sc, pt, errno, perturb=None):
    return {"scenario": sc["name"], "tree": {k: list(v) for k, v in sc["tree"].items()}, "cmd": sc["cmd"], "setup": sc["setup"],
            "k": None if pt is None else pt["k"], "mode": None if pt is None else pt["mode"], "errno": errno,
            "op": None if pt is None else pt["op"], "occurrence": None if pt is None else pt.get("occurrence"),
            "pos": None if pt is None else pt.get("pos"), "phase": None if pt is None else pt.get("phase"), "perturb": perturb}


def judge(ctx, sc, plan, exp_tree, pt, errno, obs, model, perturb=None, quiet_known=False):
    """oracle + classification + model comparison for one observed run.  Returns the list of slugs seen."""
    obs["_plan"] = plan
    obs["_perturb"] = perturb
    cmd = sc["cmd"]
    holds, comps, facts = components(obs, exp_tree, cmd)
    diffs = F.compare_state(obs, model, cmd) if model else [("model", "no answer")]
    trace_ok = True
    if model and (pt is None or pt["mode"] == "fail"):
        mt = F.model_trace_for_fail(model, pt) if pt else model["ops"]
        trace_ok = F.show(obs["groups"]) == mt
    case = replay_case(sc, pt, errno, perturb)
    ctx.count(f"rc:{F.rc_class(obs['rc'])}")
    if pt:
        ctx.count(f"phase:{pt.get('phase')}")
    if diffs or not trace_ok:
        if not any(b["kind"] == "correspondence" for b in ctx.broken):
            ctx.broke("correspondence", "exectrace vs real run under fault",
                      {"case": case, "state_diff": diffs, "trace_equal": trace_ok,
                       "real_trace": F.show(obs["groups"])[-12:], "model_trace": (model or {}).get("ops", [])[-12:]})
        ctx.count("model_disagreement")
    if holds:
        return []
    slugs, bad = classify(comps, pt, obs)
    observed = {"rc": obs["rc"], "components": sorted(comps), "facts": facts, "stderr": obs["stderr"][-300:],
                "tree_diff": common.snap_diff(obs["pre"]["tree"], obs["post"]["tree"]),
                "history_before": obs["pre"]["hist"], "history_after": [obs["post"]["hist_state"], obs["post"]["hist"]]}
    if (bad or diffs) and len(ctx.violations) >= MAX_VIOLATIONS:
        ctx.count("violations_not_reported_individually")
        return ["VIOLATION"]
    if bad or diffs:
        ctx.violation("fault", case,
                      expected="exit != 0 => user tree and history unchanged; exit 0 => whole plan applied, one new history entry, plan stored",
                      observed=observed, model_prediction=None if not model else {"outcome": model["outcome"], "hist": model["hist"]},
                      note=("components not covered by a listed finding with its window: %s" % bad) if bad else
                      "matches the shape of a listed finding but the model does not predict this state")
        return ["VIOLATION"]
    out = []
    for s in slugs:
        ctx.count("finding:" + s)
        ctx.cov.setdefault("first_case", {}).setdefault(s, {"case": case, "observed": observed})
        if ctx.known(s):
            out.append(s)
        else:
            ctx.violation("fault", case, expected="(finding not listed in KNOWN_FINDINGS.txt)", observed=observed,
                          note=f"failure shape {s} is not a listed finding")
            return ["VIOLATION"]
    return out


def c11_tree(tree):
    """tree of a replay file (JSON lists, text as str) -> materialize() form"""
    out = {}
    for k, v in tree.items():
        v = tuple(v)
        if v[0] == "f" and isinstance(v[1], str):
            v = ("f", v[1].encode("utf-8") if not v[1].startswith("hex:") else bytes.fromhex(v[1][4:]), v[2])
        out[k] = v
    return out


def perturb_jobs(sc, plan):
    """stale-plan perturbations: each kind on the first and on the last edited file (BTreeMap order)"""
    files = sorted({m["file"] for m in plan["matches"]})
    dests = [r["new_path"] for r in plan["paths"]]
    jobs = []
    for kind in PERTURB:
        if kind == "occupied":
            targets = dests[:1]
        else:
            targets = [files[0], files[-1]] if len(files) > 1 else files[:1]
        for t in targets:
            if kind == "line_tail":
                jobs.append((kind, t, max(m["end"] for m in plan["matches"] if m["file"] == t)))
            else:
                jobs.append((kind, t))
    return jobs


def perturbed_tree(pre_tree, p):
    kind, rel = p[0], p[1]
    t = dict(pre_tree)
    if kind == "line_tail":
        n = t[rel]
        i = n[2].find(b"\n", p[2])
        i = len(n[2]) if i < 0 else i
        t[rel] = (n[0], n[1], n[2][:i] + b" // reviewed" + n[2][i:])
    elif kind == "edited":
        n = t[rel]; t[rel] = (n[0], n[1], b"INSERTED " + n[2])
    elif kind == "truncated":
        n = t[rel]; t[rel] = (n[0], n[1], b"f")
    elif kind == "deleted":
        del t[rel]
    elif kind == "latin1":
        n = t[rel]; t[rel] = (n[0], n[1], b"caf\xe9 " + n[2])
    elif kind == "occupied":
        t[rel] = ("f", 0o644, b"occupant\n")
    elif kind == "dir":
        t[rel] = ("d", 0o755, "")
    return t


def run_corpus(ctx, pool, fam_by_name):
    """replay the recorded witnesses first: a finding is printed only after it has been re-observed"""
    if not os.path.isdir(CORPUS):
        return
    for fn in sorted(os.listdir(CORPUS)):
        if not fn.endswith(".json"):
            continue
        w = json.load(open(os.path.join(CORPUS, fn)))
        replay_one(ctx, w["case"], expect_slug=w.get("finding"))


def find_point(base, case):
    """the fault point of a recorded case in the current trace: by (op text, occurrence, position), else by k"""
    pts = F.fault_points(base["groups"], [case["mode"]])
    ph = F.phase_map(base["groups"])
    for p in pts:
        p["phase"] = ph[p["group"]]
    if case.get("op") is not None and case.get("occurrence") is not None:
        occ = -1
        for j, g in enumerate(base["groups"]):
            if g["op"] == case["op"]:
                occ += 1
                if occ == case["occurrence"]:
                    for p in pts:
                        if p["group"] == j and p["pos"] == case.get("pos", 0):
                            return p
    for p in pts:
        if p["k"] == case.get("k"):
            return p
    return None


def replay_one(ctx, case, expect_slug=None):
    sc = {"name": case["scenario"], "tree": {k: tuple(v) for k, v in case["tree"].items()}, "cmd": case["cmd"],
          "setup": case["setup"]}
    for k, v in list(sc["tree"].items()):
        if v[0] == "f" and isinstance(v[1], str):
            sc["tree"][k] = ("f", v[1].encode("utf-8") if not v[1].startswith("hex:") else bytes.fromhex(v[1][4:]), v[2])
    plan, pre0 = F.plan_of(sc)
    perturb = tuple(case["perturb"]) if case.get("perturb") else None
    if perturb:
        obs = F.run_point({"sc": sc, "k": None, "perturb": perturb})
        tree = perturbed_tree(pre0["tree"], perturb)
        exp_tree, _ = oracle.expected_tree(tree, plan, "/")
        model = F.parse_model(common.run_model([F.model_request(sc, plan, pre0["tree"], ("none",), tree_override=tree)])[0])
        return judge(ctx, sc, plan, None if obs["rc"] != 0 else exp_tree, None, None, obs, model, perturb=perturb)
    base = F.run_point({"sc": sc, "k": None})
    exp_tree, _ = oracle.expected_tree(pre0["tree"], plan, "/")
    if case.get("k") is None:
        pt, obs = None, base
    else:
        pt = find_point(base, case)
        if pt is None:
            ctx.notes.append(f"witness point of {case.get('scenario')} {case.get('op')} no longer exists in the trace")
            return []
        obs = F.run_point({"sc": sc, "k": pt["k"], "mode": pt["mode"], "errno": case.get("errno")})
    ms, _ = F.model_for(sc, plan, pre0, [(pt, obs)])
    return judge(ctx, sc, plan, exp_tree, pt, case.get("errno"), obs, ms[0])


def run(ctx):
    ctx.cov["rule"] = ("scenario family: 1-3 edited files x 0-2 renames (nested directory pair, file edited and renamed, renamed symlinks incl. a dangling one, modes, "
                       "multi-byte text) x {rename -y, plan+apply, redo, replace} x {fresh, one earlier history entry}; for each "
                       "scenario EVERY mutating libc call of the real trace fails once (errno EIO; thorough: EIO, ENOSPC, EACCES); "
                       "plus stale-plan perturbations (edited, truncated, deleted, latin-1, replaced by a directory, destination "
                       "occupied) on the first and the last edited file; plus the family 'refused for a reason that is only detected late': "
                       "plan, apply, [undo], [redo], then the same plan again by id / from the saved plan file, through the CLI and "
                       "in-process (no fault, no stale file: any change on failure is a violation). non-trivial = a fault was "
                       "injected, the plan is stale, or the plan id is already recorded; "
                       "distinct = (scenario, k, errno)")
    ctx.assumptions += ["POSIX semantics of the eight mutating calls as written in RModel.Model.Exec.execOp",
                        "a process killed or failing at call k has issued exactly the calls before k (single mutating thread; confirmed by the shim)",
                        "history.json < 8 KiB (one write(2) from the BufWriter)", "no case-only renames (second probe file not modelled)"]
    try:
        from translate import execflags
        execflags.run()
    except Exception as ex:                      # a translator that cannot parse its source is a broken tie
        ctx.broke("translator", "translate/execflags.py", str(ex))
    ctx.prove("RModel.Props.C04")
    ok, msg = common.cargo_build()
    if not ok:
        ctx.broke("build", "cargo", msg)
        return
    fam = [s for s in F.family(True) if s["cmd"] != "undo"]
    scs = fam if ctx.thorough else fam[:6]
    errnos = ERRNOS_THOROUGH if ctx.thorough else ERRNOS_QUICK
    with Pool(16) as pool:
        run_corpus(ctx, pool, {s["name"]: s for s in fam})
        cur, items = None, []

        def flush():
            if not items:
                return
            sc, plan, pre0, exp_tree = cur
            ms, reqs = F.model_for(sc, plan, pre0, [(p, o) for p, e, o in items])
            ctx.cov["disagreements_checked"] += len(items)
            for (p, en, o), m in zip(items, ms):
                ctx.case((sc["name"], p["k"], en))
                judge(ctx, sc, plan, exp_tree, p, en, o, m)
            items.clear()

        for sc, plan, pre0, base, exp_tree, pt, en, obs in F.campaign(pool, scs, ["fail"], errnos, False, log=common.log):
            if exp_tree is None and pt is None and obs is None and "setup_error" in base:
                ctx.broke("machinery", "setup", base["setup_error"])
                continue
            if pt is None:
                flush()
                cur = (sc, plan, pre0, exp_tree)
                # fault-free run: trace correspondence in both forms, and the success oracle
                ms, _ = F.model_for(sc, plan, pre0, [(None, base)])
                m = ms[0]
                ctx.case((sc["name"], "fault-free"), nontrivial=False)
                if m is None or F.collapse_logs(m["ops"]) != base["shim_view"]:
                    ctx.broke("correspondence", "trace (shim.abstract form)", {"scenario": sc["name"],
                              "model": None if m is None else F.collapse_logs(m["ops"])[-10:], "real": base["shim_view"][-10:]})
                judge(ctx, sc, plan, exp_tree, None, None, base, m)
                ctx.sample({"scenario": sc["name"], "ops": len(base["groups"]), "raw_calls": base["raw_events"],
                            "trace_tail": F.show(base["groups"])[-6:]})
                continue
            items.append((pt, en, obs))
        flush()
        # refusals that must come early ----------------------------------------------------------------------
        late_refusals(ctx, pool)
        stale_redo(ctx)
        # stale plans ---------------------------------------------------------------------------------
        for sc in [s for s in scs if s["cmd"] == "apply"]:
            plan, pre0 = F.plan_of(sc)
            pj = perturb_jobs(sc, plan)
            res = pool.map(F.run_point, [{"sc": sc, "k": None, "perturb": p} for p in pj])
            reqs = []
            for p in pj:
                reqs.append(F.model_request(sc, plan, pre0["tree"], ("none",), tree_override=perturbed_tree(pre0["tree"], p)))
            ms = [F.parse_model(l) for l in common.run_model(reqs)]
            for p, obs, m in zip(pj, res, ms):
                ctx.case((sc["name"], "perturb", p))
                ctx.count("perturb:" + p[0])
                if "setup_error" in obs:
                    ctx.broke("machinery", "setup", obs["setup_error"])
                    continue
                tree = perturbed_tree(pre0["tree"], p)
                exp_tree, prob = oracle.expected_tree(tree, plan, "/")
                judge(ctx, sc, plan, exp_tree if prob is None else None, None, None, obs, m, perturb=p)


# ------------------------------------------------------------------------------------------------
# redo of an operation whose stored plan no longer fits the files (no fault injected)

STALE_REDO_TREES = {
    "two-matches-later-shifted": {"a.txt": "foo_bar top\n", "m.txt": "foo_bar one foo_bar\nend foo_bar\n", "z.txt": "zz\n"},
    "dir-and-two-files": {"a.txt": "use foo_bar\n", "lib/foo_bar.rs": "fn foo_bar() {}\n// foo_bar again\n", "lib/util.rs": "foo_bar x foo_bar\n"},
}
# (file, what is done to it between undo and redo)
STALE_EDITS = [("insert-between", lambda b: b.replace(b" one ", b" one more ", 1) if b" one " in b else b.replace(b" x ", b" xx ", 1)),
               ("later-occurrence-changed", lambda b: b[:b.rindex(b"foo_bar")] + b"foo_baz" + b[b.rindex(b"foo_bar") + 7:]),
               ("truncated-after-first", lambda b: b[:b.index(b"foo_bar") + 7] + b"\n"),
               ("first-occurrence-changed", lambda b: b.replace(b"foo_bar", b"foo_baz", 1)),
               ("deleted", None)]


def stale_redo_case(tname, fname, ename):
    """rename -y; undo latest; edit one planned file; redo latest.  -> dict(rc, changed: files that differ from the tree just
    before the redo, stderr)"""
    tree = {k: ("f", v.encode(), 0o644) for k, v in STALE_REDO_TREES[tname].items()}
    edit = dict(STALE_EDITS)[ename]
    with common.scratch() as d:
        common.materialize(d, tree)
        cmds = [["rename", "foo_bar", "baz_qux", "-y", "--no-auto-init", "--quiet"], ["undo", "latest"]]
        for c in cmds:
            rc, so, se = common.cli(c, d)
            if rc != 0:
                return {"setup_error": {"cmd": c, "rc": rc, "stderr": se.decode("utf-8", "replace")[-300:]}}
        p = os.path.join(d, fname)
        if edit is None:
            os.unlink(p)
        else:
            data = open(p, "rb").read()
            open(p, "wb").write(edit(data))
        before = common.snapshot(d)
        rc, so, se = common.cli(["redo", "latest"], d)
        after = common.snapshot(d)
        changed = sorted(k for k in set(before) | set(after) if before.get(k) != after.get(k))
        return {"rc": rc, "changed": changed, "stderr": se.decode("utf-8", "replace")[-300:],
                "commands": [" ".join(c) for c in cmds] + [f"<{ename}: {fname}>", "redo latest"]}


def stale_redo(ctx):
    """a redo that cannot be carried out completely must be refused before anything is touched (this is not the listed
    finding content_not_rolled_back: that one is about `apply` meeting a stale file, which has no pre-validation; `redo`
    validates the whole stored plan first)"""
    for tname, files in sorted(STALE_REDO_TREES.items()):
        for fname in sorted(files):
            if "foo_bar" not in files[fname] or files[fname].count("foo_bar") < 2:
                continue
            for ename, _ in STALE_EDITS:
                obs = stale_redo_case(tname, fname, ename)
                ctx.case(("stale-redo", tname, fname, ename))
                if "setup_error" in obs:
                    ctx.broke("machinery", "stale redo setup", obs["setup_error"])
                    return
                ctx.count("stale-redo:" + ("refused-clean" if obs["rc"] != 0 and not obs["changed"] else
                                           "ok" if obs["rc"] == 0 else "FAILED-AFTER-CHANGE"))
                if obs["rc"] != 0 and obs["changed"]:
                    ctx.violation("history", {"stale_redo": {"tree": tname, "file": fname, "edit": ename}, "files": files,
                                              "sequence": obs["commands"]},
                                  expected="redo fails => no file differs from the tree just before the redo",
                                  observed={"rc": obs["rc"], "files_changed_by_the_failed_redo": obs["changed"], "stderr": obs["stderr"]},
                                  note="a failed redo left files rewritten (no fault injected; the stored plan no longer fits one file)")
                    return


def late_refusals(ctx, pool):
    """Scenario family "apply refused for a reason that is only detected late": the plan's id is already in the history
    (the operation is still applied, was undone, or was undone and redone) and the plan is applied AGAIN, by id or from
    the saved plan file, through the CLI and in-process.  No fault is injected and no file is stale, so no listed
    finding can explain a failure that changed something."""
    jobs = F.late_jobs(ctx.thorough)
    res = pool.map(F.run_late, jobs)
    for job, obs in zip(jobs, res):
        ctx.case(("late", job["name"]))
        ctx.count("late:" + job["seq"] + "/" + job["how"])
        if "setup_error" in obs:
            ctx.broke("machinery", "late setup", obs["setup_error"])
            continue
        judge_late(ctx, job, obs)
        # the model's prediction for `apply <id>` after undo (driver cmd `reapply`)
        if job["seq"] == "undo" and job["how"] == "id":
            sc = {"name": job["name"], "tree": job["tree"], "cmd": "reapply", "setup": "fresh"}
            m = F.parse_model(common.run_model([F.model_request(sc, obs["plan"], obs["pre0"]["tree"], ("none",))])[0])
            ctx.cov["disagreements_checked"] += 1
            diffs = F.compare_state(obs, m, "reapply") if m else [("model", "no answer")]
            if m and F.show(obs["groups"]) != m["ops"]:
                diffs.append(("trace", m["ops"][-8:], F.show(obs["groups"])[-8:]))
            if diffs and not any(b["name"] == "late refusal: exectrace reapply vs real run" for b in ctx.broken):
                ctx.broke("correspondence", "late refusal: exectrace reapply vs real run",
                          {"sequence": obs["commands"], "diff": diffs})
    # in-process: the same sequences through the real apply_plan / undo_renaming / redo_renaming
    T = F.late_trees()
    reqs, meta = [], []
    names = ["e3r2nest", "e3r0", "ronly"] + (["e2r3nest"] if ctx.thorough else [])
    for n in names:
        sc = {"name": n, "tree": T[n], "cmd": "apply", "setup": "fresh"}
        plan, pre0 = F.plan_of(sc)
        tree = gen.snap_to_tree(pre0["tree"])
        hunks = [(m["file"], m["content"], m["replace"], m["start"], m["end"]) for m in plan["matches"]]
        rens = [("d" if r["kind"] == "dir" else "f", r["path"], r["new_path"]) for r in plan["paths"]]
        for seq in ("undo", "redo", "applied"):
            reqs.append(" ".join(["lateapply", seq] + gen.wire_tree(tree) + gen.wire_hunks(hunks) + gen.wire_rens(rens)))
            meta.append((n, seq))
    try:
        outs = common.run_impl(reqs)
    except RuntimeError as ex:
        ctx.broke("machinery", "vharness lateapply", str(ex))
        return
    for (n, seq), req, out in zip(meta, reqs, outs):
        ctx.case(("late-inproc", n, seq))
        ctx.count("late-inproc:" + seq)
        f = out.split(" ")
        if out.strip() == "bad-op":
            # harness/src/main.rs does not list ops_c04late yet (wiring): the CLI half of the family has run
            if "vharness op `lateapply` not wired: in-process half of the late-refusal family skipped" not in ctx.notes:
                ctx.notes.append("vharness op `lateapply` not wired: in-process half of the late-refusal family skipped")
            continue
        if len(f) < 5 or f[0] != "ok":
            ctx.broke("machinery", "vharness lateapply", out[:200])
            continue
        outcome, tree_same, hist_same = f[1], f[2] == "1", f[3] == "1"
        if outcome != "ok" and not (tree_same and hist_same):
            if len(ctx.violations) < MAX_VIOLATIONS:
                ctx.violation("history", {"late_inproc": {"tree": n, "seq": seq}, "request": req,
                                          "sequence": ["apply_plan(plan p1)"] + {"undo": ["undo_renaming(p1)"], "redo": ["undo_renaming(p1)", "redo_renaming(p1)"], "applied": []}[seq]
                                          + ["apply_plan(plan p1) again"]},
                              expected="the second apply_plan is refused with the tree and the history unchanged (or succeeds completely)",
                              observed={"outcome": outcome, "tree_unchanged": tree_same, "history_unchanged": hist_same, "history": f[4]},
                              note="in-process: a failed apply changed the tree or the history although no fault was injected and no file is stale")
        ctx.sample({"late_inproc": n + "/" + seq, "answer": " ".join(f[:5])}, limit=8)


def judge_late(ctx, job, obs):
    pre, post = obs["pre"], obs["post"]
    rc = obs["rc"]
    tree_same = post["tree"] == pre["tree"]
    hist_same = (post["hist_state"], post["hist"]) == (pre["hist_state"], pre["hist"])
    ctx.count("late_rc:" + F.rc_class(rc))
    ok = True
    if rc != 0:
        ok = tree_same and hist_same
    else:
        # a success must be a complete, recorded apply
        exp, prob = oracle.expected_tree(pre["tree"], obs["plan"], "/")
        ok = prob is None and post["tree"] == exp and post["hist_state"] == "ok" and len(post["hist"]) == len(pre["hist"]) + 1
    if ok:
        return
    if len(ctx.violations) >= MAX_VIOLATIONS:
        ctx.count("violations_not_reported_individually")
        return
    ctx.violation("history", {"late": {"name": job["name"], "tree": {k: list(v) for k, v in job["tree"].items()},
                                       "seq": job["seq"], "how": job["how"]}, "sequence": obs["commands"]},
                  expected="the last command is refused with the user tree and the history exactly as they were (or succeeds: whole plan applied, one new entry)",
                  observed={"rc": rc, "stderr": obs["stderr"], "tree_unchanged": tree_same, "history_unchanged": hist_same,
                            "tree_diff": common.snap_diff(pre["tree"], post["tree"]),
                            "history_before": pre["hist"], "history_after": [post["hist_state"], post["hist"]]},
                  note="a failed apply changed the tree or the history although NO fault was injected and NO file is stale: "
                       "not content_not_rolled_back (whose clause needs one of the two), the refusal came too late")


def replay(ctx, path):
    obj = json.load(open(path))
    case = obj["case"]
    ok, msg = common.cargo_build()
    if not ok:
        ctx.broke("build", "cargo", msg)
        return
    if isinstance(case, list):          # an `obligation` replay file: nothing to re-run but the whole check
        print(json.dumps(obj, indent=1)[:3000])
        return
    if "stale_redo" in case:
        q = case["stale_redo"]
        obs = stale_redo_case(q["tree"], q["file"], q["edit"])
        print(json.dumps(obs, indent=1))
        if obs.get("rc") != 0 and obs.get("changed"):
            ctx.violation("history", case, expected=obj.get("expected"), observed=obs)
        return
    if "late" in case:
        lt = case["late"]
        job = {"name": lt["name"], "tree": c11_tree(lt["tree"]), "seq": lt["seq"], "how": lt["how"]}
        obs = F.run_late(job)
        if "setup_error" in obs:
            ctx.broke("machinery", "late setup", obs["setup_error"])
            return
        judge_late(ctx, job, obs)
        print("replayed:", " ; ".join(obs["commands"]), "-> rc", obs["rc"], "tree unchanged", obs["post"]["tree"] == obs["pre"]["tree"],
              "history unchanged", obs["post"]["hist"] == obs["pre"]["hist"])
        return
    if "late_inproc" in case:
        out = common.run_impl([case["request"]])[0]
        f = out.split(" ")
        print("replayed in-process:", case["sequence"], "->", " ".join(f[:5]))
        if len(f) >= 5 and f[0] == "ok" and f[1] != "ok" and not (f[2] == "1" and f[3] == "1"):
            ctx.violation("history", case, expected=obj.get("expected"), observed=" ".join(f[:5]))
        return
    slugs = replay_one(ctx, case)
    print("replayed:", case.get("scenario"), case.get("op"), case.get("k"), case.get("mode"), case.get("errno"), case.get("perturb"),
          "->", slugs or "property holds at this point")
