"""C13 — Interrupts never leave a half-applied rename.

translate   translate/signal_handlers.py -> Gen/SignalHandlers.lean (handler bodies, where the flag is tested, exit code,
            prompt guard users, release of held locks before the prompt exit)
prove       RModel.Props.C13 (signals_do_not_change_effects for ANY delivery points; status_130_iff_signalled;
            prompt_exit_no_change / prompt_exit_releases_held_locks; C13_full_holds; before-fix theorems)
oracle      scenario family (1..3 edited files x 0..2 renames incl. a file inside a renamed directory) x commands
            rename -y | plan+apply | undo | redo | replace -y: SIGINT / SIGTERM, once / three times, raised by the shim
            immediately before mutating call k of the real trace.  Independent verdict per run:
              user tree in {snapshot before, complete reference result}; history entry iff complete; lock file gone;
              no temp file; status 130 — for SIGTERM always (the handler runs synchronously in the signalled thread),
              for SIGINT 130, or 0 with the complete result when ctrlc's helper thread (which runs the handler body)
              stored the flag only after main had read it: the command "had already finished" when the interrupt was
              noticed.  If every SIGINT x3 run of a command ends with 0 the flag is evidently never set: violation.
            Prompts through a pty: `rename` without -y (guarded prompt: SIGINT exits 130 at once, nothing changed, lock
            released; SIGTERM is honoured once the prompt is answered) and `replace` without -y (no guard: both
            signals are honoured once the prompt is answered).
            Apply phase after the prompt: `rename` without -y on a pty, answered "y", SIGINT / SIGTERM raised by the shim
            immediately before each mutating call that follows the prompt (the guard must be gone by then).
            Full pipe: every mutating command with stderr (and, separately, stdout) connected to a pipe that is full; SIGTERM /
            SIGINT delivered while the process is blocked in the write; then the pipe is drained.  (The SIGTERM handler runs in
            signal context inside that write: anything but an atomic store there aborted the process, status -6.)
            Failing command: apply of a stale plan (fails by itself after editing the first file) + signal must report
            the failure status and the Error line, exactly as without the signal.
            The three repaired defects (lock left at the prompt exit, 130 over a failed command) are VIOLATIONs if
            they return.
correspond  every run: letters of the traced calls -> `c13run` of the Lean model (status, calls performed, lock,
            history, user calls) vs observed; the abstract trace of a signalled run must equal the signal-free one.
"""
import concurrent.futures
import json
import os
import re
import select
import shutil
import signal as pysignal
import subprocess
import tempfile
import time

from . import common, gen, oracle, shim

LOCK = ".renamify/renamify.lock"
HIST = ".renamify/history.json"


# ------------------------------------------------------------------------------------------------
# scenarios

def build_tree(nf, nr, sw, oneline):
    """3 files; the first `nf` contain the term; `nr` renames: 0 none, 1 a file name, 2 a directory and a file in it"""
    S, C, P = gen.render("snake", sw), gen.render("camel", sw), gen.render("pascal", sw)
    names = ["a.txt", "src/main.rs", "docs/notes.md"]
    if nr >= 1:
        names[1] = f"src/{S}.rs"
    if nr >= 2:
        names[2] = f"{S}/{S}_notes.md"
    if oneline:
        texts = [f"let {S} = 1;\n", f"use {S};\n", f"# {S}\n"]
    else:
        texts = [f"let {S} = {C}();\n// {P} here\n", f"use {S};\nfn main() {{ {S}(); }}\n", f"# {P}\n\n{S} and {C}\n"]
    tree = {}
    for i, n in enumerate(names):
        d = os.path.dirname(n)
        if d:
            tree[d] = ("d", 0o755)
        body = texts[i] if i < nf else "nothing to see here\n"
        tree[n] = ("f", body.encode(), 0o755 if i == 1 else 0o644)
    tree["keep.txt"] = ("f", b"unrelated\n", 0o600)
    return tree


def restore(d, full):
    """bring directory d back to the snapshot `full` (taken with exclude=())"""
    for name in os.listdir(d):
        p = os.path.join(d, name)
        if os.path.isdir(p) and not os.path.islink(p):
            shutil.rmtree(p)
        else:
            os.unlink(p)
    common.materialize(d, gen.snap_to_tree(full))


def lock_left(d):
    """the lock file, or a temp file of it, is still there"""
    rd = os.path.join(d, ".renamify")
    return os.path.isdir(rd) and any(n == "renamify.lock" or n.startswith("renamify.lock.") for n in os.listdir(rd))


def history_len(d):
    p = os.path.join(d, HIST)
    if not os.path.exists(p):
        return 0
    try:
        return len(json.load(open(p)))
    except (ValueError, OSError):
        return -1


_TS = re.compile(r"-\d{9,}")
_PIDTMP = re.compile(r"\.\d+\.tmp$")


def norm_trace(events):
    out = []
    for t in shim.abstract(events, logs="marker"):
        out.append(tuple(_PIDTMP.sub(".PID.tmp", _TS.sub("-<TS>", x)) if isinstance(x, str) else x for x in t))
    return out


_LOCKTMP = re.compile(r"^\.renamify/renamify\.lock\.\d+\.tmp$")
_PROBE = re.compile(r"^\.tmp[A-Za-z0-9]{6}(/|$)")


def letter(e):
    """one letter per mutating call (the alphabet of Driver/OpsSignals.lean)"""
    if not e.ok:
        return "o"
    if _PROBE.match(e.path):
        return "o"          # detect_case_insensitive_fs: created and removed, never part of the user tree
    if e.op == "link" and e.path2 == LOCK:
        return "L"          # the lock file appears (temp file linked to the lock path)
    if e.path == LOCK:
        if e.op == "openw":
            return "L"      # … or is created in place (O_EXCL), as before 35d666f
        if e.op == "unlink":
            return "U"
        return "o"
    if _LOCKTMP.match(e.path):
        return "o"          # renamify.lock.<pid>.tmp: a lock-class call below .renamify, never a user-tree call
    if (e.path == HIST and e.op == "openw") or (e.op == "rename" and e.path2 == HIST):
        return "h"          # the moment the new history becomes visible (written in place, or temp file renamed over it)
    paths = [e.path] + ([e.path2] if e.path2 else [])
    if any(not (p == ".renamify" or p.startswith(".renamify/")) for p in paths):
        return "u"
    return "o"


def letters(run):
    return "".join(letter(e) for e in run.mutating)


def observe(d, run, base, hist0):
    return {"rc": run.rc, "calls": len(run.mutating), "lock": lock_left(d),
            "hist": history_len(d) - hist0, "user_calls": letters(run).count("u"),
            "handler_ran": b"Received SIG" in run.stderr, "trace": norm_trace(run.events),
            "stderr": run.stderr.decode("utf-8", "replace")[-300:]}


def obs_line(o, ncalls_full):
    return (f"status={o['rc']} calls={o['calls']} lock={1 if o['lock'] else 0} history={o['hist']} "
            f"user={o['user_calls']} exited={1 if o['calls'] < ncalls_full else 0}")


class Job:
    """one (scenario, command): setup, reference results, baseline trace"""

    def __init__(self, cmd, nf, nr, sw, rw):
        self.cmd, self.nf, self.nr, self.sw, self.rw = cmd, nf, nr, sw, rw
        self.S, self.R = gen.render("snake", sw), gen.render("snake", rw)
        self.tree = build_tree(nf, nr, sw, oneline=(cmd == "replace"))
        self.problem = None

    def describe(self):
        return {"command": self.cmd, "edited_files": self.nf, "renames": self.nr, "search": self.S, "replace": self.R,
                "tree": {k: (v[1].decode() if v[0] == "f" else v[0]) for k, v in self.tree.items()}}

    def setup(self, d):
        common.materialize(d, self.tree)
        S, R = self.S, self.R
        pre = common.snapshot(d)

        def must(args):
            rc, out, err = common.cli(args, d)
            if rc != 0:
                raise RuntimeError(f"setup {' '.join(args)} rc={rc}: {err.decode('utf-8', 'replace')[-300:]}")
            return out
        if self.cmd == "rename":
            plan = json.loads(must(["plan", S, R, "--dry-run", "--output", "json", "--no-auto-init"]))["plan"]
            self.args = ["rename", S, R, "-y", "--no-auto-init"]
            self.complete, prob = oracle.expected_tree(pre, plan, d)
        elif self.cmd == "apply":
            must(["plan", S, R, "--no-auto-init", "--quiet"])
            plan = json.load(open(os.path.join(d, ".renamify/plan.json")))
            self.args = ["apply", "--no-auto-init", "--quiet"]
            self.complete, prob = oracle.expected_tree(pre, plan, d)
        elif self.cmd == "replace":
            plan = json.loads(must(["replace", S, R, "--dry-run", "--output", "json", "--no-auto-init"]))
            self.args = ["replace", S, R, "-y", "--no-auto-init"]
            self.complete, prob = oracle.expected_tree(pre, plan, d)
        elif self.cmd == "undo":
            must(["rename", S, R, "-y", "--no-auto-init", "--quiet"])
            self.args = ["undo", "latest", "--quiet"]
            self.complete, prob = pre, None
        elif self.cmd == "redo":
            must(["rename", S, R, "-y", "--no-auto-init", "--quiet"])
            post = common.snapshot(d)
            must(["undo", "latest", "--quiet"])
            if common.snapshot(d) != pre:
                prob = "setup undo did not restore the tree (C01's subject)"
            else:
                prob = None
            self.args = ["redo", "latest", "--quiet"]
            self.complete = post
        else:
            raise ValueError(self.cmd)
        if prob:
            self.problem = prob
            return
        self.full = common.snapshot(d, exclude=())
        self.before = common.snapshot(d)
        self.hist0 = history_len(d)
        base = shim.trace(self.args, d)
        self.base = observe(d, base, None, self.hist0)
        self.base_letters = letters(base)
        self.base_events = base.mutating
        after = common.snapshot(d)
        if base.rc != 0 or after != self.complete or self.base["hist"] != 1 or self.base["lock"]:
            self.problem = (f"signal-free run: rc={base.rc} tree_ok={after == self.complete} hist+{self.base['hist']} "
                            f"lock={self.base['lock']} {self.base['stderr']}")

    def choose_ks(self, rng, quick):
        n = len(self.base_events)
        interesting = [i for i, e in enumerate(self.base_events) if not shim.is_log_path(e.path)]
        logs = [i for i in range(n) if i not in interesting]
        if not quick:
            return sorted(set(interesting + rng.sample(logs, min(len(logs), 6))))
        userish = [i for i in interesting if self.base_letters[i] in "uLUh"]
        ks = {0, n - 1}
        if userish:
            ks |= {userish[0], userish[-1]}
            ks |= set(rng.sample(userish, min(len(userish), 3)))
        rest = [i for i in interesting if i not in ks]
        ks |= set(rng.sample(rest, min(len(rest), 2)))
        if logs:
            ks.add(rng.choice(logs))
        return sorted(ks)


def run_job(job, ks, combos):
    """returns list of (k, sig, rep, observation, user snapshot)"""
    res = []
    with common.scratch() as d:
        job.setup(d)
        if job.problem:
            return res
        for k in ks(job):
            for sig, rep in combos:
                restore(d, job.full)
                r = shim.fault(job.args, d, k, "signal", signal=sig, repeat=rep)
                o = observe(d, r, job.base, job.hist0)
                o["tree"] = common.snapshot(d)
                res.append((k, sig, rep, o))
    return res


def judge(job, k, sig, rep, o):
    """the oracle: None if the run satisfies the property, else a description"""
    if o["rc"] == shim.TIMEOUT_RC:
        return "timeout"
    tree = o.pop("tree")
    if tree == job.complete:
        state = "complete"
    elif tree == job.before:
        state = "unchanged"
    else:
        return {"what": "partially applied tree", "diff_vs_before": common.snap_diff(job.before, tree),
                "diff_vs_complete": common.snap_diff(job.complete, tree)}
    o["state"] = state
    if (o["hist"] == 1) != (state == "complete") or o["hist"] not in (0, 1):
        return {"what": f"history entries +{o['hist']} with tree {state}"}
    if o["lock"]:
        return {"what": "lock file left behind"}
    if o["rc"] == 130:
        return None
    if o["rc"] == 0 and sig == "INT" and state == "complete":
        # the SIGINT handler body runs on ctrlc's helper thread: the command finished (and main read the flag)
        # before that thread stored it -- either it never ran, or it printed its line after the flag check
        o["late"] = "after_flag_check" if o["handler_ran"] else "never_ran"
        return None
    return {"what": f"exit status {o['rc']} after SIG{sig} (tree {state}, handler ran: {o['handler_ran']})"}


def model_request(prog, res, k, sig, rep):
    return f"c13run {prog or '-'} {res} {'-' if k is None else k} {sig} {rep}"


# ------------------------------------------------------------------------------------------------
# the confirmation prompt, through a pty

def run_pty(args, d, sig, answer, wait_for=b"Apply? [y/N]:", timeout=15, shim_env=None):
    """run `renamify args` under the shim on a pty; once the prompt text has appeared send `sig` (number or None),
    then `answer` (bytes or None).  `shim_env`: extra FSSHIM_* settings (e.g. a signal raised by the shim before
    mutating call k).  Returns (prompt_seen, rc or 'timeout', output, Run-like events)"""
    import pty
    tmp = tempfile.mkdtemp(prefix="fsshim-log.")
    try:
        logfile = os.path.join(tmp, "events.log")
        env = shim._base_env(d, None, logfile)
        env["FSSHIM_COUNT_SYNC"] = "0"
        if shim_env:
            env.update({k: str(v) for k, v in shim_env.items()})
        m, s = pty.openpty()
        p = subprocess.Popen([common.CLI_BIN] + args, cwd=d, env=env, stdin=s, stdout=s, stderr=s, start_new_session=True)
        os.close(s)
        buf = b""

        def pump(until, limit):
            nonlocal buf
            t0 = time.time()
            while time.time() - t0 < limit and not until():
                r, _, _ = select.select([m], [], [], 0.05)
                if r:
                    try:
                        chunk = os.read(m, 4096)
                    except OSError:
                        return
                    if not chunk:
                        return
                    buf += chunk
        pump(lambda: wait_for in buf or p.poll() is not None, timeout)
        seen = wait_for in buf
        if seen:
            time.sleep(0.05)
            if sig:
                os.kill(p.pid, sig)
                time.sleep(0.05)
            if answer and p.poll() is None:
                os.write(m, answer)
        pump(lambda: p.poll() is not None, timeout if (answer or sig == pysignal.SIGINT) else 1.0)
        try:
            rc = p.wait(timeout=3 if (answer or sig == pysignal.SIGINT) else 0.2)   # EIO on the pty precedes the exit status
        except subprocess.TimeoutExpired:
            p.kill()
            p.wait()
            rc = "timeout"
        while True:                       # what the process wrote just before it ended
            r, _, _ = select.select([m], [], [], 0.1)
            if not r:
                break
            try:
                chunk = os.read(m, 4096)
            except OSError:
                break
            if not chunk:
                break
            buf += chunk
        os.close(m)
        text = open(logfile, errors="replace").read() if os.path.exists(logfile) else ""
        evs = [e for e in shim.parse_log(text) if e.pid == p.pid]
        return seen, rc, buf, shim.Run(rc if isinstance(rc, int) else shim.TIMEOUT_RC, buf, b"", evs, p.pid)
    finally:
        shutil.rmtree(tmp, ignore_errors=True)


def prompt_cases(ctx, command, job_tree, S, R, thorough):
    """`rename` / `replace` without -y on a pty; returns list of result dicts, each judged by the caller"""
    out = []
    if command == "rename":
        variants = [("INT", pysignal.SIGINT, None), ("TERM", pysignal.SIGTERM, b"n\n"), ("TERM", pysignal.SIGTERM, b"y\n")]
        if thorough:
            variants += [("INT", pysignal.SIGINT, None), (None, None, b"y\n"), (None, None, b"n\n")]
        args, wait_for = ["rename", S, R, "--no-auto-init"], b"Apply? [y/N]:"
        plan_args = ["plan", S, R, "--dry-run", "--output", "json", "--no-auto-init"]
    else:
        variants = [("INT", pysignal.SIGINT, b"n\n"), ("INT", pysignal.SIGINT, b"y\n"), ("TERM", pysignal.SIGTERM, b"y\n")]
        if thorough:
            variants += [("TERM", pysignal.SIGTERM, b"n\n"), (None, None, b"y\n")]
        args, wait_for = ["replace", S, R, "--no-auto-init"], b"[y/N]:"
        plan_args = ["replace", S, R, "--dry-run", "--output", "json", "--no-auto-init"]
    for name, signo, answer in variants:
        with common.scratch() as d:
            common.materialize(d, job_tree)
            before = common.snapshot(d)
            pj = json.loads(common.cli(plan_args, d)[1])
            complete, prob = oracle.expected_tree(before, pj.get("plan", pj), d)
            if prob:
                continue
            try:
                seen, rc, buf, run = run_pty(args, d, signo, answer, wait_for=wait_for)
            except OSError as ex:
                ctx.notes.append(f"pty not available: {ex}")
                return out
            after = common.snapshot(d)
            out.append({"command": command, "args": args, "signal": name, "answer": answer.decode().strip() if answer else None,
                        "prompt_seen": seen, "rc": rc,
                        "state": "complete" if after == complete else "unchanged" if after == before else "partial",
                        "lock": lock_left(d), "hist": history_len(d),
                        "letters": letters(run), "calls": len(run.mutating),
                        "cancelled_msg": b"Operation cancelled by user." in buf,
                        "tail": buf[-160:].decode("utf-8", "replace")})
    return out


def prompt_apply_cases(ctx, tree, S, R, quick, rng):
    """`rename` without -y on a pty, the prompt answered "y", and SIGINT / SIGTERM raised by the shim immediately before
    mutating call k of the APPLY PHASE (every call after the prompt).  Returns (problem or None, model requests, expectations)."""
    args = ["rename", S, R, "--no-auto-init"]

    def one(shim_env, signo=None, answer=b"y\n"):
        with common.scratch() as d:
            common.materialize(d, tree)
            before = common.snapshot(d)
            plan = json.loads(common.cli(["plan", S, R, "--dry-run", "--output", "json", "--no-auto-init"], d)[1])["plan"]
            complete, prob = oracle.expected_tree(before, plan, d)
            if prob:
                return None
            seen, rc, buf, run = run_pty(args, d, signo, answer, shim_env=shim_env)
            after = common.snapshot(d)
            return {"prompt_seen": seen, "rc": rc,
                    "state": "complete" if after == complete else "unchanged" if after == before else "partial",
                    "diff_vs_before": common.snap_diff(before, after, limit=4) if after not in (complete, before) else None,
                    "lock": lock_left(d), "hist": history_len(d), "letters": letters(run), "calls": len(run.mutating),
                    "events": run.mutating, "handler_ran": b"Received SIG" in buf,
                    "cancelled_msg": b"Operation cancelled by user." in buf, "tail": buf[-200:].decode("utf-8", "replace")}
    try:
        yes = one(None)
        at_prompt = one(None, signo=pysignal.SIGINT, answer=None)
    except OSError as ex:
        ctx.notes.append(f"pty not available: {ex}")
        return None, [], []
    if not yes or not at_prompt or not yes["prompt_seen"] or yes["state"] != "complete" or yes["rc"] != 0:
        ctx.broke("machinery", "pty apply-phase baseline", {"yes_run": {k: v for k, v in (yes or {}).items() if k != "events"}})
        return None, [], []
    pre_n = len(os.path.commonprefix([at_prompt["letters"], yes["letters"]]))
    n = yes["calls"]
    apply_ks = list(range(pre_n, n))
    interesting = [k for k in apply_ks if not shim.is_log_path(yes["events"][k].path)]
    if quick:
        userish = [k for k in interesting if yes["letters"][k] in "uhU"]
        ks = {interesting[0], interesting[-1]} | set(userish[:1]) | set(rng.sample(userish, min(3, len(userish))))
        combos = [("INT", 1), ("TERM", 1)]
    else:
        logs = [k for k in apply_ks if k not in interesting]
        ks = set(interesting) | set(rng.sample(logs, min(4, len(logs))))
        combos = [("INT", 1), ("INT", 3), ("TERM", 1)]
    jobs = [(k, sig, rep) for k in sorted(ks) for sig, rep in combos]

    def work(j):
        k, sig, rep = j
        return one({"FSSHIM_AT": k, "FSSHIM_MODE": "signal", "FSSHIM_SIGNAL": sig, "FSSHIM_REPEAT": rep})
    with concurrent.futures.ThreadPoolExecutor(max_workers=4) as ex:
        results = list(ex.map(work, jobs))
    reqs, exp = [], []
    prog = yes["letters"][:pre_n] + "P" + yes["letters"][pre_n:]
    for (k, sig, rep), r in zip(jobs, results):
        if r is None:
            continue
        ctx.case(("prompt-apply", k, sig, rep))
        ctx.count(f"prompt_apply:{sig}x{rep}")
        case = {"op": "prompt-apply", "tree": {p: (v[1].decode() if v[0] == "f" else v[0]) for p, v in tree.items()},
                "search": S, "replace": R, "args": args, "answer": "y", "signal": sig, "repeat": rep, "k": k, "of": n,
                "calls_before_prompt": pre_n, "call": yes["events"][k].raw.split(" => ")[0].split(" ", 2)[2]}
        obs = {x: r[x] for x in ("rc", "state", "lock", "hist", "calls", "handler_ran", "cancelled_msg", "diff_vs_before", "tail")}
        bad = None
        if not r["prompt_seen"]:
            bad = "prompt never appeared"
        elif r["state"] == "partial":
            bad = "partially applied tree"
        elif (r["hist"] == 1) != (r["state"] == "complete"):
            bad = f"history entries +{r['hist']} with tree {r['state']}"
        elif r["lock"]:
            bad = "lock file left behind"
        elif not (r["rc"] == 130 or (r["rc"] == 0 and sig == "INT" and r["state"] == "complete")):
            bad = f"exit status {r['rc']}"
        if bad:
            return ({"case": case, "observed": {**obs, "problem": bad}}, reqs, exp)
        ran = True if sig == "TERM" else r["rc"] == 130
        reqs.append(model_request(prog, 0, (k + 1) if ran else None, sig, rep))
        exp.append((case, f"status={r['rc']} calls={r['calls']} lock={1 if r['lock'] else 0} history={r['hist']} "
                    f"user={r['letters'].count('u')} exited={1 if r['cancelled_msg'] else 0}"))
    return None, reqs, exp


# ------------------------------------------------------------------------------------------------
# a signal that arrives while the process is blocked in a write to a full stdout / stderr pipe

def _blocked_in_write(pid, fdnum):
    """the main thread of `pid` sits in write(2) on descriptor fdnum (x86-64: syscall 1), or — where /proc/<pid>/syscall is
    not readable — sleeps in the kernel's pipe write path"""
    try:
        with open(f"/proc/{pid}/syscall") as fh:
            f = fh.read().split()
        if f and f[0] == "1" and len(f) > 1:
            return int(f[1], 16) == fdnum
        if f and f[0] not in ("running", "-1"):
            return False
    except (OSError, ValueError):
        pass
    try:
        with open(f"/proc/{pid}/wchan") as fh:
            return fh.read().strip() in ("pipe_write", "pipe_wait")
    except OSError:
        return False


def full_pipe_run(args, d, stream, signo, timeout=20):
    """run `renamify args` with `stream` ("stdout" | "stderr") connected to a pipe that is already full; as soon as the
    process is blocked in a write to it deliver `signo`, then drain the pipe.  Returns (blocked, rc, drained text)"""
    import fcntl
    r, w = os.pipe()
    fl = fcntl.fcntl(w, fcntl.F_GETFL)
    fcntl.fcntl(w, fcntl.F_SETFL, fl | os.O_NONBLOCK)
    try:
        while True:
            os.write(w, b"x" * 4096)
    except BlockingIOError:
        pass
    fcntl.fcntl(w, fcntl.F_SETFL, fl)
    e = dict(common.BASE_ENV)
    e["HOME"] = d
    e["XDG_CONFIG_HOME"] = os.path.join(d, ".xdg-none")
    p = subprocess.Popen([common.CLI_BIN] + list(args), cwd=d, env=e, stdin=subprocess.DEVNULL,
                         stdout=w if stream == "stdout" else subprocess.DEVNULL,
                         stderr=w if stream == "stderr" else subprocess.DEVNULL)
    os.close(w)
    fdnum = 1 if stream == "stdout" else 2
    blocked = False
    t0 = time.time()
    while time.time() - t0 < timeout and p.poll() is None:
        if _blocked_in_write(p.pid, fdnum):
            time.sleep(0.01)
            if p.poll() is None and _blocked_in_write(p.pid, fdnum):
                blocked = True
                break
        time.sleep(0.003)
    if blocked:
        os.kill(p.pid, signo)
        time.sleep(0.15)           # the handler (or ctrlc's thread) runs while the write is still blocked
    os.set_blocking(r, False)
    data = b""
    t0 = time.time()
    while p.poll() is None and time.time() - t0 < timeout:
        try:
            chunk = os.read(r, 65536)
            if chunk:
                data += chunk
                continue
        except BlockingIOError:
            pass
        time.sleep(0.005)
    if p.poll() is None:
        p.kill()
        p.wait()
        rc = shim.TIMEOUT_RC
    else:
        rc = p.returncode
    try:
        while True:
            chunk = os.read(r, 1 << 16)
            if not chunk:
                break
            data += chunk
    except (BlockingIOError, OSError):
        pass
    os.close(r)
    return blocked, rc, data.replace(b"x" * 64, b"").lstrip(b"x").decode("utf-8", "replace")[-300:]


def full_pipe_job(job):
    """all (stream, signal) combinations for one scenario; returns list of (stream, signal name, observation)"""
    out = []
    with common.scratch() as d:
        job.setup(d)
        if job.problem:
            return out
        args = [a for a in job.args if a != "--quiet"]
        for stream in ("stderr", "stdout"):
            for name, signo in (("TERM", pysignal.SIGTERM), ("INT", pysignal.SIGINT)):
                restore(d, job.full)
                blocked, rc, text = full_pipe_run(args, d, stream, signo)
                tree = common.snapshot(d)
                out.append((stream, name, {"blocked": blocked, "rc": rc, "lock": lock_left(d), "hist": history_len(d) - job.hist0,
                                           "state": "complete" if tree == job.complete else "unchanged" if tree == job.before else "partial",
                                           "output_tail": text, "args": args}))
    return out


# ------------------------------------------------------------------------------------------------
# a command that fails by itself, plus a signal

def stale_case(sig, rep, k):
    tree = {"a.txt": ("f", b"foo_bar one\n", 0o644), "b.txt": ("f", b"foo_bar two\n", 0o644),
            "c.txt": ("f", b"foo_bar three\n", 0o644)}
    with common.scratch() as d:
        common.materialize(d, tree)
        rc, out, err = common.cli(["plan", "foo_bar", "baz_qux", "--no-auto-init", "--quiet"], d)
        if rc != 0:
            return None
        with open(os.path.join(d, "b.txt"), "wb") as fh:
            fh.write(b"zzz foo_bar two\n")          # the plan is stale for b.txt from here on
        before = common.snapshot(d)
        full = common.snapshot(d, exclude=())
        base = shim.trace(["apply", "--no-auto-init", "--quiet"], d)
        base_tree = common.snapshot(d)
        restore(d, full)
        r = shim.fault(["apply", "--no-auto-init", "--quiet"], d, k, "signal", signal=sig, repeat=rep)
        tree_after = common.snapshot(d)
        return {"signal": sig, "repeat": rep, "k": k, "base_rc": base.rc, "base_partial": base_tree != before,
                "base_letters": letters(base), "rc": r.rc, "same_tree_as_base": tree_after == base_tree,
                "unchanged": tree_after == before, "hist": history_len(d), "lock": lock_left(d),
                "handler_ran": b"Received SIG" in r.stderr, "calls": len(r.mutating),
                "error_line_shown": b"Error:" in r.stderr, "diff": common.snap_diff(before, tree_after),
                "base_stderr": base.stderr.decode("utf-8", "replace")[-200:]}


# ------------------------------------------------------------------------------------------------

COMMANDS = ["rename", "apply", "undo", "redo", "replace"]
COMBOS = [("INT", 1), ("INT", 3), ("TERM", 1), ("TERM", 3)]


def run(ctx):
    ctx.cov["rule"] = ("scenario = (edited files 1..3, renames 0..2 with the second one a file inside a renamed directory, "
                       "vocabulary term pair) x command in rename -y | plan;apply | undo | redo | replace -y; per scenario the "
                       "signal-free trace is recorded and SIGINT/SIGTERM x {1,3} deliveries are raised immediately before "
                       "mutating call k (quick: first/last call, first/last user-tree or lock/history call, 3+2 sampled others, "
                       "1 log write; thorough: every non-log call + 6 log writes). non-trivial = the command changes the tree; "
                       "distinct = (scenario, command, k, signal, repeat). Plus pty prompt runs and stale-plan runs.")
    ctx.assumptions += ["signals are raised by kill(getpid()) inside the shim on the thread that issues the call; delivery to "
                        "other threads and EINTR handling in std are not explored",
                        "a SIGINT whose handler body (ctrlc helper thread) never ran before the process ended counts as "
                        "'already finished' (status 0 accepted with the complete result)"]
    from translate import signal_handlers
    try:
        signal_handlers.run()
    except Exception as ex:  # noqa: BLE001 - any failure to parse is a broken tie
        ctx.broke("translator", "translate/signal_handlers.py", repr(ex))
    ctx.prove("RModel.Props.C13")
    ok, msg = common.cargo_build()
    if not ok:
        ctx.broke("build", "cargo", msg)
        return
    rng = ctx.rng
    quick = not ctx.thorough

    # ---- scenarios -----------------------------------------------------------------------------
    jobs = []
    shapes = [(nf, nr) for nf in (1, 2, 3) for nr in (0, 1, 2)]
    for cmd in COMMANDS:
        if quick:
            picks = [(3, 2)] if cmd == "rename" else [rng.choice(shapes)]
        else:
            picks = [(3, 2)] + rng.sample([x for x in shapes if x != (3, 2)], 2)
        for nf, nr in picks:
            sw, rw = gen.pick_terms(rng, 2, 2)
            jobs.append(Job(cmd, nf, nr, sw, rw))
    job_rngs = [__import__("random").Random(rng.random()) for _ in jobs]

    def work(i):
        job = jobs[i]
        return run_job(job, lambda j: j.choose_ks(job_rngs[i], quick), COMBOS)
    with concurrent.futures.ThreadPoolExecutor(max_workers=6) as ex:
        results = list(ex.map(work, range(len(jobs))))

    reqs, expect = [], []
    int_stats = {}
    for job, res in zip(jobs, results):
        if job.problem:
            ctx.count("job_skipped")
            ctx.notes.append(f"{job.cmd} {job.nf}x{job.nr}: {job.problem}")
            continue
        ctx.count(f"job:{job.cmd}:files={job.nf}:renames={job.nr}")
        ctx.count("trace_len", len(job.base_events))
        for k, sig, rep, o in res:
            case = {**job.describe(), "args": job.args, "k": k, "of": len(job.base_events), "signal": sig, "repeat": rep,
                    "call": job.base_events[k].raw.split(" => ")[0].split(" ", 2)[2]}
            ctx.case((job.cmd, job.nf, job.nr, job.S, job.R, k, sig, rep), nontrivial=job.complete != job.before)
            bad = judge(job, k, sig, rep, o)
            ctx.count(f"sig:{sig}x{rep}")
            ctx.count(f"status:{o['rc']}")
            ctx.count("state:" + o.get("state", "?"))
            if sig == "INT":
                st = int_stats.setdefault((job.cmd, job.nf, job.nr), {"n3": 0, "zero3": 0, "case": case})
                if rep == 3:
                    st["n3"] += 1
                    st["zero3"] += 1 if o["rc"] == 0 else 0
                if o["rc"] == 0:
                    ctx.count("sigint_handler_" + o.get("late", "?"))
            if bad:
                ctx.violation("fault", case, expected="tree in {before, complete}, history entry iff complete, lock released, "
                              "status 130 (0 only if SIGINT was never noticed)", observed={**{x: o[x] for x in ("rc", "calls", "lock", "hist", "handler_ran", "stderr")}, "problem": bad},
                              model_prediction="effects unchanged, status 130")
                return
            # correspondence: the model is told whether the handler body ran
            ran = True if sig == "TERM" else o["rc"] == 130
            reqs.append(model_request(job.base_letters, 0, k if ran else None, sig, rep))
            # undo restores file contents in HashMap iteration order (random per process): compare as multisets
            same = (sorted(o["trace"]) == sorted(job.base["trace"])) if job.cmd == "undo" else o["trace"] == job.base["trace"]
            expect.append((case, obs_line(o, len(job.base_events)), same))
    ctx.sample({"op": "signal", **(expect[0][0] if expect else {}), "observed": expect[0][1] if expect else None})

    # SIGINT must be noticed at least sometimes
    for key, st in sorted(int_stats.items()):
        if st["n3"] >= 3 and st["zero3"] == st["n3"]:
            ctx.violation("fault", st["case"], expected="status 130 after SIGINT", observed=f"all {st['n3']} runs with three SIGINTs ended with status 0",
                          note="the SIGINT handler never sets the interrupted flag (or the flag is not checked)")
            return

    if reqs:
        model = common.run_model(reqs)
        ctx.cov["disagreements_checked"] += len(reqs)
        for rq, m, (case, obs, same_trace) in zip(reqs, model, expect):
            if m != obs or not same_trace:
                ctx.broke("correspondence", "signalled run vs Signals.run",
                          {"case": case, "request": rq, "model": m, "observed": obs, "trace_equals_signal_free": same_trace})
                break

    # ---- the confirmation prompts -----------------------------------------------------------------
    preqs, pexp = [], []
    for command, ptree in (("rename", build_tree(2, 1, ["foo", "bar"], False)), ("replace", build_tree(2, 1, ["foo", "bar"], True))):
        pres = prompt_cases(ctx, command, ptree, "foo_bar", "baz_qux", ctx.thorough)
        yes_run = next((r for r in pres if r["answer"] == "y" and r["state"] == "complete"), None)
        pre_n = None
        if command == "rename":
            int_run = next((r for r in pres if r["signal"] == "INT" and r["prompt_seen"]), None)
            if int_run and yes_run:
                pre_n = len(os.path.commonprefix([int_run["letters"], yes_run["letters"]]))
        elif yes_run:
            no_run = next((r for r in pres if r["answer"] == "n"), None)
            pre_n = len(os.path.commonprefix([no_run["letters"], yes_run["letters"]])) if no_run else 0
        for r in pres:
            ctx.case(("prompt", command, r["signal"], r["answer"]))
            ctx.count(f"prompt:{command}:{r['signal']}:{r['answer']}")
            case = {"op": "prompt", "tree": {k: (v[1].decode() if v[0] == "f" else v[0]) for k, v in ptree.items()},
                    "args": r["args"], "signal": r["signal"], "answer": r["answer"]}
            if not r["prompt_seen"]:
                ctx.broke("machinery", "pty prompt", {"case": case, "observed": r})
                continue
            want_state = "complete" if r["answer"] == "y" else "unchanged"
            want_rc = 130 if r["signal"] else 0
            okay = (r["state"] == want_state and r["rc"] == want_rc and not r["lock"]
                    and r["hist"] == (1 if want_state == "complete" else 0))
            if not okay:
                note = None
                if r["lock"] and r["signal"] == "INT" and r["rc"] == 130:
                    note = "the defect repaired by d01db83 is back: exit inside the SIGINT handler leaves the lock file"
                ctx.violation("fault", case, expected={"state": want_state, "rc": want_rc, "lock": False,
                                                       "history_entries": 1 if want_state == "complete" else 0},
                              observed=r, note=note,
                              model_prediction="C13.prompt_exit_releases_lock / sigterm_at_prompt_completes / unguarded_prompt_never_exits")
                return
            # correspondence with the model
            if pre_n is not None and r["signal"]:
                pre, post = yes_run["letters"][:pre_n], yes_run["letters"][pre_n:]
                if command == "rename":
                    prog = pre + "P" + ("U" if r["answer"] == "n" else post)     # declined: only the lock release follows
                    exited = 1 if r["answer"] is None and r["cancelled_msg"] else 0
                else:
                    # no guard step in replace; declined: only the release of the lock taken before the prompt follows
                    prog = pre + (("U" if "L" in pre else "") if r["answer"] == "n" else post)
                    exited = 0
                preqs.append(model_request(prog, 0, pre_n, r["signal"], 1))
                pexp.append((case, f"status={r['rc']} calls={r['calls']} lock={1 if r['lock'] else 0} "
                             f"history={r['hist']} user={r['letters'].count('u')} exited={exited}"))
    if preqs:
        model = common.run_model(preqs)
        ctx.cov["disagreements_checked"] += len(preqs)
        for rq, m, (case, obs) in zip(preqs, model, pexp):
            if m != obs:
                ctx.broke("correspondence", "prompt run vs Signals.run", {"case": case, "request": rq, "model": m, "observed": obs})
                break
        ctx.sample({"op": "prompt", "request": preqs[0], "model": model[0], "observed": pexp[0][1]})

    # ---- signals during the apply phase of an interactively confirmed rename ---------------------------
    bad, areqs, aexp = prompt_apply_cases(ctx, build_tree(3, 2, ["foo", "bar"], False), "foo_bar", "baz_qux", quick, rng)
    if bad:
        ctx.violation("fault", bad["case"], expected="tree in {before, complete}, history entry iff complete, lock released, status 130",
                      observed=bad["observed"], model_prediction="after the prompt guard is dropped a signal only stores the flag: all effects, status 130",
                      note="rename confirmed with 'y' on a pty; the signal is raised immediately before mutating call k of the apply phase")
        return
    if areqs:
        model = common.run_model(areqs)
        ctx.cov["disagreements_checked"] += len(areqs)
        for rq, m, (case, obs) in zip(areqs, model, aexp):
            if m != obs:
                ctx.broke("correspondence", "apply phase after the prompt vs Signals.run", {"case": case, "request": rq, "model": m, "observed": obs})
                break
        ctx.sample({"op": "prompt-apply", "request": areqs[0], "model": model[0]})

    # ---- signal while blocked in a write to a full stdout / stderr pipe --------------------------------------
    pjobs = []
    for cmd in COMMANDS:
        for nf, nr in ([(2, 1)] if quick else [(2, 1), (3, 2)]):
            sw, rw = gen.pick_terms(rng, 2, 2)
            pjobs.append(Job(cmd, nf, nr, sw, rw))
    with concurrent.futures.ThreadPoolExecutor(max_workers=5) as ex:
        presults = list(ex.map(full_pipe_job, pjobs))
    for job, res in zip(pjobs, presults):
        if job.problem:
            ctx.count("job_skipped")
            ctx.notes.append(f"full-pipe {job.cmd}: {job.problem}")
            continue
        for stream, sig, o in res:
            ctx.case(("full-pipe", job.cmd, job.nf, job.nr, job.S, stream, sig))
            ctx.count(f"full_pipe:{stream}:{'blocked' if o['blocked'] else 'never_writes'}")
            case = {**job.describe(), "op": "full-pipe", "args": o["args"], "stream": stream, "signal": sig,
                    "how": f"{stream} is a pipe filled to capacity; SIG{sig} is sent once the process is blocked in write({1 if stream == 'stdout' else 2}, ..); then the pipe is drained"}
            want_rc = 130 if o["blocked"] else 0
            if (o["rc"] != want_rc or o["state"] == "partial" or o["lock"] or (o["hist"] == 1) != (o["state"] == "complete")
                    or (not o["blocked"] and o["state"] != "complete")):
                note = None
                if o["rc"] == -6:
                    note = ("SIGABRT: a handler that runs in signal context did something that is not async-signal-safe "
                            "(the defect repaired by 4ef3457: eprintln! in the SIGTERM handler while stderr is borrowed)")
                ctx.violation("fault", case, expected=f"status {want_rc}, tree in {{before, complete}}, history entry iff complete, lock released",
                              observed=o, note=note, model_prediction="C13.signal_context_handlers_async_signal_safe: the handler only stores the flag")
                return

    # the hidden lock holder `test-lock` prints to stderr while it holds the lock (where the abort was first seen)
    for sig, signo in (("TERM", pysignal.SIGTERM), ("INT", pysignal.SIGINT)):
        with common.scratch() as d:
            blocked, rc, text = full_pipe_run(["test-lock", "--delay", "300", "--no-auto-init"], d, "stderr", signo)
            o = {"blocked": blocked, "rc": rc, "lock": lock_left(d), "output_tail": text}
        ctx.case(("full-pipe", "test-lock", sig))
        ctx.count(f"full_pipe:test-lock:{'blocked' if blocked else 'never_writes'}")
        if not blocked or rc != 130 or o["lock"]:
            ctx.violation("fault", {"op": "full-pipe-test-lock", "args": ["test-lock", "--delay", "300", "--no-auto-init"], "stream": "stderr",
                                    "signal": sig, "how": "stderr is a full pipe; the signal is sent while the process is blocked in its first eprintln"},
                          expected="status 130, lock released", observed=o,
                          note="status -6 = abort from a handler that is not async-signal-safe (repaired by 4ef3457)" if rc == -6 else None)
            return

    # ---- a command that fails by itself and is signalled ----------------------------------------------
    sreqs, sexp = [], []
    for sig, rep, k in ([("TERM", 1, 2), ("INT", 3, 2)] if quick else [("TERM", 1, 0), ("TERM", 3, 2), ("INT", 3, 0), ("INT", 3, 2), ("TERM", 1, 5)]):
        s = stale_case(sig, rep, k)
        if s is None:
            continue
        ctx.case(("stale", sig, rep, k))
        ctx.count("stale:" + sig)
        case = {"op": "stale-plan apply", "tree": {"a.txt": "foo_bar one\n", "b.txt": "foo_bar two\n", "c.txt": "foo_bar three\n"},
                "steps": ["plan foo_bar baz_qux", "b.txt := 'zzz foo_bar two\\n'", f"apply with SIG{sig} x{rep} before mutating call {k}"]}
        if s["base_rc"] == 0 or not s["base_partial"]:
            ctx.notes.append(f"stale-plan apply no longer fails over a partial tree by itself: {s}")
            continue
        if not s["same_tree_as_base"] or s["lock"] or s["hist"] != 0:
            ctx.violation("fault", case, expected="the same result as the signal-free failing run", observed=s)
            return
        if s["rc"] == s["base_rc"] and s["error_line_shown"]:
            # the failure is reported as the failure it is, signalled or not
            sreqs.append(model_request(s["base_letters"], s["base_rc"], k, sig, rep))
            sexp.append((case, f"status={s['rc']} calls={s['calls']}"))
            continue
        ctx.violation("fault", case, expected=f"status {s['base_rc']} and the 'Error:' line, as without the signal", observed=s,
                      model_prediction="C13.failed_command_keeps_its_status",
                      note=("the defect repaired by 279b830 is back: a failed command that was signalled reports 130"
                            if s["rc"] == 130 else None))
        return
    if sreqs:
        model = common.run_model(sreqs)
        ctx.cov["disagreements_checked"] += len(sreqs)
        for rq, m, (case, obs) in zip(sreqs, model, sexp):
            if " ".join(m.split()[:2]) != obs:
                ctx.broke("correspondence", "failing command vs Signals.run", {"case": case, "request": rq, "model": m, "observed": obs})
                break


def replay(ctx, path):
    obj = json.load(open(path))
    case = obj.get("case", {})
    ok, msg = common.cargo_build()
    if not ok:
        ctx.broke("build", "cargo", msg)
        return
    op = case.get("op") if isinstance(case, dict) else None
    if op == "prompt":
        tree = {k: (("f", v.encode(), 0o644) if v != "d" else ("d", 0o755)) for k, v in case["tree"].items()}
        signo = {"INT": pysignal.SIGINT, "TERM": pysignal.SIGTERM, None: None}[case.get("signal")]
        ans = (case["answer"] + "\n").encode() if case.get("answer") else None
        with common.scratch() as d:
            common.materialize(d, tree)
            before = common.snapshot(d)
            wait_for = b"Apply? [y/N]:" if case["args"][0] == "rename" else b"[y/N]:"
            seen, rc, buf, run = run_pty(case["args"], d, signo, ans, wait_for=wait_for)
            r = {"prompt_seen": seen, "rc": rc, "unchanged": common.snapshot(d) == before,
                 "lock": lock_left(d), "tail": buf[-160:].decode("utf-8", "replace")}
        print(json.dumps(r, indent=1))
        want_rc = 130 if case.get("signal") else 0
        if r["lock"] or not seen or rc != want_rc or (case.get("answer") != "y" and not r["unchanged"]):
            ctx.violation("fault", case, expected=f"status {want_rc}, lock released, tree unchanged unless answered y", observed=r)
    elif op == "prompt-apply":
        tree = {k: (("f", v.encode(), 0o644) if v != "d" else ("d", 0o755)) for k, v in case["tree"].items()}
        with common.scratch() as d:
            common.materialize(d, tree)
            before = common.snapshot(d)
            plan = json.loads(common.cli(["plan", case["search"], case["replace"], "--dry-run", "--output", "json", "--no-auto-init"], d)[1])["plan"]
            complete, _ = oracle.expected_tree(before, plan, d)
            seen, rc, buf, run = run_pty(case["args"], d, None, b"y\n", shim_env={
                "FSSHIM_AT": case["k"], "FSSHIM_MODE": "signal", "FSSHIM_SIGNAL": case["signal"], "FSSHIM_REPEAT": case.get("repeat", 1)})
            after = common.snapshot(d)
            r = {"prompt_seen": seen, "rc": rc, "state": "complete" if after == complete else "unchanged" if after == before else "partial",
                 "lock": lock_left(d), "hist": history_len(d), "calls": len(run.mutating), "tail": buf[-200:].decode("utf-8", "replace")}
        print(json.dumps(r, indent=1))
        if (not seen or r["state"] == "partial" or r["lock"] or (r["hist"] == 1) != (r["state"] == "complete")
                or not (rc == 130 or (rc == 0 and case["signal"] == "INT" and r["state"] == "complete"))):
            ctx.violation("fault", case, expected="all or nothing, lock released, status 130", observed=r)
    elif op == "full-pipe":
        job = Job(case["command"], case["edited_files"], case["renames"], case["search"].split("_"), case["replace"].split("_"))
        res = [x for x in full_pipe_job(job) if x[0] == case["stream"] and x[1] == case["signal"]]
        for stream, sig, o in res:
            print(json.dumps(o, indent=1, default=str))
            want_rc = 130 if o["blocked"] else 0
            if o["rc"] != want_rc or o["state"] == "partial" or o["lock"] or (o["hist"] == 1) != (o["state"] == "complete"):
                ctx.violation("fault", case, expected=obj.get("expected"), observed=o)
    elif op == "full-pipe-test-lock":
        with common.scratch() as d:
            blocked, rc, text = full_pipe_run(case["args"], d, "stderr", {"TERM": pysignal.SIGTERM, "INT": pysignal.SIGINT}[case["signal"]])
            o = {"blocked": blocked, "rc": rc, "lock": lock_left(d), "output_tail": text}
        print(json.dumps(o, indent=1))
        if not blocked or rc != 130 or o["lock"]:
            ctx.violation("fault", case, expected="status 130, lock released", observed=o)
    elif op == "stale-plan apply":
        m = re.search(r"SIG(\w+) x(\d+) before mutating call (\d+)", case["steps"][-1])
        s = stale_case(m.group(1), int(m.group(2)), int(m.group(3)))
        print(json.dumps(s, indent=1, default=str))
        if s and s["base_rc"] != 0 and (s["rc"] != s["base_rc"] or not s["error_line_shown"] or not s["same_tree_as_base"]):
            ctx.violation("fault", case, expected=f"status {s['base_rc']} with the Error line, as without the signal", observed=s)
    elif isinstance(case, dict) and "command" in case:
        job = Job(case["command"], case["edited_files"], case["renames"], case["search"].split("_"), case["replace"].split("_"))
        res = run_job(job, lambda j: [case["k"]], [(case["signal"], case["repeat"])])
        if job.problem:
            print("setup problem:", job.problem)
            return
        for k, sig, rep, o in res:
            bad = judge(job, k, sig, rep, o)
            print(json.dumps({"k": k, "signal": sig, "repeat": rep, "rc": o["rc"], "state": o.get("state"), "problem": bad}, indent=1, default=str))
            if bad:
                ctx.violation("fault", case, expected=obj.get("expected"), observed={"rc": o["rc"], "problem": bad})
    else:
        print(json.dumps(obj, indent=1)[:3000])
