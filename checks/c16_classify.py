"""Maintenance tool for corpus/C16/classification.json (NOT run by the check).

    python3 -m checks.c16_classify [--repo DIR]... [--write]

Takes the panic-site inventory of one or more trees (default: /repo), applies the reviewed rule table below to every
site that has no entry yet, and (with --write) adds the result to corpus/C16/classification.json.  Existing entries
are never changed.  Sites no rule matches become `unclassified` — they are then known to the check (no tie break)
but counted and reported in the evidence.  The rules were written while reading each site; they are keyed by
file / fn / lint / expression so they apply to the same code in a tree that has the proposed fixes.
"""
import json
import os
import re
import sys

from . import common

T_TOK = "theorem:tokenizer_total"
T_BND = "theorem:isBoundary_panic_iff"
ADD = ("infallible", "usize/isize addition of two in-memory lengths / indices / counters (each bounded by a buffer or collection "
       "size <= isize::MAX): cannot overflow")
WRITE = ("infallible", "fmt::Write into a String never returns Err")
LOOKUP = ("infallible", "map lookup with a key taken from that map's own key set a few lines above")

# (file regex, fn regex, lint regex, expr regex) -> (class, reason); first match wins
RULES = [
    # ---- formatted writes into a String ----------------------------------------------------------------------
    (r".", r".", r"unwrap_used", r"^write(ln)?!\s*\(", WRITE),
    # ---- sites repaired by the nine fix commits (ac203f2 … ae62ac0): now covered by totality theorems about `…Cur` -------
    (r"acronym\.rs", r"^find_longest_match$", r"string_slice", r"text\[start_pos\.\.end\]",
     ("theorem:findLongestMatch_total", "with the `!bytes[i].is_ascii()` break, end is one past an ASCII byte: a boundary")),
    (r"apply\.rs", r"^apply_content_edits_with_content$", r"regex::replace_range", r".",
     ("theorem:applyEdits_never_panics", "behind `modified.get(*start..*end).is_none()` -> Err")),
    (r"case_constraints\.rs", r"^has_consecutive_uppercase$", r"indexing_slicing", r"chars\[start\.\.start \+ len\]",
     ("theorem:upperRun_total", "len <= sequence_len = i - start")),
    (r"pattern\.rs", r"^is_boundary$", r"indexing_slicing", r"^bytes\[start\]$",
     ("theorem:matcher_no_panic", "needs a non-empty match: the variant map has no empty key (variantMap_has_no_empty_key)")),
    (r"scanner\.rs", r"^generate_hunks$", r"indexing_slicing", r"^line\[(\.\.match_col|raw_end\.\.)\]$",
     ("theorem:lineAfter_total", "byte slices inside `if line.get(match_col..raw_end) == Some(content.as_bytes())`: match_col <= raw_end <= len "
                                 "(lineAfterRaw_total); no character-boundary condition on &[u8]")),
    (r"scanner\.rs", r"^generate_hunks$", r"string_slice", r"line_string\[\.\.match_col\]",
     ("theorem:lineAfter_total", "inside `if let Some(rest) = line_string.get(match_col..)`: match_col is a boundary <= len")),
    (r"preview/diff\.rs", r"^render_diff$", r"regex::replace_range", r".",
     ("theorem:diffStep_total", "behind `after_line.get(col..).is_some_and(.. starts_with(&hunk.content))`")),
    (r".", r".", r"regex::index_cfg_windows", r".",
     ("unreachable-from-input", "inside a `#[cfg(windows)]` item / block: not compiled on this platform (which is why clippy does not see it)")),
    (r"main\.rs", r"^argv_asks_for_json$", r"regex::env_args", r".",
     ("known-finding:argv_nonutf8_parse_error", "std::env::args() panics on an argument that is not valid Unicode; reached when clap "
                                                "rejects the command line (cc8b751)")),
    (r"main\.rs", r"^argv_asks_for_json$", r"indexing_slicing", r"^w\[[01]\]$", ("infallible", "`windows(2)` yields slices of length exactly 2")),
    # ---- sites added by other fix commits after the first C16 pass (reviewed at the frozen HEAD 451dd24) -----------------
    (r"lock\.rs", r"^release_held_locks$", r"regex::drain", r".", ("infallible", "`held.drain(..)` over the full range cannot be out of bounds")),
    (r"compound_matcher\.rs", r"^untouched_text_survives_rejoin$", r"indexing_slicing", r"bytes\[cursor\]",
     ("infallible", "`cursor < bytes.len() &&` precedes in the same condition")),
    (r"compound_matcher\.rs", r"^untouched_text_survives_rejoin$", r"string_slice", r"identifier_without_prefix\[gap_start\.\.cursor\]",
     ("unclassified", "LATENT: panics in-process when a token spans a non-ASCII character inside a word "
                      "(find_compound_variants(\"fo\u00e9x_foo_bar\", \"foo_bar\", \"baz_qux\"): gap_start = 3 lies inside the two-byte character). "
                      "The only caller (compound_scanner) passes identifiers matched by `[a-zA-Z_][a-zA-Z0-9_\\-\\.]*` or Title words joined by `\\s+`; "
                      "30000 generated identifiers of that shape and the CLI stream do not reach it. Not proved unreachable; "
                      "`.get(gap_start..cursor)` would remove the question. Watched by the in-process op panic_compound.")),
    # ---- shapes before the fixes (kept so that a reverted fix is recognised, not taken for new code) ---------------
    (r"scanner\.rs", r"^generate_hunks$", r"string_slice", r"line_string\[(match_col|\.\.match_col)",
     ("known-finding:lossy_column", "raw-line byte column applied to the lossily decoded line; safe under the hypotheses of lineAfter_no_panic_valid_utf8")),
    (r"ambiguity/resolver\.rs", r"^try_(language_heuristics|cross_file_context)$", r"string_slice", r"line\[\.\.match_pos\]",
     ("known-finding:lossy_column", "same column, same lossy line (try_cross_file_context is behind project_root = None today)")),
    (r"preview/diff\.rs", r"^render_diff$", r"string_slice|regex::replace_range", r"after_line",
     ("known-finding:lossy_column", "hunk.byte_offset (raw column) applied to line_before (lossy)")),
    (r"preview/matches\.rs", r"^render_matches$", r"string_slice|unwrap_used", r"line_before\[",
     ("known-finding:lossy_column", "colour output on a terminal only: raw column applied to the lossy line_before")),
    (r"preview/diff\.rs", r"^highlight_line_with_hunks$", r"string_slice", r"line\[",
     ("known-finding:lossy_column", "colour output on a terminal only; guarded by col <= line.len() but not by is_char_boundary")),
    (r"coercion\.rs", r"^replace_case_insensitive$", r"string_slice", r".",
     ("known-finding:lowercase_offsets", "offsets from the lower-cased copy; safe on ASCII by replaceCaseInsensitive_ascii_total")),
    (r"coercion\.rs", r"^apply_coercion$", r"string_slice", r"container_without_prefix\[pos",
     ("known-finding:lowercase_offsets", "pos found in container_lower")),
    (r"apply\.rs", r"^apply_content_edits_with_content$", r"string_slice|regex::replace_range", r".",
     ("known-finding:stale_offsets", "plan offsets used unchecked; exact condition: applyEdits_no_panic_iff, safe on consistent lists")),
    (r"lock\.rs", r"^acquire$", r"arithmetic_side_effects", r"current_time - timestamp",
     ("known-finding:lock_future_timestamp", "u64 subtraction; lock_age_no_underflow_iff")),
    (r"case_constraints\.rs", r"^has_consecutive_uppercase$", r"indexing_slicing", r"chars\[start\.\.start \+ len\]",
     ("known-finding:nonascii_uppercase_run", "len ranges over a byte length, the slice is indexed by character")),
    (r"pattern\.rs", r"^is_boundary$", r"indexing_slicing", r"^bytes\[start\]$",
     ("known-finding:empty_variant", "index start = len for an empty match at end of input; exact condition isBoundary_panic_iff")),
    (r"output\.rs", r"^format_json$", r".", r".",
     ("known-finding:json_nonutf8_path", "json! unwraps serde errors")),
    # ---- theorems -------------------------------------------------------------------------------------------------
    (r"pattern\.rs", r"^is_boundary$", r".", r".", (T_BND, "every other index of is_boundary is in range whenever start <= end <= len")),
    (r"pattern\.rs", r"^find_matches$", r"indexing_slicing", r"content\[\.\.m\.start\(\)\]",
     ("infallible", "regex match offsets are within the haystack (regex contract; hypothesis of matcher_indices_in_range)")),
    (r"pattern\.rs", r"^find_matches$", r"arithmetic", r"m\.start\(\) - line_start",
     ("infallible", "line_start = (position of a newline before m.start()) + 1 <= m.start(), or 0")),
    (r"case_model\.rs", r"^parse_to_tokens_with_acronyms$", r".", r".", (T_TOK, "index arithmetic of the tokenizer: loop invariants proved for all byte strings")),
    (r"scanner\.rs", r"^extract_immediate_context$", r"string_slice", r".",
     ("theorem:extractContext_no_panic", "match_start = line.find(content), match_end = match_start + content.len(): both boundaries")),
    (r"scanner\.rs", r"^extract_immediate_context$", r"indexing_slicing|arithmetic", r".",
     ("infallible", "Vec<char> indices guarded by `context_start > 0` / `context_end < chars.len()`; char_start/char_end are counts of a prefix")),
    (r"scanner\.rs", r"^generate_hunks$", r"string_slice", r"line_string\[(\.\.match_pos|match_pos)",
     ("theorem:extractContext_no_panic", "match_pos = line_string.find(&content): a boundary, and match_pos + content.len() ends the found text")),
    # ---- subtraction and indexing behind a quoted guard -------------------------------------------------------------
    (r"acronym\.rs", r"^matches_subsequence$", r".", r".",
     ("infallible", "`if search_len > segment_tokens.len() { return None; }` precedes; start_idx + i < start_idx + search_len <= len")),
    (r"acronym\.rs", r"^find_longest_match$", r"indexing_slicing", r"bytes\[i\]", ("infallible", "inside `while i < bytes.len()`")),
    (r"acronym\.rs", r"^find_longest_match$", r"string_slice", r".",
     ("known-finding:acronym_byte_as_char", "`bytes[i] as char` lets a custom acronym with U+0080..U+00FF match one byte of a two-byte character; end = i + 1 then splits it")),
    (r"acronym\.rs", r"^classify_token$", r"indexing_slicing", r"chars\[0\]", ("unclassified", "")),
    (r"case_model\.rs", r"^transform_last_token$", r".", r".",
     ("infallible", "`if model.tokens.is_empty() { return None; }` precedes; last_index = len - 1 < len")),
    (r"case_model\.rs", r"^detect_style$", r"string_slice", r"s\[\.\.=hyphen_pos\]",
     ("infallible", "hyphen_pos is the byte offset of an ASCII '-' found in s: ..=hyphen_pos ends after a one-byte character")),
    (r"coercion\.rs", r"^detect_style$", r"arithmetic|string_slice", r"s\.len\(\) - 1|dot_pos",
     ("infallible", "inside `if let Some(dot_pos) = s.rfind('.')`: s is non-empty and dot_pos addresses an ASCII '.', so dot_pos and dot_pos + 1 are boundaries <= len")),
    (r"coercion\.rs", r"^tokenize$", r"unwrap_used", r"current_word\.pop\(\)\.unwrap\(\)", ("unclassified", "")),
    (r"history\.rs", r"^prune$", r".", r".", ("infallible", "inside `if self.entries.len() > max_entries`: to_remove <= len")),
    (r"history\.rs", r"^format_history$", r"string_slice", r"entry\.id",
     ("unreachable-from-input", "format_history is not called by the CLI (`history` goes through operations::history + output.rs); "
                                "with a crafted history.json id it would split a character")),
    (r"lock\.rs", r"^acquire$", r"indexing_slicing", r"parts\[[01]\]", ("infallible", "inside `if parts.len() == 2`")),
    (r"lock\.rs|scanner\.rs", r".", r"unwrap_used", r"duration_since\((SystemTime::)?UNIX_EPOCH\)",
     ("unreachable-from-input", "fails only when the system clock is before 1970")),
    (r"lock\.rs", r"^is_process_running$", r"regex::unsafe", r".", ("infallible", "libc::kill(pid, 0): no memory is touched")),
    (r"scanner\.rs", r"^read_file_content$", r"regex::unsafe", r".",
     ("unreachable-from-input", "mmap of a file that another process truncates concurrently would SIGBUS; not reachable from the inputs of one command")),
    (r"main\.rs", r"^main$", r"regex::unsafe|expect_used", r".",
     ("unreachable-from-input", "signal handler registration at start-up; fails only if a handler is registered twice")),
    (r"main\.rs", r"^handle_test_lock$", r".", r".", ("unreachable-from-input", "hidden test-lock command; cwd removed")),
    (r"operations/plan\.rs", r"^plan_operation$", r"expect_used", r"current_dir",
     ("unreachable-from-input", "current_dir() fails only when the working directory was removed by another process")),
    (r"cli/types\.rs", r"^from$", r"panic", r".",
     ("unreachable-from-input", "SpaceSeparated is expanded by build_styles_list before any conversion (exercised by the CLI stream with --only/--include/--exclude-styles space-separated)")),
    (r"pattern\.rs", r"^build_pattern$", r"unwrap_used", r"AhoCorasick",
     ("unreachable-from-input", "aho-corasick build errors need > 2^31 pattern bytes/states; variants are a few dozen short strings")),
    (r"pattern\.rs", r"^identify_variant$", r"indexing_slicing", r".",
     ("infallible", "pattern id returned by the automaton built from the same `variants` vector")),
    (r"compound_scanner\.rs", r"^new$", r"expect_used", r"Regex::new", ("infallible", "constant regex assembled from two literal character classes")),
    (r"compound_scanner\.rs", r"^find_enhanced_matches$", r"indexing_slicing", r"content\[\.\.(m\.start\(\)|start)\]",
     ("infallible", "regex match offsets are within the haystack")),
    (r"compound_scanner\.rs", r"^find_enhanced_matches$", r"arithmetic", r"(m\.start\(\)|start) - line_start",
     ("infallible", "line_start = (position of a newline before start) + 1 <= start, or 0")),
    (r"compound_scanner\.rs", r"^find_enhanced_matches$", r"arithmetic", r"m\.line - 1",
     ("infallible", "inside `if m.line > 1`" )),
    (r"compound_scanner\.rs", r"^find_enhanced_matches$", r"unwrap_used", r"replace_idx\.unwrap",
     ("unclassified", "")),
    (r"compound_scanner\.rs", r"^(find_enhanced_matches|enhanced_matches_to_hunks)$", r"arithmetic", r"\.end - \w+\.start",
     ("infallible", "match ranges come from regex matches / identifier spans: start <= end")),
    (r"compound_scanner\.rs", r"^find_all$", r"arithmetic", r"parts\.len\(\) - 1", ("infallible", "str::split always yields at least one part")),
    (r"scanner\.rs", r"^scan_repository_multi$", r"arithmetic", r"search_tokens\.tokens\.len\(\) - 1",
     ("infallible", "evaluated inside `for (idx, token) in search_tokens.tokens.iter().enumerate()`: the vector is non-empty")),
    (r"scanner\.rs", r"^scan_repository_multi$", r"string_slice", r"text\[first_char\.len_utf8\(\)\.\.\]",
     ("infallible", "first_char = text.chars().next(): its UTF-8 length is a boundary of text")),
    (r"scanner\.rs", r"^scan_repository_multi$", r"indexing_slicing", r"token_pattern_to_group|present\[",
     ("infallible", "pattern ids of the automaton built from the same vector; token_idx < number of groups by construction")),
    (r"scanner\.rs", r"^generate_hunks$", r"indexing_slicing", r"lines\[line_idx\]", ("infallible", "`if line_idx >= lines.len() { continue; }` precedes")),
    (r"scanner\.rs", r"^generate_hunks$", r"unwrap_used", r"variant_map\.get",
     ("infallible", "taken only when `!is_compound_match`, i.e. `variant_map.contains_key(&m.variant)`")),
    (r"scanner\.rs", r"^generate_plan_id$", r"string_slice", r"\[\.\.16\]", ("infallible", "hex digest of SHA-256 is 64 ASCII characters")),
    (r"scanner\.rs", r"^capitalize_token$", r"unwrap_used", r".", ("unclassified", "")),
    (r"scanner\.rs", r"^get$", r"indexing_slicing", r"replacements\[0\]", ("unclassified", "")),
    (r"scanner\.rs", r"^build_acronym_set$", r"regex::remove", r".", ("infallible", "HashSet::remove does not panic")),
    (r"scanner\.rs", r"^process_file_content$", r"unwrap_used", r"search_regex\.unwrap|captures\.get\(0\)",
     ("infallible", "search_regex is Some whenever is_regex (create_simple_plan builds it under the same flag); group 0 always participates")),
    (r"scanner\.rs", r"^process_path_renames$", r"unwrap_used", r"search_regex\.unwrap", ("infallible", "same flag as above")),
    (r"scanner\.rs", r"^process_file_content$", r"string_slice", r"line\[(\.\.start|end\.\.|search_start\.\.)\]",
     ("infallible", "start/end come from regex / str::find on the same `line`: character boundaries within it; search_start = previous end")),
    (r"preview/(diff|matches|summary|table)\.rs", r".", r"indexing_slicing", r"(file_hunks|line_hunks|file_matches|file_stats)\[&",
     LOOKUP),
    (r"preview/diff\.rs", r"^render_diff$", r"indexing_slicing", r"line_hunk_group\[0\]", ("infallible", "groups are created by pushing a first element")),
    (r"preview/diff\.rs", r"^highlight_line_with_hunks$", r"unwrap_used", r"try_from",
     ("infallible", "u32 -> usize and in-memory lengths -> isize conversions cannot fail on a 64-bit target")),
    (r"preview/matches\.rs", r"^render_matches$", r"arithmetic", r"hunks\.len\(\) - display_count",
     ("infallible", "inside `if hunks.len() > display_count`")),
    (r"preview/matches\.rs", r"^render_matches$", r"arithmetic", r"hunk\.byte_offset \+ 1",
     ("unreachable-from-input", "u32 overflow needs a match at column 2^32-1, i.e. a line of more than 4 GiB; outside the explored domain")),
    (r"apply\.rs", r"^split_preserving_newlines$", r".", r".",
     ("infallible", "i is the byte offset of an ASCII '\\n' from char_indices: start..=i and i + 1 are boundaries <= len")),
    (r"id_resolver\.rs", r"^resolve_latest_id$", r"unwrap_used", r"revert_of",
     ("infallible", "inside `.find(|entry| entry.revert_of.is_some())`")),
    (r"lib\.rs", r"^configure_walker$", r"indexing_slicing", r"roots\[0\]", ("unclassified", "")),
    (r"operations/rename\.rs", r"^generate_root_rename_snippet$", r"indexing_slicing", r"root_renames\[0\]", ("unclassified", "")),
    (r"ambiguity/file_context\.rs", r"^calculate_dominance$", r"unwrap_used", r"in_canonical_order\(style_counts\)",
     ("infallible", "max_by_key over the counted styles in canonical order: the function has returned for an empty map, and "
                    "Style::all_styles() lists every variant of the enum, so the vector has an element for every key")),
    (r"ambiguity/", r".", r"indexing_slicing|string_slice|unwrap_used", r".", ("unclassified", "")),
    (r"undo\.rs", r".", r"regex::split_at", r".",
     ("unreachable-from-input", "inside a `#[cfg(windows)]` block (not compiled here); line_end = find('\\n') or len, a character boundary")),
    (r"case_constraints\.rs", r"^has_consecutive_uppercase$", r"indexing_slicing", r"chars\[(i|start\.\.i)\]",
     ("infallible", "i < chars.len() in both loop conditions; start <= i <= len")),
    # ---- additions, increments, multiplications on in-memory sizes ---------------------------------------------------
    (r".", r".", r"arithmetic_side_effects", r"^[^-]*(\+=?|\*)[^-]*$", ADD),
]


def classify(site):
    f = site["file"]
    for fr, fnr, lr, er, res in RULES:
        if re.search(fr, f) and re.search(fnr, site["fn"]) and re.search(lr, site["lint"]) and re.search(er, site["expr"]):
            return res
    return ("unclassified", "")


def main(argv):
    repos, write, refresh = [], False, False
    i = 0
    while i < len(argv):
        if argv[i] == "--repo":
            repos.append(argv[i + 1]); i += 1
        elif argv[i] == "--write":
            write = True
        elif argv[i] == "--refresh":
            refresh = True       # re-apply the rule table to entries that are `known-finding:*` or `unclassified`
        i += 1
    repos = repos or [common.REPO]
    from translate import panic_sites
    path = os.path.join(common.ROOT, "corpus", "C16", "classification.json")
    try:
        cls = json.load(open(path))
    except (OSError, ValueError):
        cls = {"comment": "", "sites": {}}
    cls["comment"] = ("committed classification of the panic-site inventory (translate/panic_sites.py). key = file::fn::lint::sha1(file, fn, lint, "
                      "expression, line text, occurrence)[:10]. class: theorem:<name in Props/C16.lean> | infallible | known-finding:<slug> | "
                      "unreachable-from-input | unclassified. Maintained with `python3 -m checks.c16_classify --write`; entries are never "
                      "rewritten by the check.")
    added = {}
    for repo in repos:
        sites, mode = panic_sites.inventory(repo)
        print(f"{repo}: {len(sites)} sites ({mode})")
        for s in sites:
            old = cls["sites"].get(s["key"])
            if old is not None and not (refresh and old["class"].split(":")[0] in ("known-finding", "unclassified")):
                continue
            c, why = classify(s)
            cls["sites"][s["key"]] = {"class": c, "reason": why, "file": s["file"], "fn": s["fn"], "lint": s["lint"], "expr": s["expr"][:120]}
            added[c.split(":")[0]] = added.get(c.split(":")[0], 0) + 1
            if c == "unclassified":
                print("  unclassified:", s["file"], s["fn"], s["lint"], s["expr"][:80])
    print("added:", added, "total entries:", len(cls["sites"]))
    if write:
        with open(path, "w") as fh:
            json.dump(cls, fh, indent=0, sort_keys=True, ensure_ascii=False)
            fh.write("\n")


if __name__ == "__main__":
    main(sys.argv[1:])
