"""C06 — Every case style of the term is found and rewritten in the same style.

translate   Gen/LineTables.lean (Style::constraints, DEFAULT_PRECEDENCE, the scanner's default style lists, regex meta
            characters) + Gen/Acronyms.lean / Gen/Styles.lean + Gen/ResolverShape.lean (AmbiguityContext construction sites,
            level order, file-context constants, extension table) + Gen/LanguageRules.lean (the twelve language modules of the
            resolver parsed into decision trees)
prove       RModel.Props.C06 (filterCompatible facts over all texts, resolver membership, key unambiguity, boundary and
            coercion lemmas, the composed same-style theorem under its guard, witnesses)
correspond  `rewriteline` = real plan_operation (real build_styles_list) + apply_plan on a one-line file  vs
            LinePipeline.rewriteLineReal (the COMPOSED model of Model/LineEnv.lean: real coercion decision, real compound pass
            with overlap resolution, the scanner's pre-filter), also on the `busy lines` family (checks/c06_lines.py: the term
            embedded in longer identifiers, dotted paths, '-'/'_' mixes, several occurrences per line);  `filtercompat`, `resolve`, `stylelist` on hostile texts / option sets
            `rewritefile` / `resolvectx` (harness only): context-heavy multi-line files, oracle-judged
            `langsuggest` / `filesuggest` / `resolvewhy` (+ `hunkctx` against `rewritefile`): the resolver's context heuristics,
            real code vs Model/Resolver.lean (checks/c06_resolver.py)
oracle      independent: expected line = d1 + gen.render(style, replacement words) + d2 when the occurrence style is enabled
            under the documented option semantics, unchanged otherwise; ambiguity clause on flat / single-word occurrences.
            Exhaustive over (term pair, input styles) combos x 12 visible styles x 18 delimiter contexts (7 of them non-ASCII or control bytes) x 30 option sets.
            A failing case must fall under a listed finding class by the decidable description below, else VIOLATION.
witnesses   corpus/C06/*.json replayed on the harness (findings still real + regression cases, among them the repaired
            Sentence-case occurrence, which is also run through the CLI binary)
"""
import concurrent.futures
import json
import os

from . import common, gen, c06_lines, c06_resolver
from .common import hexs, unhex

# neutral delimiter contexts: line start/end, spaces, quotes, brackets, '/', '::', '.', ',' and an occurrence inside a
# sentence of other lower-case words (spaces are neutral delimiters)
DELIMS = [("", ""), (" ", " "), ('"', '"'), ("'", "'"), ("(", ")"), ("[", "]"), ("/", "/"), ("::", "::"), (".", "."),
          (",", ","), ("see ", " now"),
          # quotes and brackets that are not ASCII (the quantifier says "quotes, brackets"; `is_boundary` treats every
          # non-alphanumeric byte as a delimiter), an em dash touching the term, a byte-order mark at the start of the
          # file, a control byte
          ("\u201c", "\u201d"), ("\u2018", "\u2019"), ("\u00ab", "\u00bb"), ("\u300c", "\u300d"), ("\u2014", "\u2026"),
          ("\ufeff", "\u2122"), ("\x01", "\x7f")]
ALL_DEFAULT = ",".join(gen.DEFAULT_STYLES)
SCANNER7 = ["snake", "kebab", "camel", "pascal", "screaming_snake", "train", "screaming_train"]
SEPS = "_-. "
NWORKERS = 8


def option_sets():
    s = ["default"]
    s += ["o=" + st for st in gen.STYLES]
    s += ["x=" + st for st in gen.DEFAULT_STYLES]
    s += ["i=dot", "i=title,sentence,lower_sentence,upper_sentence", "i=dot,lower_flat,upper_flat"]
    s += ["x=" + ALL_DEFAULT]
    return s


def parse_opts(opts):
    x, i, o = [], [], []
    if opts != "default":
        for part in opts.split(";"):
            k, v = part.split("=")
            l = [n for n in v.split(",") if n and n != "-"]
            if k == "x": x = l
            elif k == "i": i = l
            else: o = l
    return x, i, o


def enabled(opts):
    """documented CLI semantics: --only-styles replaces the default set, otherwise defaults minus excluded plus included"""
    x, i, o = parse_opts(opts)
    if o:
        return list(o)
    act = [s for s in gen.DEFAULT_STYLES if s not in x]
    for s in i:
        if s not in act:
            act.append(s)
    return act


def cli_flags(opts):
    x, i, o = parse_opts(opts)
    f = []
    if x: f += ["--exclude-styles", ",".join(gen.CLI_NAME[s] for s in x)]
    if i: f += ["--include-styles", ",".join(gen.CLI_NAME[s] for s in i)]
    if o: f += ["--only-styles", ",".join(gen.CLI_NAME[s] for s in o)]
    return f


# (search words, replacement words, style the search is typed in, style the replacement is typed in)
COMBOS = [
    (["foo", "bar"], ["baz", "qux"], "snake", "snake"),
    (["alpha", "gamma", "delta"], ["widget"], "camel", "title"),
    (["tiger", "lemon"], ["nova", "foo", "bar"], "kebab", "pascal"),
    (["gadget", "nova"], ["gadget", "lemon"], "pascal", "camel"),
    (["widget", "qux", "baz"], ["delta", "alpha"], "screaming_snake", "kebab"),
    (["lemon", "tiger"], ["bar", "foo"], "title", "sentence"),
    (["bar", "alpha"], ["tiger", "widget", "nova"], "train", "screaming_snake"),
    (["qux", "gamma"], ["lemon"], "screaming_train", "lower_flat"),
    (["nova", "delta", "foo"], ["gamma", "gadget"], "dot", "upper_sentence"),
    (["delta", "widget"], ["qux", "tiger"], "sentence", "dot"),
    (["baz", "gadget"], ["alpha", "bar"], "lower_sentence", "train"),
    (["gamma", "lemon"], ["foo", "delta", "qux"], "upper_sentence", "upper_flat"),
]


def run_parallel(binary, reqs, n=NWORKERS):
    if len(reqs) < 200:
        return common.run_lines(binary, reqs)
    chunks = [reqs[i::n] for i in range(n)]
    with concurrent.futures.ThreadPoolExecutor(n) as ex:
        outs = list(ex.map(lambda c: common.run_lines(binary, c) if c else [], chunks))
    res = [None] * len(reqs)
    for k, out in enumerate(outs):
        res[k::n] = out
    return res


def correspond(ctx, name, reqs):
    """common.correspond with the implementation side spread over several harness processes"""
    if not reqs:
        return []
    impl = run_parallel(common.HARNESS_BIN, reqs)
    model = run_parallel(common.RMODEL_BIN, reqs, n=4)
    ctx.cov["disagreements_checked"] += len(reqs)
    dis = [(r, i, m) for r, i, m in zip(reqs, impl, model) if i != m]
    if dis:
        r, i, m = dis[0]
        ctx.broke("correspondence", name, {"request": describe(r), "impl": describe_out(i), "model": describe_out(m),
                                           "count": len(dis), "of": len(reqs)})
    return list(zip(reqs, impl, model))


def describe(req):
    f = req.split()
    if f[0] == "rewriteline":
        return {"op": f[0], "line": unhex(f[1]).decode("utf-8", "replace"), "search": unhex(f[2]).decode("utf-8", "replace"),
                "replace": unhex(f[3]).decode("utf-8", "replace"), "opts": f[4], "plurals": f[5], "request": req}
    return {"request": req, "args": [unhex(x).decode("utf-8", "replace") if all(c in "0123456789abcdef-" for c in x) else x
                                     for x in f[1:]]}


def describe_out(out):
    f = out.split()
    if len(f) >= 4 and f[0] == "r":
        try:
            return {"status": f[1], "line": unhex(f[2]).decode("utf-8", "replace"),
                    "hunks": [[int(c), unhex(a).decode("utf-8", "replace"), unhex(b).decode("utf-8", "replace")]
                              for c, a, b in zip(f[4::3], f[5::3], f[6::3])]}
        except ValueError:
            return out
    return out


class Forms:
    """the real pluralizer's answers for the last token of a typed term (fields for the model's sing/plur parameters)"""

    def __init__(self):
        self.cache = {}

    def get(self, typed):
        if typed not in self.cache:
            toks = common.run_impl(["tokens " + hexs(typed)])[0].split()[1:]
            if not toks:
                self.cache[typed] = ("none", "none")
            else:
                f = common.run_impl(["plforms " + toks[-1]])[0].split()
                self.cache[typed] = (f[1], f[2])
        return self.cache[typed]


def mkreq(forms, line, ts, tr, opts, plurals=True, cli=True):
    """cli=True: the call of the CLI handlers (atomic configuration present, variant table from case_model.rs; modes q0/q1);
    cli=False: core API without atomic configuration (the scanner's own variant loop; modes p0/p1)"""
    m = "q" if cli else "p"
    if plurals:
        fs, fr = forms.get(ts), forms.get(tr)
        return f"rewriteline {hexs(line)} {hexs(ts)} {hexs(tr)} {opts} {m}1 {fs[0]} {fs[1]} {fr[0]} {fr[1]}"
    return f"rewriteline {hexs(line)} {hexs(ts)} {hexs(tr)} {opts} {m}0"


def out_line(out):
    f = out.split()
    if len(f) < 3 or f[0] != "r":
        return None, out
    return f[1], unhex(f[2]).decode("utf-8", "replace")


# ---------------------------------------------------------------------------------------------------------------------
# the oracle and the finding classes

def expected_line(case):
    S, R, st, d1, d2, opts = case["swords"], case["rwords"], case["style"], case["d1"], case["d2"], case["opts"]
    if st in enabled(opts):
        return d1 + gen.render(st, R) + d2 + "\n"
    return case["line"]


def classify(case, got):
    """None when the property holds on the case, a finding slug when the failure matches a listed class, else 'VIOLATION'"""
    want = expected_line(case)
    if got == want:
        return None
    S, R, st, d1, d2, opts = case["swords"], case["rwords"], case["style"], case["d1"], case["d2"], case["opts"]
    en = enabled(opts)
    typed_s, typed_r = case["search"], case["replace"]
    wrap = lambda x: d1 + x + d2 + "\n"
    # (a) [fixed in /repo by 70c1048 "tell Title Case and Sentence case apart"; no longer a finding class: a Sentence
    #     occurrence rewritten as Title is a VIOLATION again]
    # (b) exclude_all_reenables_defaults: fixed in /repo by fcc6db2; (c) single_style_separatorless_search_unmatched: fixed by
    #     1fd3fe0.  No class is left: every failure of the oracle is a VIOLATION.  In particular the occurrence spelled exactly
    #     like the search term AS TYPED is judged like every other occurrence (C18's `exact_entry_override` concerns the variant
    #     table built WITHOUT a style list, which no CLI option set produces any more).
    return "VIOLATION"


def starts_upper(s):
    return s[:1].isalpha() and s[:1].isupper()


def starts_lower(s):
    return s[:1].isalpha() and s[:1].islower()


def all_upper(s):
    return any(c.isalpha() for c in s) and not any(c.islower() for c in s)


def ambiguity_ok(case, got):
    """clause 3: the rewritten text keeps first-letter case and all-caps-ness, and is the replacement term in some style"""
    d1, d2, line = case["d1"], case["d2"], case["line"]
    if got == line:
        return True, "unchanged"
    if not (got.startswith(d1) and got.endswith(d2 + "\n")):
        return False, "delimiters changed"
    old = line[len(d1):len(line) - len(d2) - 1]
    new = got[len(d1):len(got) - len(d2) - 1]
    flat = "".join(c for c in new if c not in SEPS).lower()
    if flat != "".join(case["rwords"]):
        return False, "not a rendering of the replacement term"
    if starts_upper(old) != starts_upper(new) or starts_lower(old) != starts_lower(new):
        return False, "first-letter case changed"
    if all_upper(old) and not all_upper(new):
        return False, "all-upper-case match lost its case"
    return True, "rewritten"


# ---------------------------------------------------------------------------------------------------------------------

def mkcase(S, R, sst, rst, opts, st, d1, d2):
    typed_r = gen.render(rst, R)
    if rst in ("lower_flat", "upper_flat"):
        R = ["".join(R)]          # a replacement typed without word boundaries is a one-word term
    return {"swords": S, "rwords": R, "search": gen.render(sst, S), "replace": typed_r, "search_style": sst,
            "replace_style": rst, "opts": opts, "style": st, "d1": d1, "d2": d2,
            "line": d1 + gen.render(st, S) + d2 + "\n"}


def command_line(case):
    if "search" not in case or "opts" not in case:
        return None
    return {"file a.txt": case.get("line"),
            "argv": ["renamify", "rename", case["search"], case["replace"]] + cli_flags(case["opts"]) + ["-y"]}


def report(ctx, case, req, impl, model, slug_or_v, note):
    ctx.violation("input", {**case, "request": req, "command": command_line(case)},
                  expected=expected_line(case) if "style" in case else None,
                  observed=describe_out(impl), model_prediction=describe_out(model), note=note)


def run_witnesses(ctx, forms):
    """corpus first: every recorded witness is re-run on the implementation and on the model"""
    d = os.path.join(common.ROOT, "corpus", ctx.pid)
    seen = {}
    if not os.path.isdir(d):
        return seen
    for fn in sorted(os.listdir(d)):
        if not fn.endswith(".json"):
            continue
        obj = json.load(open(os.path.join(d, fn)))
        case = obj["case"]
        if case.get("family") in ("busy", "resolver"):
            continue        # re-observed by c06_lines.run_family / c06_resolver.run_family
        req = mkreq(forms, case["line"], case["search"], case["replace"], case["opts"])
        impl = common.run_impl([req])[0]
        model = common.run_model([req])[0]
        _, got = out_line(impl)
        slug = obj.get("finding")
        ctx.case(("corpus", fn))
        ctx.count("corpus")
        if impl != model:
            ctx.broke("correspondence", f"corpus/{fn}", {"request": describe(req), "impl": describe_out(impl),
                                                          "model": describe_out(model)})
        if slug:
            if got == obj["observed"] and classify(case, got) == slug:
                seen[slug] = True
                if not ctx.known(slug):
                    report(ctx, case, req, impl, model, slug, f"defect class {slug} reproduced but not listed in KNOWN_FINDINGS.txt")
            else:
                ctx.notes.append(f"witness {fn} ({slug}) no longer fails as recorded: observed {got!r}")
                if classify(case, got) not in (None, slug):
                    report(ctx, case, req, impl, model, "VIOLATION", f"witness {fn} now fails differently")
        elif classify(case, got) is not None:
            report(ctx, case, req, impl, model, "VIOLATION", f"regression case {fn} fails")
    return seen


def cli_rename(args, line):
    """`renamify rename … -y` in a scratch directory; returns the rewritten one-line file"""
    with common.scratch() as d:
        with open(os.path.join(d, "a.txt"), "w") as fh:
            fh.write(line)
        rc, out, err = common.cli(["rename"] + args + ["-y", "--no-rename-paths"], cwd=d)
        with open(os.path.join(d, "a.txt")) as fh:
            return rc, fh.read(), (out + err).decode("utf-8", "replace")[-400:]


# ---------------------------------------------------------------------------------------------------------------------
# context-heavy files: the resolver's language / file-context heuristics get something to say

CTX_DOMINANT = ["snake", "camel", "pascal", "kebab", "screaming_snake"]
CTX_EXT = ["txt", "rs", "py", "js", "rb", "go", "css", "yaml", "sh", "java", "html", "json", "c", "md"]
CTX_EXTRA_WORDS = ["amber", "birch", "cedar", "maple", "olive", "hazel", "kappa", "sigma", "theta", "omega"]
# what precedes the occurrence on its line (language modules look at the trimmed preceding text)
CTX_PRE = ["", "marker = (", "let ", "const ", "class ", "def ", "fn ", "struct ", "function ", "export ", "var ", "key: ",
           "  - ", "type ", "func ", "module ", "@", "$", ".", "#", "import ", "<div class=\"", "public static final int "]
CTX_POST = ["", ")", " = 1", "()", ";", ":", "\"", " {"]


def ctx_file(rng, swords, rwords, occurrences, dominant, share):
    """file content: 60..120 multi-word identifiers, `share` of them in the dominant style, the occurrences on lines of
    their own at random places.  Returns (content, [(line number, col, occurrence text)])"""
    words = [w for w in gen.VOCAB + CTX_EXTRA_WORDS if w not in swords and w not in rwords]
    n = rng.randint(60, 120)
    idents = []
    for i in range(n):
        st = dominant if i < share * n else rng.choice([x for x in CTX_DOMINANT if x != dominant])
        idents.append(gen.render(st, rng.sample(words, rng.randint(2, 3))))
    rng.shuffle(idents)
    lines = [f"{ident} = {i}" for i, ident in enumerate(idents)]
    occ_lines = []
    for occ in occurrences:
        pre = rng.choice(CTX_PRE)
        post = rng.choice(CTX_POST)
        if post == ")" and "(" not in pre:
            post = ""
        occ_lines.append((pre, occ, post))
    places = sorted(rng.sample(range(len(lines) + 1), len(occ_lines)))
    where = []
    for k, (pos, (pre, occ, post)) in enumerate(zip(places, occ_lines)):
        lines.insert(pos + k, pre + occ + post)
        where.append((pos + k + 1, len(pre), occ))
    return "\n".join(lines) + "\n", where


def keeps_case(old, new):
    if starts_upper(old) != starts_upper(new) or starts_lower(old) != starts_lower(new):
        return "first-letter case changed"
    if all_upper(old) and not all_upper(new):
        return "all-upper-case match lost its case"
    return None


def parse_file_out(out):
    f = out.split()
    if len(f) < 4 or f[0] != "f":
        return None, None, []
    hunks = [(int(l), int(c), unhex(a).decode("utf-8", "replace"), unhex(b).decode("utf-8", "replace"))
             for l, c, a, b in zip(f[4::4], f[5::4], f[6::4], f[7::4])]
    return f[1], unhex(f[2]).decode("utf-8", "replace"), hunks


def run_context_family(ctx):
    """clause 3 under context heuristics: every rewritten occurrence keeps first-letter case and all-caps-ness, and the style
    the resolver returns for an ambiguous match (full context) is compatible with the match"""
    rng = ctx.rng
    files = []
    term_sets = [(["foo", "bar"], ["baz", "qux"]), (["tiger", "lemon"], ["nova", "widget"])]
    if ctx.thorough:
        term_sets.append((["gadget", "delta"], ["alpha"]))
    for S, R in term_sets:
        flat = [gen.render("lower_flat", S), gen.render("upper_flat", S)]
        single = [S[0], S[0].capitalize(), S[0].upper()]
        plans = [  # (typed search, typed replace, option set, occurrences)
            (gen.render("snake", S), gen.render("snake", R), "i=lower_flat,upper_flat", flat * 2),
            (gen.render("camel", S), gen.render("pascal", R), "o=lower_flat,upper_flat,snake,pascal", flat * 2),
            (S[0], gen.render("snake", R), "default", single * 2),
            (S[0].capitalize(), gen.render("camel", R), "default", single * 2),
        ]
        for dominant in CTX_DOMINANT:
            for ext in CTX_EXT:
                for ts, tr, opts, occs in plans:
                    for _ in range(2 if ctx.thorough else 1):
                        share = rng.choice([0.62, 0.75, 0.9, 1.0])
                        rw = R if not (ts == S[0] or ts == S[0].capitalize()) else R
                        content, where = ctx_file(rng, S, R, occs, dominant, share)
                        files.append({"name": "notes." + ext, "content": content, "search": ts, "replace": tr, "opts": opts,
                                      "dominant": dominant, "share": share, "where": where, "rwords": rw})
    reqs = [f"rewritefile {hexs(c['name'])} {hexs(c['content'])} {hexs(c['search'])} {hexs(c['replace'])} {c['opts']} q1"
            for c in files]
    outs = run_parallel(common.HARNESS_BIN, reqs)
    creqs, cmeta = [], []
    for c, req, out in zip(files, reqs, outs):
        ctx.case(("ctxfile", req))
        status, new, hunks = parse_file_out(out)
        short = {k: c[k] for k in ("name", "search", "replace", "opts", "dominant", "share")}
        if status != "ok":
            ctx.violation("input", {**short, "content": c["content"], "request": req}, expected="plan and apply succeed",
                          observed=out[:300], note="plan or apply failed on a context-heavy file")
            return False
        by_pos = {(l, col): (old, rep) for l, col, old, rep in hunks}
        old_lines = c["content"].split("\n")
        for l, col, occ in c["where"]:
            h = by_pos.get((l, col))
            ctx.count("context:" + ("rewritten" if h else "unchanged"))
            if h:
                old, rep = h
                why = keeps_case(old, rep)
                flat_new = "".join(ch for ch in rep if ch not in SEPS).lower()
                if why is None and old == occ and flat_new != "".join(c["rwords"]):
                    why = "not a rendering of the replacement term"
                if why:
                    ctx.violation("input", {**short, "line": old_lines[l - 1], "line_number": l, "content": c["content"],
                                            "request": req},
                                  expected="first-letter case and all-caps-ness of the occurrence preserved",
                                  observed={"occurrence": old, "rewritten_as": rep},
                                  note=f"ambiguity clause in a {c['dominant']}-dominated {c['name']} "
                                       f"({int(c['share'] * 100)} % of the identifiers): " + why)
                    return False
            # the resolver contract on this very context
            creqs.append(f"resolvectx {hexs(c['name'])} {hexs(c['content'])} {hexs(old_lines[l - 1])} {col} {hexs(occ)} "
                         f"{hexs(c['replace'])}")
            creqs.append(f"filtercompat {hexs(occ)} all")
            cmeta.append((short, old_lines[l - 1], occ, c["content"]))
        # nothing but the occurrences may change
        for l, col, old, rep in hunks:
            if (l, col) not in {(a, b) for a, b, _ in c["where"]}:
                ctx.violation("input", {**short, "line": old_lines[l - 1], "content": c["content"], "request": req},
                              expected="only the occurrences of the term change", observed={"hunk": [l, col, old, rep]},
                              note="a filler identifier of a context-heavy file was rewritten")
                return False
    if ctx.thorough or True:
        # resolver contract: sample (every 3rd in quick) — each request carries the whole file
        step = 1 if ctx.thorough else 3
        pick = [k for k in range(0, len(cmeta), step)]
        sub = []
        for k in pick:
            sub += creqs[2 * k:2 * k + 2]
        res = run_parallel(common.HARNESS_BIN, sub)
        for j, k in enumerate(pick):
            chosen = res[2 * j].split()[1]
            comp = res[2 * j + 1].split()[1]
            ctx.case(("resolvectx", sub[2 * j]))
            ctx.count("context:resolve")
            ctx.count("context:resolved-to-dominant" if chosen == cmeta[k][0]["dominant"] else "context:resolved-otherwise")
            if comp != "-" and len(comp.split(",")) > 1 and chosen not in comp.split(","):
                short, line, occ, content = cmeta[k]
                ctx.violation("input", {**short, "op": "resolve_with_styles(full context)", "line": line, "matched": occ,
                                        "content": content, "request": sub[2 * j]},
                              expected={"member of": comp}, observed=chosen,
                              note="the resolver, given the file and line context, chose a style the matched text cannot be "
                                   "written in (contract HeurOk of ambiguous_keeps_case)")
                return False
    ctx.sample({"context_file": files[0]["name"], "dominant": files[0]["dominant"], "first_lines": files[0]["content"][:160]})
    return True


def run(ctx):
    opt_sets = option_sets()
    ctx.cov["rule"] = (
        "rewriteline requests: (term pair, typed styles) combos [thorough: 12, one per boundary-visible input style of the search "
        "term; quick: the first 2 + one seed-chosen] x 12 boundary-visible occurrence styles x 18 delimiter contexts (7 of them non-ASCII or control bytes) x 30 option "
        "sets (default, --only-styles each of 14, --exclude-styles each of 11, 3 --include-styles sets, exclude-all), exhaustive; "
        "typed style pairs: search and replacement typed in independently chosen styles (thorough all 12 x 14, quick every pair inside "
        "one separator family + a third of the rest) x 3 option sets x 12 occurrence styles, the as-typed occurrence on both "
        "variant-table paths; "
        "ambiguity clause: flat occurrences and single-word search terms x option sets, and the same occurrences inside context-heavy "
        "files (60..120 identifiers, 62..100 % in one of 5 dominant styles) x 14 extensions x 23 preceding contexts through the real "
        "pipeline + the resolver contract on those contexts; filtercompat/resolve on 1500 (quick 500) "
        "hostile texts; stylelist on all option sets + 200 random option sets; busy lines: 9 hand-written + 1200 (thorough 6000) random "
        "lines of 2..5 items (standalone occurrence in one of 12 styles | term embedded in a one-style identifier | prefix/term/suffix "
        "in three independently chosen styles joined by _ - . or nothing | dotted path | filler; 35 %: the spelling of an earlier "
        "embedded term once more standing alone) x 14 option sets x plural variants on/off x CLI/core-API table; "
        "resolver context (checks/c06_resolver.py, model = Model/Resolver.lean): langsuggest 6000 (thorough 24000) = every literal the 12 "
        "language modules test for (read from languages/*.rs) bare x 4 possible-style lists + random preceding texts of 1..3 such "
        "literals / fillers x every extension of the table and 18 other file names x random and realistic possible lists; filesuggest "
        "400 (1600) files around the 50-identifier threshold, the 0.4 ratio, ties for first / second place, with extractor noise; "
        "resolvewhy 2000 (8000) full contexts (17 ambiguous + 8 unambiguous texts x 17 replacement spellings); 80 (320) multi-line "
        "files of all 12 languages through the real pipeline, every ambiguous hunk compared with the model's replacement text. "
        "non-trivial = the line contains an occurrence; "
        "distinct = distinct request line")
    ctx.cov["exhaustive"] = True
    ctx.assumptions += [
        "requests use the CLI handlers' call (Some(AtomicConfig) with nothing atomic -> variant table from case_model.rs) unless marked "
        "core-API (atomic_config = None -> the scanner's own variant loop); both are modelled and proved",
        "one-line ASCII file a.txt: no language heuristic, fewer than 50 identifiers (file-context heuristic silent), no project root",
        "resolver-context family: ASCII path, line and file content (the Rust code's trim / is_uppercase / is_alphabetic / "
        "is_alphanumeric are Unicode aware, the model's classes are ASCII); at equal identifier counts the real file-context answer "
        "depends on HashMap iteration order: the harness repeats the call, the model gives the set of answers over all orders "
        "(proved complete: C06.file_context_answers), observed must be a subset, equal when the set is a singleton; the cross-file "
        "level is not modelled — it is unreachable (project_root: None at every construction site, read from the source)",
        "acronym set = DEFAULT_ACRONYMS; vocabulary words are neutral (no acronym, no digit, regular plural)",
        "pluralizer crate answers are fed to the model as data (parameters sing/plur of the theorems)",
        "the rewriteline op runs the composed model (Model/LineEnv.lean): coercion = RenamePlan.applyCoercion + apply_coercion_to_variant, "
        "compound pass = Compound.findAll/findCompound + overlap resolution, pre-filter; only the resolver's context heuristics stay a "
        "parameter.  Non-ASCII characters of a line must be neither alphanumeric nor white space (the model treats every byte >= 0x80 "
        "as a non-word byte)",
        "'enabled' per option set = (Style::default_styles() minus --exclude-styles) plus --include-styles, or --only-styles; the "
        "help text of --exclude-styles lists only 7 defaults, the code (and this check) use the 11 of Style::default_styles()"]
    # ---- translate -----------------------------------------------------------------------------------------------
    try:
        from translate import acronyms, linetables, resolvershape, languagerules
        acronyms.run()
        linetables.run()
        resolvershape.run()
        languagerules.run()
    except Exception as e:  # noqa: BLE001 — a translator that cannot parse its source is a broken tie
        ctx.broke("translator", "translate/linetables", repr(e))
    # ---- prove ---------------------------------------------------------------------------------------------------
    ctx.prove("RModel.Props.C06")
    ok, msg = common.cargo_build()
    if not ok:
        ctx.broke("build", "cargo", msg)
        return
    rng = ctx.rng
    forms = Forms()
    seen = run_witnesses(ctx, forms)

    # ---- busy lines: the compound pass and the coercion are NOT silent (composed model, checks/c06_lines.py) ---------
    import sys
    if not c06_lines.run_family(ctx, sys.modules[__name__], forms):
        return

    # ---- the edge of the validated domain (Props/C06.lean, `NeutralText`): a non-ASCII LETTER directly next to the occurrence
    #      is not a delimiter; the byte-level model and the code (char::is_alphanumeric) part there.  Recorded, not judged:
    #      if they ever AGREE on these lines the note in the Lean file and in DESIGN.md is out of date.
    edge = []
    for ch in ("\u00e9", "\u00df", "\u65e5"):
        req = mkreq(forms, ch + "FOO_BAR\n", "foo_bar", "baz_qux", "default")
        edge.append({"line": ch + "FOO_BAR", "impl": out_line(common.run_impl([req])[0])[1], "model": out_line(common.run_model([req])[0])[1]})
    ctx.cov["outside_validated_domain"] = edge

    # ---- option sets: documented semantics vs build_styles_list (real) vs model ------------------------------------
    sreqs = ["stylelist " + o for o in opt_sets]
    for _ in range(200):
        kind = rng.random()
        if kind < 0.3:
            sreqs.append("stylelist o=" + ",".join(rng.sample(gen.STYLES, rng.randint(1, 4))))
        else:
            x = rng.sample(gen.STYLES, rng.randint(0, 6))
            i = rng.sample(gen.STYLES, rng.randint(0, 4))
            parts = (["x=" + ",".join(x)] if x else []) + (["i=" + ",".join(i)] if i else [])
            sreqs.append("stylelist " + (";".join(parts) or "default"))
    for req, impl, model in correspond(ctx, "build_styles_list vs buildStylesList", sreqs):
        ctx.case(req)
        opts = req.split()[1]
        en = enabled(opts)
        got = [] if impl.split()[1] == "-" else impl.split()[1].split(",")
        if en and got != en:
            ctx.violation("input", {"op": "stylelist", "opts": opts}, expected=en, observed=got, model_prediction=model,
                          note="the style list the scan uses differs from the documented option semantics")
            return
    ctx.count("stylelist", len(sreqs))

    # ---- exhaustive same-style / disabled-untouched oracle ---------------------------------------------------------
    combos = list(COMBOS) if ctx.thorough else COMBOS[:2] + [COMBOS[2 + rng.randrange(len(COMBOS) - 2)]]
    cases, reqs = [], []
    for ci, (S, R, sst, rst) in enumerate(combos):
        sets = opt_sets if (ctx.thorough or ci < 2) else rng.sample(opt_sets, 8)
        for opts in sets:
            for st in gen.V12:
                for d1, d2 in DELIMS:
                    c = mkcase(S, R, sst, rst, opts, st, d1, d2)
                    cases.append(c)
                    reqs.append(mkreq(forms, c["line"], c["search"], c["replace"], opts))
    res = correspond(ctx, "rewriteline (exhaustive same-style set)", reqs)
    by_class = {}
    for c, (req, impl, model) in zip(cases, res):
        ctx.case(req)
        status, got = out_line(impl)
        if status != "ok":
            report(ctx, c, req, impl, model, "VIOLATION", "plan or apply failed on a one-line file")
            return
        cls = classify(c, got)
        key = ("enabled" if c["style"] in enabled(c["opts"]) else "disabled") + ":" + (cls or "ok")
        ctx.count(key)
        if cls is None:
            continue
        by_class.setdefault(cls, []).append((c, req, impl, model))
    ctx.sample({"case": {k: cases[7][k] for k in ("line", "search", "replace", "opts")}, "impl": describe_out(res[7][1])})
    for cls, items in sorted(by_class.items()):
        c, req, impl, model = items[0]
        if cls == "VIOLATION" or not ctx.known(cls):
            note = ("occurrence in an enabled style not rewritten in that style / disabled style touched"
                    if cls == "VIOLATION" else f"defect class {cls} is not listed in KNOWN_FINDINGS.txt")
            report(ctx, c, req, impl, model, cls, note + f" ({len(items)} cases)")
            return
        ctx.sample({"finding": cls, "cases": len(items), "first": {k: c[k] for k in ("line", "search", "replace", "opts")},
                    "observed": out_line(impl)[1]})

    # ---- the two terms TYPED in independently chosen styles (all 14 x 14 in thorough; quick: every pair inside one separator
    #      family + a seed-chosen third of the others), every occurrence style incl. the one spelled exactly as typed --------
    FAMILIES = [["snake", "screaming_snake"], ["kebab", "train", "screaming_train"], ["camel", "pascal"],
                ["title", "sentence", "lower_sentence", "upper_sentence"]]
    same_family = {(a, b) for fam in FAMILIES for a in fam for b in fam}
    tcases, treqs = [], []
    tp_terms = [(["alpha", "gamma"], ["tiger", "lemon"]), (["widget", "nova", "delta"], ["qux", "gadget"])]
    k = 0
    for ti, (S, R) in enumerate(tp_terms if ctx.thorough else tp_terms[:1]):
        for sst in gen.STYLES:
            for rst in gen.STYLES:
                if sst in ("lower_flat", "upper_flat"):
                    continue          # a search term typed without word boundaries is a one-word term (ambiguity family)
                if not ctx.thorough and (sst, rst) not in same_family and rng.random() > 0.34:
                    continue
                for opts in ("default", "o=" + sst, "x=" + ("kebab" if sst != "kebab" else "snake")):
                    for st in gen.V12:
                        d1, d2 = DELIMS[k % len(DELIMS)]
                        k += 1
                        c = mkcase(S, R, sst, rst, opts, st, d1, d2)
                        tcases.append(c)
                        treqs.append(mkreq(forms, c["line"], c["search"], c["replace"], opts, cli=True))
                        if st == sst:   # the occurrence spelled as typed: also through the core-API table
                            tcases.append(c)
                            treqs.append(mkreq(forms, c["line"], c["search"], c["replace"], opts, cli=False))
    for c, (req, impl, model) in zip(tcases, correspond(ctx, "rewriteline (typed style pairs)", treqs)):
        ctx.case(req)
        status, got = out_line(impl)
        cls = classify(c, got)
        typed = c["line"] == c["d1"] + c["search"] + c["d2"] + "\n"
        ctx.count("typed-pairs:" + ("as-typed:" if typed else "") + (cls or "ok"))
        if status != "ok" or cls is not None:
            fam = "same separator family" if (c["search_style"], c["replace_style"]) in same_family else "different families"
            report(ctx, c, req, impl, model, "VIOLATION",
                   f"search typed in {c['search_style']}, replacement typed in {c['replace_style']} ({fam}); occurrence in "
                   f"{c['style']}" + (" = the search term exactly as typed" if typed else "")
                   + ": not rewritten in its own style")
            return

    # ---- related words: an earlier word of the term is a proper prefix of a later one (`log_login`, `file_filename`), the
    #      other way round, a word repeated (`tool_tool`), the replacement containing a search word — the per-file pre-screen
    #      (word groups, Aho-Corasick leftmost-first) and the alternation see these differently from unrelated words -------
    REL = [(["log", "login"], ["baz", "qux"]), (["login", "log"], ["nova"]), (["file", "filename"], ["lemon", "tiger"]),
           (["user", "username", "user"], ["widget", "gadget"]), (["tool", "tool"], ["gamma", "delta"]),
           (["test", "testing"], ["test", "bar"]), (["foo", "bar"], ["foo", "foobar"]), (["ab", "abc"], ["qux", "alpha"])]
    rcases, rreqs = [], []
    k = 0
    for S, R in (REL if ctx.thorough else REL[:2] + rng.sample(REL[2:], 3)):
        for sst, rst in (("snake", "snake"), ("camel", "kebab"), ("title", "pascal")):
            for opts in ("default", "i=title,sentence,lower_sentence,upper_sentence,dot"):
                for st in gen.V12:
                    d1, d2 = DELIMS[k % len(DELIMS)]
                    k += 1
                    c = mkcase(S, R, sst, rst, opts, st, d1, d2)
                    rcases.append(c)
                    rreqs.append(mkreq(forms, c["line"], c["search"], c["replace"], opts))
    for c, (req, impl, model) in zip(rcases, correspond(ctx, "rewriteline (related words)", rreqs)):
        ctx.case(req)
        status, got = out_line(impl)
        cls = classify(c, got)
        ctx.count("related-words:" + (cls or "ok"))
        if status != "ok" or (cls is not None and (cls == "VIOLATION" or not ctx.known(cls))):
            report(ctx, c, req, impl, model, "VIOLATION",
                   "term with related words (prefix of one another / repeated): occurrence in " + c["style"]
                   + " not rewritten in its own style")
            return

    # ---- plural variants off, other contexts: a sample of the same oracle -----------------------------------------
    cases2, reqs2 = [], []
    for _ in range(1500 if ctx.thorough else 300):
        S, R = gen.pick_terms(rng, 2, 3)
        sst, rst = rng.choice(gen.V12), rng.choice(gen.STYLES)
        opts = rng.choice(opt_sets)
        d1, d2 = rng.choice(DELIMS)
        c = mkcase(S, R, sst, rst, opts, rng.choice(gen.V12), d1, d2)
        cases2.append(c)
        reqs2.append(mkreq(forms, c["line"], c["search"], c["replace"], opts, plurals=rng.random() < 0.5,
                           cli=rng.random() < 0.5))
    for c, (req, impl, model) in zip(cases2, correspond(ctx, "rewriteline (random terms, plural variants on/off, CLI / core-API variant table)", reqs2)):
        ctx.case(req)
        cls = classify(c, out_line(impl)[1])
        ctx.count("random:" + (cls or "ok"))
        if cls is not None and (cls == "VIOLATION" or not ctx.known(cls)):
            report(ctx, c, req, impl, model, cls, "random-term case fails")
            return

    # ---- ambiguity clause: flat occurrences of multi-word terms, single-word search terms ---------------------------
    cases3, reqs3 = [], []
    amb_sets = ["default", "i=dot,lower_flat,upper_flat", "o=lower_flat", "o=upper_flat", "o=lower_flat,upper_flat,snake",
                "i=lower_flat", "i=upper_flat", "o=pascal,title", "o=camel,snake,kebab", "x=snake", "x=pascal",
                "o=screaming_snake,upper_sentence", "i=title,sentence,lower_sentence,upper_sentence"]
    for (S, R, sst, rst) in (COMBOS if ctx.thorough else COMBOS[:5]):
        for opts in amb_sets:
            for st in ("lower_flat", "upper_flat"):
                for d1, d2 in DELIMS:
                    cases3.append(mkcase(S, R, sst, rst, opts, st, d1, d2))
        # single-word search term: its renderings coincide across styles (foo / Foo / FOO)
        S1 = S[:1]
        for sst1 in ("snake", "pascal", "screaming_snake"):
            for opts in amb_sets:
                for st in ("snake", "pascal", "screaming_snake"):
                    for d1, d2 in DELIMS[:6]:
                        cases3.append(mkcase(S1, R, sst1, rst, opts, st, d1, d2))
    for c in cases3:
        reqs3.append(mkreq(forms, c["line"], c["search"], c["replace"], c["opts"]))
    for c, (req, impl, model) in zip(cases3, correspond(ctx, "rewriteline (ambiguous occurrences)", reqs3)):
        ctx.case(req)
        status, got = out_line(impl)
        ok3, why = ambiguity_ok(c, got)
        ctx.count("ambiguous:" + why)
        if status != "ok" or not ok3:
            ctx.violation("input", {**c, "request": req}, expected="first-letter case and all-caps-ness preserved",
                          observed=describe_out(impl), model_prediction=describe_out(model),
                          note="ambiguity clause: " + why)
            return

    # ---- ambiguity clause in context-heavy files (language heuristics, file-context heuristic) ------------------------
    if not run_context_family(ctx):
        return

    # ---- the resolver WITH its context heuristics, model against code (Model/Resolver.lean, checks/c06_resolver.py) ----
    if not c06_resolver.run_family(ctx, sys.modules[__name__]):
        return

    # ---- filterCompatible / resolver on hostile texts (ties the tables the theorems of clause 3 are about) ----------
    atoms = ["foo", "Bar", "BAZ", "x", "A", "API", "api", "Api", "URL", "Id", "ID", "2", "42", "_", "-", ".", " ", "Qux", "qUX",
             "HTTPS", "k8s", "s3", "OAuth", "e", "I"]   # ASCII only: the model covers ASCII exactly
    treqs = []
    for _ in range(1500 if ctx.thorough else 500):
        t = "".join(rng.choice(atoms) for _ in range(rng.randint(1, 4)))
        treqs.append(f"filtercompat {hexs(t)} all")
        treqs.append(f"resolve {hexs(t)} {hexs(gen.render(rng.choice(gen.STYLES), gen.pick_terms(rng)[1]))}")
    for S, R, sst, rst in COMBOS:
        for st in gen.STYLES:
            treqs.append(f"filtercompat {hexs(gen.render(st, S))} all")
            treqs.append(f"resolve {hexs(gen.render(st, S))} {hexs(gen.render(rst, R))}")
    tres = correspond(ctx, "filter_compatible_styles / resolve_with_styles vs filterCompatible / resolve", treqs)
    for (req, impl, model) in tres:
        ctx.case(req)
    # resolver contract: the chosen style is compatible with the matched text whenever anything is
    for k in range(0, len(tres), 2):
        comp = tres[k][1].split()[1]
        chosen = tres[k + 1][1].split()[1]
        if comp != "-" and len(comp.split(",")) > 1 and chosen not in comp.split(","):
            ctx.violation("input", {"op": "resolve", "request": tres[k + 1][0], "text": describe(tres[k][0])},
                          expected={"member of": comp}, observed=chosen, model_prediction=tres[k + 1][2],
                          note="the resolver chose a style that is not compatible with the ambiguous text")
            return
    ctx.count("filtercompat/resolve", len(treqs))

    # ---- the compound pass contributes nothing on a token-for-token equal identifier (hypothesis of disabled_untouched)
    kreqs = []
    for S, R, sst, rst in COMBOS:
        for st in gen.V12:
            for styles in ("snake", "camel,pascal", ALL_DEFAULT, "dot,title"):
                kreqs.append(f"compoundfirst {hexs(gen.render(st, S))} {hexs(gen.render(sst, S))} {hexs(gen.render(rst, R))} {styles}")
    for req, out in zip(kreqs, run_parallel(common.HARNESS_BIN, kreqs)):
        ctx.case(req)
        if out.split()[1] != "0":
            ctx.violation("input", {"op": "compoundfirst", **describe(req)}, expected="k 0 -", observed=out,
                          note="find_compound_variants fires on an identifier that is the search term itself")
            return
    ctx.count("compound-skip", len(kreqs))

    # ---- the CLI `rename` path (operations/rename.rs has its own copy of build_styles_list) -------------------------
    cli_cases = [mkcase(["foo", "bar"], ["baz", "qux"], "snake", "snake", o, st, d1, d2) for o, st, d1, d2 in
                 [("default", "sentence", '"', '"'), ("default", "train", "", ""), ("o=kebab", "kebab", "(", ")"),
                  ("o=kebab", "snake", "", ""), ("x=camel", "camel", " ", " "), ("x=camel", "pascal", "::", "::"),
                  ("i=dot", "dot", "/", "/"), ("default", "dot", "", ""), ("x=" + ALL_DEFAULT, "snake", "", ""),
                  ("i=title,sentence,lower_sentence,upper_sentence", "lower_sentence", "see ", " now")]]
    if ctx.thorough:
        cli_cases += [mkcase(S, R, sst, rst, rng.choice(opt_sets), rng.choice(gen.V12), *rng.choice(DELIMS))
                      for S, R, sst, rst in COMBOS for _ in range(3)]
    creqs = [mkreq(forms, c["line"], c["search"], c["replace"], c["opts"]) for c in cli_cases]
    cimpl = common.run_impl(creqs)

    def one(c):
        return cli_rename([c["search"], c["replace"]] + cli_flags(c["opts"]), c["line"])
    with concurrent.futures.ThreadPoolExecutor(NWORKERS) as ex:
        cli_out = list(ex.map(one, cli_cases))
    for c, req, impl, (rc, got, tail) in zip(cli_cases, creqs, cimpl, cli_out):
        ctx.case(("cli", req))
        ctx.count("cli")
        if got != out_line(impl)[1]:
            cls = classify(c, got)
            if cls is None:
                ctx.notes.append(f"CLI rename and plan_operation+apply_plan differ on {c['line']!r} {c['opts']} but the CLI result satisfies the property")
                continue
            ctx.violation("input", {**c, "argv": ["rename", c["search"], c["replace"]] + cli_flags(c["opts"]) + ["-y"]},
                          expected=expected_line(c), observed={"file": got, "rc": rc, "output": tail},
                          model_prediction=describe_out(impl), note="`renamify rename` differs from plan+apply and fails the oracle")
            return
        cls = classify(c, got)
        if cls is not None and (cls == "VIOLATION" or not ctx.known(cls)):
            report(ctx, c, req, impl, "", cls, "CLI case fails")
            return


def replay(ctx, path):
    obj = json.load(open(path))
    case = obj["case"]
    if isinstance(case, list) or "line" not in case:
        print(json.dumps(obj, indent=1)[:4000])
        return
    ok, msg = common.cargo_build()
    if not ok:
        ctx.broke("build", "cargo", msg)
        return
    req0 = case.get("request", "")
    if case.get("family") == "resolver":
        common.lean_build([])
        import sys
        c06_resolver.replay_case(ctx, sys.modules[__name__], case)
        return
    if req0.startswith("rewritefile "):
        out = common.run_impl([req0])[0]
        status, new, hunks = parse_file_out(out)
        bad = [(l, c, a, b, keeps_case(a, b)) for l, c, a, b in hunks if keeps_case(a, b)]
        print(json.dumps({"file": case.get("name"), "opts": case.get("opts"), "status": status,
                          "hunks": hunks, "failing": bad}, indent=1)[:3000])
        if status != "ok" or bad:
            ctx.violation("input", case, expected="first-letter case and all-caps-ness of every occurrence preserved",
                          observed={"status": status, "failing_hunks": bad}, note="replayed context-heavy file fails")
        else:
            print("property holds on this case")
        return
    if req0.startswith("resolvectx "):
        chosen = common.run_impl([req0])[0].split()[1]
        comp = common.run_impl([f"filtercompat {hexs(case['matched'])} all"])[0].split()[1]
        print(json.dumps({"chosen": chosen, "compatible": comp}))
        if comp != "-" and len(comp.split(",")) > 1 and chosen not in comp.split(","):
            ctx.violation("input", case, expected={"member of": comp}, observed=chosen, note="replayed resolver context fails")
        else:
            print("property holds on this case")
        return
    common.lean_build([])
    if case.get("family") == "busy":
        import sys
        c06_lines.replay_case(ctx, sys.modules[__name__], case)
        return
    forms = Forms()
    req = mkreq(forms, case["line"], case["search"], case["replace"], case["opts"])
    impl = common.run_impl([req])[0]
    model = common.run_model([req])[0]
    print(json.dumps({"request": describe(req), "impl": describe_out(impl), "model": describe_out(model)}, indent=1))
    _, got = out_line(impl)
    if "style" in case and case["style"] in gen.V12:
        cls = classify(case, got)
    else:
        cls = None if ambiguity_ok(case, got)[0] else "VIOLATION"
    if cls is None:
        print("property holds on this case")
    elif cls != "VIOLATION" and ctx.known(cls):
        pass
    else:
        report(ctx, case, req, impl, model, cls, "replayed case fails")
