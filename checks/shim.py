"""Run the renamify CLI under shim/fsshim.c (LD_PRELOAD): trace, fault injection, fake clock, scheduler.

    from checks import shim
    r = shim.trace(["rename", "foo_bar", "baz_qux", "-y"], cwd)        # log only
    r = shim.fault(args, cwd, k=12, mode="fail", errno="EIO")          # also kill_before/kill_after/kill_mid/signal/pause
    r = shim.run_with_clock(args, cwd, 1_700_000_000)
    shim.abstract(r.events)                                            # trace abstraction for model correspondence
    with shim.Scheduler(root, {"A": (argsA, None), "B": (argsB, None)}) as s: ...

The watched root (FSSHIM_ROOT) is always `cwd`; HOME is set to `cwd` like `common.cli` does.  Every helper
creates its temporary files (event log, scheduler directory) with tempfile.mkdtemp *outside* the root and
removes them before returning.

Log line format written by the shim (see the header of shim/fsshim.c):
    <seq|-> <pid> <op> <path> [<path2>] [k=v ...] [inj=<mode>] => <ret | ERRNONAME | KILLED>
`seq` is the per-process 0-based index of the mutating call; "-" (-> None) for calls that are not counted
(fsync unless count_sync, the read-type ops exists/openr/read/kill0, diagnostics).
"""
import os
import re
import shutil
import subprocess
import tempfile
import time

from . import common

MUTATING_OPS = ("openw", "write", "rename", "unlink", "rmdir", "mkdir", "chmod", "symlink", "link", "truncate")
READ_OPS = ("exists", "openr", "read", "kill0", "flock", "funlock")
TWO_PATH_OPS = ("rename", "link")
ONLY_EXE = "renamify"
TIMEOUT_RC = -999


# ------------------------------------------------------------------------------------------------
# events

class Event:
    """One line of the shim log."""
    __slots__ = ("seq", "pid", "op", "path", "path2", "detail", "result", "raw")

    def __init__(self, seq, pid, op, path, path2, detail, result, raw=""):
        self.seq, self.pid, self.op, self.path, self.path2 = seq, pid, op, path, path2
        self.detail, self.result, self.raw = detail, result, raw

    @property
    def ok(self):
        """the call returned a non-negative value (not an errno name, not KILLED)"""
        return bool(re.fullmatch(r"\d+", self.result))

    @property
    def injected(self):
        return self.detail.get("inj")

    def __repr__(self):
        p2 = f" {self.path2}" if self.path2 is not None else ""
        d = "".join(f" {k}={v}" for k, v in self.detail.items())
        return f"<{'-' if self.seq is None else self.seq} {self.pid} {self.op} {self.path}{p2}{d} => {self.result}>"


def _unescape(tok):
    """undo the shim's %XX escaping ('%00' stands for an empty string)"""
    if "%" not in tok:
        return tok
    return re.sub(r"%([0-9A-F]{2})", lambda m: chr(int(m.group(1), 16)), tok).replace("\x00", "")


def parse_line(line):
    """Parse one log / .req / .done line (the result part is optional). Returns Event or None."""
    line = line.rstrip("\n")
    if not line or line == "TIMEOUT":
        return None
    head, sep, result = line.partition(" => ")
    toks = head.split(" ")
    if len(toks) < 4:
        return None
    seq = None if toks[0] == "-" else int(toks[0])
    pid, op = int(toks[1]), toks[2]
    path = _unescape(toks[3])
    i = 4
    path2 = None
    if op in TWO_PATH_OPS and len(toks) > 4:
        path2 = _unescape(toks[4])
        i = 5
    detail = {}
    for t in toks[i:]:
        k, eq, v = t.partition("=")
        if eq:
            detail[k] = _unescape(v) if k == "target" else v
    return Event(seq, pid, op, path, path2, detail, result.strip() if sep else "", line)


def parse_log(text):
    out = []
    for line in text.splitlines():
        ev = parse_line(line)
        if ev is not None:
            out.append(ev)
    return out


class Run:
    """Result of one CLI process under the shim.  rc < 0 = killed by that signal (as subprocess)."""

    def __init__(self, rc, stdout, stderr, events, pid=None, all_events=None):
        self.rc, self.stdout, self.stderr = rc, stdout, stderr
        self.events = events                  # events of the CLI process itself
        self.pid = pid
        self.all_events = all_events if all_events is not None else events   # incl. instrumented children

    @property
    def mutating(self):
        return [e for e in self.events if e.seq is not None]

    def __repr__(self):
        return f"<Run rc={self.rc} events={len(self.events)}>"


# ------------------------------------------------------------------------------------------------
# running

def _base_env(cwd, env, logfile, only_exe=ONLY_EXE):
    common.build_shim()
    if not os.path.exists(common.SHIM_SO):
        raise RuntimeError("fsshim.so missing (shim/fsshim.c not built)")
    e = dict(common.BASE_ENV)
    for k in list(e):
        if k.startswith("FSSHIM_"):
            del e[k]
    root = os.path.realpath(cwd)
    e["HOME"] = cwd
    e["XDG_CONFIG_HOME"] = os.path.join(cwd, ".xdg-none")
    e["LD_PRELOAD"] = common.SHIM_SO
    e["FSSHIM_ROOT"] = root
    if logfile:
        e["FSSHIM_LOG"] = logfile
    if only_exe:
        e["FSSHIM_ONLY_EXE"] = only_exe
    if env:
        e.update(env)
    return e


def run(args, cwd, env=None, shim_env=None, timeout=120, stdin=None, binary=None):
    """Run `renamify args` in cwd under the shim with extra FSSHIM_* settings; returns Run."""
    tmp = tempfile.mkdtemp(prefix="fsshim-log.")
    try:
        logfile = os.path.join(tmp, "events.log")
        e = _base_env(cwd, env, logfile)
        if shim_env:
            e.update({k: str(v) for k, v in shim_env.items()})
        p = subprocess.Popen([binary or common.CLI_BIN] + list(args), cwd=cwd, env=e, stdout=subprocess.PIPE,
                             stderr=subprocess.PIPE,
                             stdin=subprocess.PIPE if stdin is not None else subprocess.DEVNULL)
        try:
            out, err = p.communicate(stdin, timeout=timeout)
            rc = p.returncode
        except subprocess.TimeoutExpired:
            p.kill()
            out, err = p.communicate()
            rc, err = TIMEOUT_RC, err + b"\n[timeout]"
        text = ""
        if os.path.exists(logfile):
            with open(logfile, errors="replace") as fh:
                text = fh.read()
        evs = parse_log(text)
        return Run(rc, out, err, [x for x in evs if x.pid == p.pid], p.pid, evs)
    finally:
        shutil.rmtree(tmp, ignore_errors=True)


def trace(args, cwd, env=None, count_sync=False, reads=False, timeout=120, stdin=None):
    """Log only."""
    se = {"FSSHIM_COUNT_SYNC": "1" if count_sync else "0"}
    if reads:
        se["FSSHIM_LOG_READS"] = "1"
    return run(args, cwd, env=env, shim_env=se, timeout=timeout, stdin=stdin)


def fault(args, cwd, k, mode, errno=None, signal=None, repeat=1, env=None, count_sync=False, timeout=120,
          pause_flag=None, resume_flag=None, stdin=None):
    """Inject `mode` (fail | kill_before | kill_after | kill_mid | signal | pause) at mutating event k."""
    if mode not in ("fail", "kill_before", "kill_after", "kill_mid", "signal", "pause", "none"):
        raise ValueError(mode)
    se = {"FSSHIM_AT": k, "FSSHIM_MODE": mode, "FSSHIM_COUNT_SYNC": "1" if count_sync else "0"}
    if mode == "fail":
        se["FSSHIM_ERRNO"] = errno if errno is not None else "EIO"
    if mode == "signal":
        se["FSSHIM_SIGNAL"] = signal or "INT"
        se["FSSHIM_REPEAT"] = repeat
    if mode == "pause":
        se["FSSHIM_PAUSE_FLAG"] = pause_flag
        se["FSSHIM_RESUME_FLAG"] = resume_flag
    return run(args, cwd, env=env, shim_env=se, timeout=timeout, stdin=stdin)


def run_with_clock(args, cwd, unix_time, env=None, time_file=None, timeout=120, stdin=None):
    """Serve `unix_time` as CLOCK_REALTIME (or the content of time_file, re-read at every call)."""
    se = {"FSSHIM_TIME": int(unix_time)}
    if time_file:
        se["FSSHIM_TIME_FILE"] = time_file
    return run(args, cwd, env=env, shim_env=se, timeout=timeout, stdin=stdin)


class Paused:
    """Run a command until just before its mutating event k, let the caller act, then resume:

        with shim.Paused(args, cwd, k) as p:      # returns once the process sits before event k (p.reached)
            ... run other commands ...
        p.run  -> Run of the paused process (after the with block)
    """

    def __init__(self, args, cwd, k, env=None, timeout=60):
        self.args, self.cwd, self.k, self.env, self.timeout = list(args), cwd, k, env, timeout
        self.run = None
        self.reached = False

    def __enter__(self):
        self.tmp = tempfile.mkdtemp(prefix="fsshim-pause.")
        self.logfile = os.path.join(self.tmp, "events.log")
        self.pflag, self.rflag = os.path.join(self.tmp, "paused"), os.path.join(self.tmp, "resume")
        e = _base_env(self.cwd, self.env, self.logfile)
        e.update({"FSSHIM_AT": str(self.k), "FSSHIM_MODE": "pause", "FSSHIM_PAUSE_FLAG": self.pflag,
                  "FSSHIM_RESUME_FLAG": self.rflag, "FSSHIM_SCHED_TIMEOUT_MS": str(int(self.timeout * 1000))})
        self.out = open(os.path.join(self.tmp, "stdout"), "w+b")
        self.err = open(os.path.join(self.tmp, "stderr"), "w+b")
        self.p = subprocess.Popen([common.CLI_BIN] + self.args, cwd=self.cwd, env=e, stdout=self.out,
                                  stderr=self.err, stdin=subprocess.DEVNULL)
        t0 = time.time()
        while time.time() - t0 < self.timeout:
            if os.path.exists(self.pflag):
                self.reached = True
                break
            if self.p.poll() is not None:
                break
            time.sleep(0.002)
        return self

    def __exit__(self, *exc):
        try:
            with open(self.rflag, "w"):
                pass
            try:
                rc = self.p.wait(timeout=self.timeout)
            except subprocess.TimeoutExpired:
                self.p.kill()
                self.p.wait()
                rc = TIMEOUT_RC
            self.out.seek(0)
            self.err.seek(0)
            text = open(self.logfile, errors="replace").read() if os.path.exists(self.logfile) else ""
            evs = parse_log(text)
            self.run = Run(rc, self.out.read(), self.err.read(), [x for x in evs if x.pid == self.p.pid],
                           self.p.pid, evs)
        finally:
            self.out.close()
            self.err.close()
            shutil.rmtree(self.tmp, ignore_errors=True)
        return False


# ------------------------------------------------------------------------------------------------
# trace abstraction

_RE_TMP = re.compile(r"\.\d+\.renamify\.tmp$")
_RE_TEMPFILE = re.compile(r"(^|/)\.tmp[A-Za-z0-9]{6}(?=/|$)")
_RE_PATCH = re.compile(r"(reverse_patches/)[0-9a-f]{64}\.patch$")
_RE_ID = re.compile(r"(?<![0-9a-f])[0-9a-f]{16}(?![0-9a-f])")


def norm_path(p):
    """Replace run-specific parts of a root-relative path by placeholders."""
    if p is None:
        return None
    p = _RE_TMP.sub(".PID.renamify.tmp", p)
    p = _RE_TEMPFILE.sub(lambda m: m.group(1) + ".tmpRAND", p)
    p = _RE_PATCH.sub(r"\1<HASH>.patch", p)
    p = _RE_ID.sub("<ID>", p)
    return p


def is_log_path(p):
    return p == ".renamify/apply.log" or p.startswith(".renamify/logs/")


def abstract(events, logs="marker", keep_failed=False, keep_sync=False):
    """The trace abstraction used for model correspondence.

    * only mutating events (seq is not None; fsync only with keep_sync=True);
    * calls that returned an error (incl. injected failures) have no effect on the file system and are
      dropped, unless keep_failed=True (then the tuple gets a trailing 'ERR:<name>');
    * consecutive writes to one path collapse into one ('write', path);
    * '<stem>.<pid>.renamify.tmp' -> '<stem>.PID.renamify.tmp'; tempfile-crate '.tmpXXXXXX' -> '.tmpRAND';
      'reverse_patches/<sha256>.patch' -> 'reverse_patches/<HASH>.patch'; 16-hex plan ids -> '<ID>';
    * every maximal run of operations on log files ('.renamify/apply.log', '.renamify/logs/*') becomes a
      single ('log',) marker (logs='marker') or disappears (logs='drop'); logs='keep' keeps them.
    Tuples: ('openw', p) ('write', p) ('rename', a, b) ('unlink', p) ('mkdir', p) ('rmdir', p)
            ('chmod', p, mode) ('symlink', p, target) ('link', a, b) ('truncate', p, n) ('fsync', p) ('log',)
    """
    out = []
    for e in events:
        if e.op == "fsync":
            if not keep_sync:
                continue
        elif e.seq is None or e.op not in MUTATING_OPS:
            continue
        failed = not e.ok
        if failed and not keep_failed:
            continue
        if logs != "keep" and is_log_path(e.path):
            if logs == "marker" and (not out or out[-1] != ("log",)):
                out.append(("log",))
            continue
        p, p2 = norm_path(e.path), norm_path(e.path2)
        if e.op in ("rename", "link"):
            t = (e.op, p, p2)
        elif e.op == "chmod":
            t = ("chmod", p, e.detail.get("mode", ""))
        elif e.op == "symlink":
            t = ("symlink", p, e.detail.get("target", ""))
        elif e.op == "truncate":
            t = ("truncate", p, e.detail.get("n", ""))
        else:
            t = (e.op, p)
        if failed:
            t = t + ("ERR:" + e.result,)
        if t[0] == "write" and out and out[-1] == t:
            continue
        out.append(t)
    return out


# ------------------------------------------------------------------------------------------------
# scheduler

class Scheduler:
    """Deterministic interleaving of several CLI processes at the granularity of single file-system calls.

    procs: dict name -> (args, env) ; every process runs `renamify args` with cwd = root.
    With reads=True the read-type calls (exists / openr / read / kill0) are scheduling points too.

    pending() strings and step() results are shim log lines:
        pending:  "<seq|-> <pid> <op> <path> [<path2>] [k=v ...]"             (no result yet)
        done:     "<seq|-> <pid> <op> <path> [<path2>] [k=v ...] => <result>"
    e.g. "- 4242 exists .renamify/renamify.lock", "1 4242 openw .renamify/renamify.lock flags=O_WRONLY|O_CREAT|O_EXCL|O_CLOEXEC mode=666",
    "- 4242 kill0 - target=4100".  Use shim.parse_line(s) to get an Event (op, path, detail).
    All processes append to one shared log, so `global_events()` is the global order of completed calls.
    """

    def __init__(self, root, procs, reads=True, timeout=30.0, shim_timeout_ms=20000, count_sync=False):
        self.root, self.procs, self.reads, self.timeout = root, dict(procs), reads, timeout
        self.shim_timeout_ms, self.count_sync = shim_timeout_ms, count_sync
        self.dir = None
        self.p = {}
        self.files = {}
        self.exited = {}
        self.order = []            # names in the order steps were granted
        self.timeouts = []         # (name, 'pending'|'step'): Python-side waits that gave up on a LIVE process;
                                   # pending_one()/step() then return None/'' exactly as for an exited process,
                                   # so a caller that needs to tell the two apart checks this list (or alive())

    # context manager sugar
    def __enter__(self):
        self.start()
        return self

    def __exit__(self, *exc):
        self.close()
        return False

    def _f(self, name, ext):
        return os.path.join(self.dir, f"{name}.{ext}")

    def start(self):
        self.dir = tempfile.mkdtemp(prefix="fsshim-sched.")
        self.logfile = os.path.join(self.dir, "events.log")
        for name, (args, env) in self.procs.items():
            if not re.fullmatch(r"[A-Za-z0-9_-]+", name):
                raise ValueError("bad process name " + name)
            e = _base_env(self.root, env, self.logfile)
            e.update({"FSSHIM_SCHED_DIR": self.dir, "FSSHIM_PROC": name,
                      "FSSHIM_SCHED_READS": "1" if self.reads else "0",
                      "FSSHIM_SCHED_TIMEOUT_MS": str(self.shim_timeout_ms),
                      "FSSHIM_COUNT_SYNC": "1" if self.count_sync else "0"})
            out = open(self._f(name, "stdout"), "w+b")
            err = open(self._f(name, "stderr"), "w+b")
            self.files[name] = (out, err)
            self.p[name] = subprocess.Popen([common.CLI_BIN] + list(args), cwd=self.root, env=e, stdout=out,
                                            stderr=err, stdin=subprocess.DEVNULL)

    def alive(self, name):
        return self.p[name].poll() is None and not os.path.exists(self._f(name, "exit"))

    def _read_req(self, name):
        try:
            with open(self._f(name, "req"), errors="replace") as fh:
                s = fh.read()
        except FileNotFoundError:
            return None
        return s.strip("\n") if s.endswith("\n") else None

    def pending_one(self, name, timeout=None):
        """Pending request line of one process; None once it has exited (or was released / timed out)."""
        t0 = time.time()
        timeout = self.timeout if timeout is None else timeout
        while True:
            r = self._read_req(name)
            if r is not None:
                return r
            # a process blocked on a request cannot exit, and a granted request is deleted before the call
            # is performed, so "no request and gone" is final
            if not self.alive(name) and self._read_req(name) is None:
                return None
            if time.time() - t0 > timeout:
                self.timeouts.append((name, "pending"))
                return None
            time.sleep(0.0003)

    def pending(self):
        return {name: self.pending_one(name) for name in self.p}

    def _done_lines(self, name):
        try:
            with open(self._f(name, "done"), errors="replace") as fh:
                return fh.read().splitlines()
        except FileNotFoundError:
            return []

    def step(self, name):
        """Grant one step to `name`, wait until the call is done (or the process is gone); returns the done
        line ('' if the process exited or was killed instead, e.g. by an injected kill)."""
        if self.pending_one(name) is None:
            return ""
        n0 = len(self._done_lines(name))
        with open(self._f(name, "go.tmp"), "w"):
            pass
        os.rename(self._f(name, "go.tmp"), self._f(name, "go"))
        self.order.append(name)
        t0 = time.time()
        while True:
            lines = self._done_lines(name)
            if len(lines) > n0:
                return lines[n0]
            if self.p[name].poll() is not None:
                lines = self._done_lines(name)
                return lines[n0] if len(lines) > n0 else ""
            if time.time() - t0 > self.timeout:
                self.timeouts.append((name, "step"))
                return ""
            time.sleep(0.0003)

    def free(self, names=None):
        """Release processes from the scheduler: they run to completion unsynchronised."""
        for name in (names or self.p):
            with open(self._f(name, "free"), "w"):
                pass

    def wait(self, names=None, timeout=None):
        """Wait for processes to exit; returns dict name -> Run (rc None if still running)."""
        timeout = self.timeout if timeout is None else timeout
        res = {}
        for name in (names or self.p):
            try:
                self.p[name].wait(timeout=timeout)
            except subprocess.TimeoutExpired:
                pass
        evs = self.global_events()
        for name in (names or self.p):
            res[name] = self._result(name, evs)
        return res

    def _result(self, name, evs=None):
        evs = self.global_events() if evs is None else evs
        p = self.p[name]
        out, err = self.files[name]
        out.flush()
        err.flush()
        o = open(out.name, "rb").read()
        x = open(err.name, "rb").read()
        return Run(p.poll(), o, x, [v for v in evs if v.pid == p.pid], p.pid, evs)

    def global_events(self):
        """All events of all processes in completion order (= the forced global order while scheduled)."""
        try:
            with open(self.logfile, errors="replace") as fh:
                return parse_log(fh.read())
        except FileNotFoundError:
            return []

    def name_of_pid(self, pid):
        for name, p in self.p.items():
            if p.pid == pid:
                return name
        return None

    def run_schedule(self, schedule, then_free=True):
        """Grant steps in the given order (names of exited processes are skipped), then (then_free) release
        everybody and wait.  Returns dict name -> Run; self.done_lines holds the (name, done line) pairs."""
        self.done_lines = []
        for name in schedule:
            if self.pending_one(name) is None:
                self.done_lines.append((name, None))
                continue
            self.done_lines.append((name, self.step(name)))
        if then_free:
            self.free()
            return self.wait()
        evs = self.global_events()
        return {name: self._result(name, evs) for name in self.p}

    def close(self):
        for p in self.p.values():
            if p.poll() is None:
                p.kill()
            try:
                p.wait(timeout=5)
            except subprocess.TimeoutExpired:
                pass
        for out, err in self.files.values():
            out.close()
            err.close()
        self.files = {}
        if self.dir:
            shutil.rmtree(self.dir, ignore_errors=True)
            self.dir = None
