"""Independent oracles for C03 and C15 (no Lean model, no knowledge of the Rust code):

check_plan      every field of every hunk of a plan JSON against the file bytes on disk, ordering / disjointness /
                character boundaries per file, and the summary counts
parse_diff      the uncoloured unified diff printed by `render_plan(Preview::Diff)`
check_preview   the diff blocks and the plan's line_after against the files before and after a real apply
"""
import os


def lossy(b):
    return b.decode("utf-8", "replace")


def is_valid_utf8(b):
    try:
        b.decode("utf-8")
        return True
    except UnicodeDecodeError:
        return False


def resolve(cwd, f):
    return f if os.path.isabs(f) else os.path.normpath(os.path.join(cwd, f))


def line_span(data, pos):
    """(line number 1-based, start offset of the line, line bytes incl. terminator) of the line containing `pos`"""
    ls = data.rfind(b"\n", 0, pos) + 1
    nl = data.find(b"\n", pos)
    le = len(data) if nl < 0 else nl + 1
    return data[:pos].count(b"\n") + 1, ls, data[ls:le]


def strip_term(s):
    if s.endswith("\r\n"):
        return s[:-2]
    if s.endswith("\n"):
        return s[:-1]
    return s


def check_plan(plan, cwd, files=None, alt_root=None):
    """Returns a list of problems: dicts {clause, hunk index, detail}. `files`: optional dict abs path -> bytes
    (snapshot taken before planning); otherwise read from disk. `alt_root`: where to look for a file that does
    not exist relative to cwd (only to be able to go on checking; the miss itself is reported as clause `file`)."""
    probs = []
    per_file = {}
    cache = {}

    def read(path):
        if path not in cache:
            if files is not None:
                cache[path] = files.get(path)
            else:
                try:
                    cache[path] = open(path, "rb").read() if os.path.isfile(path) else None
                except OSError:
                    cache[path] = None
        return cache[path]

    for i, m in enumerate(plan["matches"]):
        path = resolve(cwd, m["file"])
        data = read(path)
        if data is None:
            probs.append({"clause": "file", "hunk": i, "detail": f"plan names {m['file']!r}, no such file relative to the working directory"})
            if alt_root is not None:
                path = resolve(alt_root, m["file"])
                data = read(path)
            if data is None:
                continue
        per_file.setdefault(path, []).append((i, m))
        s, e = m["start"], m["end"]
        text = m["content"].encode()
        if not (0 <= s <= e <= len(data)) or data[s:e] != text:
            ln0 = data[:max(0, min(s, len(data)))].count(b"\n") + 1
            l0 = data.rfind(b"\n", 0, max(0, min(s, len(data)))) + 1
            l1 = data.find(b"\n", l0)
            probs.append({"clause": "text", "hunk": i,
                          "detail": f"{m['file']}: recorded {m['content']!r} at {s}..{e}, file has {lossy(data[s:e])!r} "
                                    f"(line {ln0}: {lossy(data[l0:(len(data) if l1 < 0 else l1)])[:300]!r})"})
            # the remaining geometric fields are judged relative to where the text really is, if the
            # planner's own (line, byte_offset) identify it
            continue
        if is_valid_utf8(data):
            for off in (s, e):
                if off < len(data) and 0x80 <= data[off] < 0xC0:
                    probs.append({"clause": "boundary", "hunk": i, "detail": f"offset {off} is inside a character"})
        ln, ls, line = line_span(data, s)
        if m["line"] != ln:
            probs.append({"clause": "line", "hunk": i, "detail": f"line {m['line']} recorded, match is on line {ln}"})
        if m["byte_offset"] != s - ls:
            probs.append({"clause": "column", "hunk": i, "detail": f"byte_offset {m['byte_offset']} recorded, is {s - ls}"})
        want_char = len(lossy(line[: s - ls]))
        if m["char_offset"] != want_char:
            probs.append({"clause": "char_offset", "hunk": i, "detail": f"char_offset {m['char_offset']} recorded, is {want_char}"})
        lb = m.get("line_before")
        if lb is not None:
            full = lossy(line)
            if lb != full and lb != strip_term(full):
                probs.append({"clause": "line_before", "hunk": i, "detail": f"line_before {lb!r}, file line is {full!r}"})
            else:
                la = m.get("line_after")
                if la is not None and b"\n" not in text:
                    lbb = lb.encode()
                    col = len(lossy(line[: s - ls]).encode())      # where the match stands in the DECODED line
                    want = lbb[:col] + m.get("replace", "").encode() + lbb[col + len(text):]
                    if la.encode() != want:
                        probs.append({"clause": "line_after", "hunk": i,
                                      "detail": f"line_after {la!r}, line with this match replaced is {lossy(want)!r}"})
    for path, hs in per_file.items():
        prev_end, seen = 0, set()
        for i, m in hs:
            key = (m["start"], m["end"])
            if m["start"] < prev_end or key in seen:
                kind = "duplicate" if key in seen else "overlap"
                probs.append({"clause": kind, "hunk": i,
                              "detail": f"{os.path.basename(path)}: hunk {m['start']}..{m['end']} after one ending at {prev_end}"})
            seen.add(key)
            prev_end = max(prev_end, m["end"])
    st = plan.get("stats", {})
    n = len(plan["matches"])
    if st.get("total_matches") != n:
        probs.append({"clause": "stats", "hunk": None, "detail": f"total_matches {st.get('total_matches')} != {n} listed"})
    byv = st.get("matches_by_variant", {})
    if sum(byv.values()) != n:
        probs.append({"clause": "stats", "hunk": None, "detail": f"matches_by_variant sums to {sum(byv.values())}, {n} listed"})
    listed = {}
    for m in plan["matches"]:
        listed[m["variant"]] = listed.get(m["variant"], 0) + 1
    if plan.get("styles") != [] and byv != listed:     # the literal planner files everything under the pattern
        probs.append({"clause": "stats", "hunk": None, "detail": f"matches_by_variant {byv} != listed {listed}"})
    nfiles = len({resolve(cwd, m["file"]) for m in plan["matches"]})
    if st.get("files_with_matches") != nfiles:
        probs.append({"clause": "stats_files", "hunk": None,
                      "detail": f"files_with_matches {st.get('files_with_matches')}, matches listed in {nfiles} file(s)"})
    if st.get("files_scanned", 0) < nfiles:
        probs.append({"clause": "stats_files", "hunk": None, "detail": f"files_scanned {st.get('files_scanned')} < {nfiles}"})
    return probs


# ------------------------------------------------------------------------------------------------------

def parse_diff(text):
    """-> list of (file, line_no, before_lines, after_lines); each a list of str without the final '\\n'.
    Grammar (render_diff): '--- p' '+++ p' then blocks '@@ line N @@', change lines with a one-character sign,
    an empty line closes a block; '=== RENAMES ===' starts the rename section."""
    blocks = []
    lines = text.split("\n")
    i, cur_file = 0, None
    while i < len(lines):
        l = lines[i]
        if l.startswith("=== RENAMES ==="):
            break
        if l.startswith("--- ") and i + 1 < len(lines) and lines[i + 1].startswith("+++ "):
            cur_file = l[4:]
            i += 2
            continue
        if l.startswith("@@ line ") and l.endswith(" @@"):
            n = int(l[8:-3])
            i += 1
            before, after = [], []
            while i < len(lines) and lines[i] != "":
                sign, body = lines[i][0], lines[i][1:]
                if sign in "- ":
                    before.append(body)
                if sign in "+ ":
                    after.append(body)
                i += 1
            blocks.append((cur_file, n, before, after))
            continue
        i += 1
    return blocks


def canon(s):
    """similar's line differ also breaks at a lone CR and the renderer trims only '\\n': after re-joining the printed
    lines with '\\n' a CR-LF pair may stand for CR-LF or for a lone CR; compare modulo that"""
    return s.replace("\r\n", "\r")


def block_text(lines_):
    return canon("\n".join(lines_))


def file_line(data, n):
    """the n-th line (1-based, split at \\n) as str without its '\\n' (lossy), or None"""
    parts = data.split(b"\n")
    if data.endswith(b"\n"):
        parts = parts[:-1]
    if 1 <= n <= len(parts):
        return lossy(parts[n - 1])
    return None


def same_line(got, want):
    """equal, or equal up to the CR of a CR-LF terminator (the literal planner quotes lines without any terminator)"""
    return got == want or (want.endswith("\r") and got == want[:-1])


def check_preview(plan, diff_text, cwd, before_files, after_files, decoded_parts=False):
    """before_files / after_files: dict abs path -> bytes (after_files None: there is no applied tree, only the
    'before' sides are judged).  Returns problems (clause in before/plus/line_after)."""
    probs = []
    out_of_scope = set()
    per_key = {}
    for m in plan["matches"]:
        per_key[(resolve(cwd, m["file"]), m["line"])] = per_key.get((resolve(cwd, m["file"]), m["line"]), 0) + 1
    for m in plan["matches"]:
        data = before_files.get(resolve(cwd, m["file"]))
        if data is not None and 0 <= m["start"] <= len(data):
            ls = data.rfind(b"\n", 0, m["start"]) + 1
            if not is_valid_utf8(data[ls:m["start"]]):
                key = (resolve(cwd, m["file"]), m["line"])
                # a planner that decodes the text before / after the match separately (decoded_parts) is in scope on such a
                # line as far as line_after goes, i.e. for single-hunk lines; render_diff's merge of several hunks still
                # applies the raw byte_offset to the decoded line
                if not decoded_parts or per_key[key] > 1:
                    out_of_scope.add(key)
    for f, n, before, after in parse_diff(diff_text):
        path = resolve(cwd, f)
        if (path, n) in out_of_scope:
            continue          # invalid UTF-8 in front of a match: the preview works on the lossily decoded line (C03 finding)
        b0 = before_files.get(path)
        b1 = after_files.get(path) if after_files is not None else b""
        if b0 is None or b1 is None:
            probs.append({"clause": "file", "detail": f"diff names {f!r}, not a file before/after apply"})
            continue
        want_b, want_a = file_line(b0, n), file_line(b1, n)
        if want_b is None or not same_line(block_text(before), canon(want_b)):
            probs.append({"clause": "before", "file": f, "line": n,
                          "detail": f"'-' side {block_text(before)!r}, file line is {want_b!r}"})
        if after_files is not None and (want_a is None or not same_line(block_text(after), canon(want_a))):
            probs.append({"clause": "plus", "file": f, "line": n,
                          "detail": f"'+' side {block_text(after)!r}, line after apply is {want_a!r}"})
    if after_files is None:
        return probs
    per_line = {}
    for m in plan["matches"]:
        per_line.setdefault((m["file"], m["line"]), []).append(m)
    for (f, n), ms in per_line.items():
        if len(ms) != 1 or ms[0].get("line_after") is None or (resolve(cwd, f), n) in out_of_scope:
            continue
        b1 = after_files.get(resolve(cwd, f))
        if b1 is None:
            continue
        want = file_line(b1, n)
        got = ms[0]["line_after"]
        got = got[:-1] if got.endswith("\n") else got
        # the literal planner quotes lines without their terminator: a CR-LF line then lacks the CR as well
        if want is None or not same_line(got, want):
            probs.append({"clause": "line_after", "file": f, "line": n,
                          "detail": f"line_after {got!r}, line after apply is {want!r}"})
    return probs
