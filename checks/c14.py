"""C14 — Planning and previewing are read-only and deterministic.

translate   translate/dryrun_gates.py -> Gen/DryRunGates.lean (per operation: the statements that write to disk and whether
            a dry run skips them; the literal `true` the Search arm passes for dry_run)
            translate/scan_shape.py -> Gen/ScanShape.lean (global sort key, stable sort, ordered collect)
prove       RModel.Props.C14 (order_independent for every permutation of the file list; stats_order_independent;
            readonly / readonly_full / C14_full_holds / plan_writes_permitted over the effect programs generated from the
            gate table; the
            repaired un-gated lock of `rename --dry-run` as a before-fix theorem)
oracle      generated trees (1..40 entries) x argument sets (plan, plan --dry-run, search, rename --dry-run,
            replace --dry-run, with style / include / exclude options) x RAYON_NUM_THREADS x repeats, every run under
            the shim:
            (a) read-only: whole-tree snapshot (incl. .renamify) before/after; every *written path* of the trace must be
                permitted for that command: the transient `.tmpXXXXXX` probe directory (created and removed inside the
                run); for a non-dry `plan` also `.renamify/`, the lock file with its temp file (created and removed) and the
                plan file;
                with auto-init enabled the one-time `.gitignore` addition (exact text), never a second time;
            (b) deterministic: plan JSON without id / created_at (maps compared as maps) equal across all thread counts
                and repeats of one (tree, arguments); `--preview table|diff|matches|summary` text equal likewise.
            (c) confusable files: groups of 2..6 files >= 4 KiB with identical length, identical first / last 2 KiB and equal
                mtime whose middles differ in dominant identifier style, plus a same-content-different-name copy,
                same-name-different-directory members and a one-byte variant: every run across the thread counts must
                equal the 1-thread run, and for every file the matches of the full plan must equal the plan of a tree
                that holds only that file.  The second oracle is sound because in this family every ambiguous hit stands
                at the start of a line: `ambiguity/cross_file_context.rs` (which legitimately looks at the other files
                of the same extension, keyed by the word before the hit) never contributes, so a hunk is a function of
                its own file, the terms and the options.  It is not applied to the general trees of (b).
            (d) several search roots: `plan S R --dry-run PATHS…` with 2..5 explicit roots (each holding directories of equal
                depth that are planned for renaming), permuted, nested, repeated and overlapping roots: the full plan
                document INCLUDING THE ORDER of `paths` must be equal across >= 6 separate processes per thread count
                (a per-process hash seed shows with one thread already).
correspond  the abstract trace of each command vs the effect list of the Lean program (`c14prog`).
"""
import concurrent.futures
import json
import os
import random
import re
import shutil

from . import common, gen, shim

LOCK = ".renamify/renamify.lock"
LOCKTMP = re.compile(r"^\.renamify/renamify\.lock\.\d+\.tmp$")
PROBE = re.compile(r"^\.tmp[A-Za-z0-9]{6}(/test_case_a)?$")
IGNORE_ADDITION = "# Renamify workspace\n.renamify/\n"
_ID = re.compile(r"(?<![0-9a-f])[0-9a-f]{16}(?![0-9a-f])")

OPTION_SETS = [[], ["--only-styles", "snake,camel"], ["--exclude-styles", "kebab"], ["--include-styles", "dot"],
               ["--include", "**/*.rs"], ["--exclude", "docs/**"], ["--exclude", "*.md"]]
REPLACE_OPTION_SETS = [[], ["--no-regex"], ["--include", "**/*.txt"], ["--exclude", "*.md"]]


def argsets(S, R, rng):
    """name -> (args, dry, op)"""
    o = lambda: list(rng.choice(OPTION_SETS))
    return [("plan", ["plan", S, R] + o(), False, "plan"),
            ("plan-dry", ["plan", S, R, "--dry-run"] + o(), True, "plan"),
            ("search", ["search", S] + o(), True, "search"),
            ("rename-dry", ["rename", S, R, "--dry-run"] + o(), True, "rename"),
            ("replace-dry", ["replace", S, R, "--dry-run"] + list(rng.choice(REPLACE_OPTION_SETS)), True, "replace")]


def canon(obj):
    """plan / result JSON without run-specific fields; dicts compare as maps"""
    if isinstance(obj, dict):
        return {k: canon(v) for k, v in obj.items() if k not in ("id", "created_at", "plan_id")}
    if isinstance(obj, list):
        return [canon(v) for v in obj]
    if isinstance(obj, str):
        return _ID.sub("<ID>", obj)
    return obj


def expected_gitignore(old):
    """do_init's documented addition"""
    c = old
    if c and not c.endswith("\n"):
        c += "\n"
    if c:
        c += "\n"
    return c + IGNORE_ADDITION


def classify_writes(events, op, dry, plan_path, autoinit_first):
    """returns the successful mutating calls of one run that are outside the permitted set"""
    bad = []
    for e in events:
        if e.seq is None or not e.ok:
            continue
        paths = [e.path] + ([e.path2] if e.path2 is not None else [])
        if all(PROBE.match(p) for p in paths) and e.op in ("mkdir", "openw", "write", "unlink", "rmdir"):
            continue
        if autoinit_first and ((e.path == ".gitignore.tmp" and e.op in ("openw", "write")) or
                               (e.op == "rename" and e.path == ".gitignore.tmp" and e.path2 == ".gitignore")):
            continue
        if not dry and op == "plan":
            if (e.path == ".renamify" and e.op == "mkdir") or (e.path == LOCK and e.op in ("openw", "write", "unlink")) \
                    or (LOCKTMP.match(e.path) and e.op in ("openw", "write", "unlink")) \
                    or (e.op == "link" and LOCKTMP.match(e.path) and e.path2 == LOCK) \
                    or (e.path == plan_path and e.op in ("openw", "write")):
                continue
        bad.append(e)
    return bad


def run_case(tree, name, args, dry, op, thread_counts, repeats, autoinit, preexisting):
    """one (tree, argument set): all thread counts x repeats in one directory.  Returns a result dict."""
    res = {"name": name, "args": args, "runs": 0, "problems": [], "outputs": [], "traces": [],
           "failed": None}
    extra = [] if autoinit else ["--no-auto-init"]
    if autoinit == "yes":
        extra = ["-y"]
    elif autoinit == "repo":
        extra = ["--auto-init", "repo"]
    elif autoinit == "closed-stdin":
        extra = []
    with common.scratch() as d:
        common.materialize(d, tree)
        if preexisting:
            os.makedirs(os.path.join(d, ".renamify"))
            with open(os.path.join(d, ".gitignore"), "w") as fh:
                fh.write(".renamify/\n")
        initial = common.snapshot(d, exclude=())
        first = True
        for t in thread_counts:
            for rep in range(repeats):
                before = common.snapshot(d, exclude=())
                r = shim.trace(args + ["--output", "json"] + extra, d, env={"RAYON_NUM_THREADS": str(t)})
                after = common.snapshot(d, exclude=())
                res["runs"] += 1
                tag = {"threads": t, "repeat": rep}
                failed = r.rc != 0
                writes_ignore = autoinit in ("yes", "repo") and first and not preexisting
                bad = classify_writes(r.events, op, dry, ".renamify/plan.json", writes_ignore)
                if bad:
                    res["problems"].append({**tag, "what": "write outside the permitted set", "events": [e.raw for e in bad[:6]]})
                    return res
                # snapshot oracle
                allowed = set()
                if writes_ignore:
                    allowed.add(".gitignore")
                if op == "plan" and not dry:
                    allowed |= {".renamify", ".renamify/plan.json"}
                diff = [k for k in sorted(set(before) | set(after)) if before.get(k) != after.get(k)]
                extra_diff = [k for k in diff if k not in allowed]
                if extra_diff:
                    res["problems"].append({**tag, "what": "tree changed", "paths": extra_diff,
                                            "diff": common.snap_diff({k: before[k] for k in before if k in extra_diff},
                                                                     {k: after[k] for k in after if k in extra_diff})})
                    return res
                if writes_ignore:
                    old = initial.get(".gitignore", ("f", 0, b""))[2].decode()
                    got = after.get(".gitignore", ("f", 0, b""))[2].decode()
                    if got != expected_gitignore(old):
                        res["problems"].append({**tag, "what": "ignore-file addition differs from the documented one",
                                                "expected": expected_gitignore(old), "observed": got})
                        return res
                if failed:
                    # a command that refuses (e.g. rename conflicts) must be just as read-only; its report is its status
                    res["failed"] = {**tag, "rc": r.rc, "stderr": r.stderr.decode("utf-8", "replace")[-300:]}
                    res["outputs"].append((tag, {"rc": r.rc}))
                    if os.path.isdir(os.path.join(d, ".renamify")) and op == "plan" and not dry and not preexisting:
                        shutil.rmtree(os.path.join(d, ".renamify"))
                    first = False
                    continue
                try:
                    out = json.loads(r.stdout)
                except ValueError:
                    res["problems"].append({**tag, "what": "stdout is not JSON", "stdout": r.stdout[:200].decode("utf-8", "replace")})
                    return res
                res["outputs"].append((tag, canon(out)))
                if op == "plan" and not dry:
                    pf = json.load(open(os.path.join(d, ".renamify/plan.json")))
                    res["outputs"][-1] = (tag, {"stdout": canon(out), "plan_file": canon(pf)})
                    # the next run must see the same tree as this one did
                    shutil.rmtree(os.path.join(d, ".renamify"))
                    if preexisting:
                        os.makedirs(os.path.join(d, ".renamify"))
                res["traces"].append((tag, writes_ignore, [[re.sub(r"renamify\.lock\.\d+\.tmp$", "renamify.lock.PID.tmp", y) for y in x]
                                                           for x in shim.abstract(r.events, logs="keep")]))
                first = False
    return res


def preview_case(tree, args, formats, thread_counts, repeats):
    """human-readable previews must be equal across runs"""
    out = []
    with common.scratch() as d:
        common.materialize(d, tree)
        before = common.snapshot(d, exclude=(".renamify",))
        for fmt in formats:
            texts = []
            for t in thread_counts:
                for rep in range(repeats):
                    rc, so, se = common.cli(args + ["--preview", fmt, "--no-auto-init"], d, env={"RAYON_NUM_THREADS": str(t)})
                    texts.append(({"threads": t, "repeat": rep, "rc": rc}, _ID.sub("<ID>", so.decode("utf-8", "replace"))))
            out.append((fmt, texts))
        same = common.snapshot(d, exclude=(".renamify",)) == before
    return out, same


# ------------------------------------------------------------------------------------------------
# confusable files: anything a content-, length-, name- or mtime-keyed cache could mix up

CONF_STYLES = ["snake", "camel", "pascal", "kebab"]
CONF_MTIME = 1_700_000_000


def _conf_middle(rng, style, S, words, n_lines):
    """a body whose dominant identifier style is `style` (>= 2 unambiguous identifiers per line), with hits of the
    single-word term S: ambiguous ones at the START of a line (no preceding word, so ambiguity/cross_file_context.rs
    cannot contribute: the choice depends on this file alone) and unambiguous compound ones in the file's style"""
    w = words
    lines = []
    for k in range(n_lines):
        a = gen.render(style, [w[0], w[1] + f"{k:02d}", w[2]])
        b = gen.render(style, [w[3], w[4] + f"{k:02d}", w[5]])
        lines.append(f"let {a} = {b};")
        if k % 16 == 5:
            lines.append(f"{S} = {k};")                                   # ambiguous: lower-case single word
        if k % 16 == 9:
            lines.append(f"{S.capitalize()}({k})")                        # ambiguous: capitalised single word
        if k % 16 == 13:
            lines.append(f"call {gen.render(style, ['my', S, 'handler'])}({k});")   # unambiguous compound hit
    return "\n".join(lines) + "\n"


def confusable_tree(rng, S):
    """returns (tree, groups): groups of 2..6 files >= 4 KiB with identical length and identical first / last 2 KiB whose
    middles differ in dominant style; plus a same-content-different-name copy, same-name-different-directory members and
    a one-byte variant"""
    tree, groups = {}, []
    dirs = ["frontend", "backend", "shared", "tools", "vendor", "legacy"]
    filler = [x for x in gen.VOCAB + gen.FILLER if x != S and len(x) > 2]
    for gi in range(rng.randint(1, 2)):
        n = rng.randint(2, 6)
        header = "".join(f"// Module {gi:03d} - generated stub, line {i:02d}: do not edit by hand, see the generator notes\n"
                         for i in range(28))
        trailer = f"{S} is configured above\n" + "".join(
            f"// end of module {gi:03d}, trailer line {i:02d}: keep this block in sync with the shared template\n" for i in range(28))
        assert len(header) >= 2048 and len(trailer) >= 2048
        styles = [CONF_STYLES[(gi + i) % 4] for i in range(n)]
        rng.shuffle(styles)
        words = rng.sample(filler, 6)
        middles = [_conf_middle(rng, st, S, words, 64) for st in styles]
        width = max(len(m) for m in middles) + 8
        members = []
        same_name = rng.random() < 0.6
        for i, (st, m) in enumerate(zip(styles, middles)):
            pad = width - len(m)
            body = header + m + "//" + "." * (pad - 3) + "\n" + trailer
            name = (f"{dirs[i]}/mod_{gi:03d}.txt" if same_name else f"gen{gi}/part_{i}_{st}.txt")
            tree[os.path.dirname(name)] = ("d", 0o755)
            tree[name] = ("f", body.encode(), 0o644)
            members.append(name)
        lens = {len(tree[m][1]) for m in members}
        assert len(lens) == 1 and min(lens) >= 4096
        # the same content under another name
        src = rng.choice(members)
        tree[f"copies{gi}"] = ("d", 0o755)
        tree[f"copies{gi}/same_content_{gi}.txt"] = tree[src]
        members.append(f"copies{gi}/same_content_{gi}.txt")
        # one byte different (same length, same head and tail): a digit inside an identifier of the middle
        b = bytearray(tree[members[0]][1])
        pos = b.index(b"00", 2100)
        b[pos + 1] = ord("7")
        tree[f"copies{gi}/one_byte_{gi}.txt"] = ("f", bytes(b), 0o644)
        members.append(f"copies{gi}/one_byte_{gi}.txt")
        groups.append({"members": members, "styles": styles, "length": min(lens)})
    # a small file that must not be confused with anything
    tree["notes.txt"] = ("f", f"{S} notes\nsee my_{S}_handler\n".encode(), 0o644)
    return tree, groups


def _rel_matches(out, root):
    """the plan's matches with root-relative file names, every field kept"""
    plan = out.get("plan", out)
    res = []
    for m in plan.get("matches", []):
        m = dict(m)
        m["file"] = os.path.relpath(m["file"], root) if os.path.isabs(m["file"]) else os.path.normpath(m["file"])
        res.append(m)
    return res, [[os.path.relpath(r["path"], root) if os.path.isabs(r["path"]) else r["path"],
                  (os.path.relpath(r["new_path"], root) if os.path.isabs(r.get("new_path", "") or "") else r.get("new_path", ""))]
                 for r in plan.get("paths", [])], plan.get("stats", {})


def _plan_once(d, args, threads):
    rc, so, se = common.cli(args + ["--output", "json", "--no-auto-init"], d, env={"RAYON_NUM_THREADS": str(threads)})
    if rc != 0:
        return None, {"rc": rc, "stderr": se.decode("utf-8", "replace")[-300:]}
    try:
        return _rel_matches(json.loads(so), d), None
    except ValueError:
        return None, {"rc": rc, "stdout": so[:200].decode("utf-8", "replace")}


def _materialize_same_mtime(d, tree):
    common.materialize(d, tree)
    for dp, dn, fn in os.walk(d):
        for f in fn:
            os.utime(os.path.join(dp, f), (CONF_MTIME, CONF_MTIME), follow_symlinks=False)


def confusable_case(tree, args, thread_counts, repeats):
    """returns a problem dict or None.  (i) every run equals the first (1-thread) run; (ii) for every file the matches the
    full plan reports for it equal the plan of a tree that contains only that file (same relative path)."""
    with common.scratch() as d:
        _materialize_same_mtime(d, tree)
        before = common.snapshot(d, exclude=())
        runs = []
        for t in thread_counts:
            for rep in range(repeats):
                out, err = _plan_once(d, args, t)
                if err:
                    return {"what": "command failed", "run": {"threads": t, "repeat": rep}, **err}
                runs.append(({"threads": t, "repeat": rep}, out))
        if common.snapshot(d, exclude=()) != before:
            return {"what": "tree changed by a dry run"}
    ref_tag, ref = runs[0]
    for tag, out in runs[1:]:
        if out != ref:
            a, b = _first_diff({"matches": ref[0], "paths": ref[1], "stats": ref[2]},
                               {"matches": out[0], "paths": out[1], "stats": out[2]})
            return {"what": "two runs on the same tree report different plans", "run_a": ref_tag, "a": a, "run_b": tag, "b": b}
    by_file = {}
    for m in ref[0]:
        by_file.setdefault(m["file"], []).append(m)
    for rel in sorted(k for k, v in tree.items() if v[0] == "f"):
        sub = {rel: tree[rel]}
        par = os.path.dirname(rel)
        while par:
            sub[par] = ("d", 0o755)
            par = os.path.dirname(par)
        with common.scratch() as d2:
            _materialize_same_mtime(d2, sub)
            out, err = _plan_once(d2, args, 1)
        if err:
            return {"what": "command failed on the single-file tree", "file": rel, **err}
        alone = out[0]
        if alone != by_file.get(rel, []):
            a, b = _first_diff(by_file.get(rel, []), alone)
            return {"what": "a file's matches in the full plan differ from the plan of that file alone", "file": rel,
                    "in_full_plan": a, "alone": b, "full_plan_run": ref_tag}
    return None


# ------------------------------------------------------------------------------------------------
# several explicit search roots

def multiroot_tree(rng, sw):
    """2..5 top-level roots, each with directories AT THE SAME DEPTH whose names carry the term (so the planner's order
    — directories by depth — ties between them), files with the term in name and content, and a nested sub-root.
    Returns (tree, list of PATHS argument lists incl. overlapping roots)"""
    S = {st: gen.render(st, sw) for st in ("snake", "camel", "kebab", "pascal")}
    n = rng.randint(2, 5)
    tree = {}
    roots = []
    for i in range(n):
        r = f"root{i}"
        roots.append(r)
        tree[r] = ("d", 0o755)
        for j in range(rng.randint(1, 3)):
            dn = f"{r}/{S[rng.choice(['snake', 'kebab', 'camel'])]}_{i}{j}"
            tree[dn] = ("d", 0o755)
            tree[f"{dn}/inner_{S['snake']}.txt"] = ("f", f"{S['snake']} in {i}{j}\n{S['camel']}();\n".encode(), 0o644)
        tree[f"{r}/sub"] = ("d", 0o755)
        tree[f"{r}/sub/{S['snake']}_deep"] = ("d", 0o755)
        tree[f"{r}/sub/{S['snake']}_deep/leaf.txt"] = ("f", f"use {S['pascal']};\n".encode(), 0o644)
        tree[f"{r}/{S['kebab']}-file{i}.md"] = ("f", f"# {S['pascal']}\n".encode(), 0o644)
        tree[f"{r}/plain{i}.txt"] = ("f", f"let {S['snake']} = {S['camel']};\n".encode(), 0o644)
    order = list(roots)
    rng.shuffle(order)
    argsets_ = [roots, order,
                roots + [f"{roots[0]}/sub"],                 # nested root after its parent
                [f"{roots[-1]}/sub"] + roots,                # nested root before its parent
                roots + [roots[0]],                          # a root given twice
                [".", roots[1]]]                             # the working directory plus one of its children
    return tree, argsets_


def multiroot_case(tree, args, thread_counts, repeats):
    """the FULL plan document (matches, the ORDER of `paths`, stats) of every process run must equal the first run's"""
    with common.scratch() as d:
        common.materialize(d, tree)
        before = common.snapshot(d, exclude=())
        ref = None
        for t in thread_counts:
            for rep in range(repeats):
                rc, so, se = common.cli(args + ["--output", "json", "--no-auto-init"], d, env={"RAYON_NUM_THREADS": str(t)})
                tag = {"threads": t, "repeat": rep}
                if rc != 0:
                    return {"what": "command failed", "run": tag, "rc": rc, "stderr": se.decode("utf-8", "replace")[-300:]}
                try:
                    out = canon(json.loads(so))
                except ValueError:
                    return {"what": "stdout is not JSON", "run": tag}
                if ref is None:
                    ref = (tag, out)
                elif out != ref[1]:
                    a, b = _first_diff(ref[1], out)
                    return {"what": "two runs on the same tree and arguments report different plans",
                            "run_a": ref[0], "a": a, "run_b": tag, "b": b,
                            "paths_a": [p_.get("path") for p_ in ref[1].get("plan", {}).get("paths", [])][:12],
                            "paths_b": [p_.get("path") for p_ in out.get("plan", {}).get("paths", [])][:12]}
        if common.snapshot(d, exclude=()) != before:
            return {"what": "tree changed by a dry run"}
        n_paths = len(ref[1].get("plan", {}).get("paths", [])) if ref else 0
    return {"ok": True, "renames": n_paths}


def grow_tree(rng, sw, target):
    """gen.gen_tree stops early most of the time: put several of them side by side until `target` entries exist"""
    tree = gen.gen_tree(rng, sw, depth=4, max_entries=target, p_term_name=0.5)
    i = 0
    while len(tree) < target and i < 40:
        sub = gen.gen_tree(rng, sw, depth=3, max_entries=max(1, target - len(tree) - 1), p_term_name=0.5)
        top = f"m{i}" if i % 2 else gen.render("snake", sw) + f"_{i}"
        if len(tree) + 1 + len(sub) <= target + 2:
            tree[top] = ("d", 0o755)
            for k, v in sub.items():
                tree[top + "/" + k] = v
        i += 1
    return tree


def model_request(op, dry, renamify_exists, autoinit, probe):
    b = lambda x: "1" if x else "0"
    return f"c14prog {op} {b(dry)} {b(renamify_exists)} {b(autoinit)} {b(probe)}"


def describe_tree(tree):
    return {k: (v[1].decode("utf-8", "replace") if v[0] == "f" else v[0] if v[0] == "d" else "-> " + v[1]) for k, v in tree.items()}


def run(ctx):
    ctx.cov["rule"] = ("tree = gen.gen_tree (depth<=4, 1..40 entries, term in names and contents, modes, symlinks) x argument set in "
                       "plan | plan --dry-run | search | rename --dry-run | replace --dry-run, each with one option set drawn from "
                       "style / include / exclude options; RAYON_NUM_THREADS in {1,2,8,16} (thorough 1..16) x 2 (thorough 3) repeats in "
                       "one directory; a quarter of the cases with auto-init enabled (-y, --auto-init repo, or closed stdin) or a "
                       "pre-existing .renamify/. non-trivial = the plan has at least one match or rename; distinct = (tree, args)")
    ctx.assumptions += ["rayon's par_iter().map().collect() preserves input order (library contract)",
                        "readdir order of an unchanged directory is stable between runs",
                        "PathBuf ordering is a total order (hypothesis TotalOrder of order_independent)",
                        "(file, line, byte_offset) identifies a hunk (hypothesis KeyInjective; C03's sort_key_unique)"]
    from translate import dryrun_gates, scan_shape
    for tr in (dryrun_gates, scan_shape):
        try:
            tr.run()
        except Exception as ex:  # noqa: BLE001 - a source that cannot be parsed is a broken tie
            ctx.broke("translator", tr.__name__, repr(ex))
    ctx.prove("RModel.Props.C14")
    ok, msg = common.cargo_build()
    if not ok:
        ctx.broke("build", "cargo", msg)
        return
    rng = ctx.rng
    quick = not ctx.thorough
    threads = [1, 2, 8, 16] if quick else list(range(1, 17))
    repeats = 2 if quick else 3
    n_trees = 4 if quick else 20

    cases = []
    for ti in range(n_trees):
        sw, rw = gen.pick_terms(rng)
        if len(rw) == 1:               # one-word replacements make differently styled names collide (refused plans)
            rw = rw + [rng.choice([w for w in gen.VOCAB if w not in sw and w not in rw])]
        size = [3, 12, 25, 40][ti % 4] if quick else rng.randint(1, 40)
        tree = grow_tree(rng, sw, size)
        S = gen.render(rng.choice(["snake", "camel", "kebab", "pascal"]), sw)
        R = gen.render(rng.choice(["snake", "camel", "kebab"]), rw)
        for name, args, dry, op in argsets(S, R, rng):
            mode = rng.choice([None, None, None, "yes", "repo", "closed-stdin"])
            if op == "replace" and mode == "yes":
                mode = "repo"          # replace has its own -y
            pre = rng.random() < 0.2
            cases.append((ti, tree, S, R, name, args, dry, op, mode, pre))

    def work(c):
        ti, tree, S, R, name, args, dry, op, mode, pre = c
        return run_case(tree, name, args, dry, op, threads, repeats, mode, pre)
    with concurrent.futures.ThreadPoolExecutor(max_workers=6) as ex:
        results = list(ex.map(work, cases))

    reqs, expect = [], []
    for c, res in zip(cases, results):
        ti, tree, S, R, name, args, dry, op, mode, pre = c
        case = {"tree": describe_tree(tree), "args": args, "auto_init": mode, "preexisting_renamify": pre,
                "threads": threads, "repeats": repeats}
        ctx.count("argset:" + name)
        if name == "plan":
            ctx.count("tree_entries:%d" % (len(tree) // 10 * 10))
        ctx.count("autoinit:" + str(mode))
        ctx.count("runs", res["runs"])
        if res["failed"]:
            ctx.count("cli_refused")
            if len(ctx.notes) < 4:
                ctx.notes.append(f"{' '.join(args)}: {res['failed']}")
        if res["problems"]:
            p = res["problems"][0]
            note = None
            if op == "rename" and dry and any(".renamify" in str(x) for x in (p.get("events", []) + p.get("paths", []))):
                note = "the defect repaired by 055e350 is back: rename --dry-run takes the lock / creates .renamify/"
            ctx.violation("input", case, expected="only permitted writes; tree byte-identical", observed=p, note=note,
                          model_prediction="C14.readonly_full: a dry run writes the transient probe only")
            return
        outs = res["outputs"]
        nontrivial = False
        if outs:
            o0 = outs[0][1]
            plan = (o0.get("stdout", o0) if isinstance(o0, dict) else o0)
            plan = plan.get("plan", plan) if isinstance(plan, dict) else {}
            nontrivial = bool(plan.get("matches") or plan.get("paths"))
            ctx.count("matches", len(plan.get("matches", [])))
        ctx.case((ti, tuple(args), mode, pre), nontrivial)
        for tag, o in outs[1:]:
            if o != outs[0][1]:
                ctx.violation("input", case, expected={"run": outs[0][0], "output": _first_diff(outs[0][1], o)[0]},
                              observed={"run": tag, "output": _first_diff(outs[0][1], o)[1]},
                              note="same tree, same arguments, different report")
                return
        # correspondence: trace vs model program
        probe = not (op == "replace")
        for i, (tag, wrote_ignore, trace) in enumerate(res["traces"]):
            exists = pre
            reqs.append(model_request(op, dry, exists, wrote_ignore, probe))
            expect.append((case, tag, " ".join(":".join(x) for x in trace) or "-"))
    if results:
        ctx.sample({"op": "plan-like", "args": cases[0][5], "tree_entries": len(cases[0][1]), "runs": results[0]["runs"]})

    if reqs:
        model = common.run_model(reqs)
        ctx.cov["disagreements_checked"] += len(reqs)
        for rq, m, (case, tag, obs) in zip(reqs, model, expect):
            if m != obs:
                ctx.broke("correspondence", "written-path trace vs Scan.program", {"case": case, "run": tag, "request": rq, "model": m, "observed": obs})
                break
        ctx.sample({"op": "trace", "request": reqs[0], "model": model[0]})

    # ---- confusable files ------------------------------------------------------------------------
    import time as _time
    _t_conf = _time.time()
    n_conf = 3 if quick else 16
    cthreads = [1, 4, 16] if quick else [1, 2, 3, 4, 6, 8, 12, 16]
    conf_cases = []
    for ci in range(n_conf):
        S = rng.choice([w for w in gen.VOCAB if len(w) >= 5])
        R = gen.render(rng.choice(["snake", "camel", "kebab"]), rng.sample([w for w in gen.VOCAB if w != S], 2))
        tree, groups = confusable_tree(rng, S)
        kind = ci % 3
        args = (["plan", S, R, "--dry-run"], ["rename", S, R, "--dry-run"], ["search", S])[kind]
        conf_cases.append((tree, groups, args))

    def conf_work(c):
        return confusable_case(c[0], c[2], cthreads, 2 if quick else 3)
    with concurrent.futures.ThreadPoolExecutor(max_workers=4) as ex:
        conf_results = list(ex.map(conf_work, conf_cases))
    for (tree, groups, args), prob in zip(conf_cases, conf_results):
        ctx.case(("confusable", tuple(args), tuple(sorted(tree))))
        ctx.count("confusable:" + args[0])
        ctx.count("confusable_files", sum(len(g["members"]) for g in groups))
        if prob and prob["what"].startswith("command failed"):
            ctx.count("confusable_refused")
            ctx.notes.append(f"confusable {' '.join(args)}: {prob}")
            continue
        if prob:
            case = {"family": "confusable", "tree": common.tree_dump(gen.tree_to_snap(tree)), "args": args,
                    "threads": cthreads, "groups": groups}
            ctx.violation("input", case, expected="the same plan on every run, and per file the plan of that file alone "
                          "(ambiguous hits stand at line starts: no cross-file context applies)", observed=prob,
                          note="files with equal length / head / tail / name / mtime but different content are told apart")
            return
    ctx.cov["confusable_wall_s"] = round(_time.time() - _t_conf, 1)
    if conf_cases:
        ctx.sample({"op": "confusable", "args": conf_cases[0][2], "groups": conf_cases[0][1]})

    # ---- tie files: two identifier styles counted EQUALLY often (and above the file-context threshold), an ambiguous hit ----
    #      whatever decides such a tie must be a function of the tree, not of the process (a HashMap's iteration order is
    #      per-process: finding file_context_tie_hash_order, repaired by repo commit 40204b5)
    for ti in range(2 if quick else 6):
        S = rng.choice([w for w in gen.VOCAB if len(w) >= 3])
        R = gen.render(rng.choice(["snake", "camel"]), rng.sample([w for w in gen.VOCAB if w != S], 2))
        a, b = rng.sample(["snake", "camel", "kebab", "pascal"], 2)
        words = [w for w in gen.VOCAB if w != S]
        n = 30 + 2 * ti
        lines = []
        for k in range(n):
            w1, w2 = words[k % len(words)], words[(k * 7 + 3) % len(words)]
            lines.append(f"{gen.render(a, [w1, w2 + 'x' * (k // len(words))])} = {k}")
            lines.append(f"{gen.render(b, [w2, w1 + 'y' * (k // len(words))])} = {k}")
        lines.insert(7, f"call({S})")
        ttree = {"notes.txt": ("f", ("\n".join(lines) + "\n").encode(), 0o644)}
        targs = ["plan", S, R, "--dry-run"]
        with common.scratch() as d:
            common.materialize(d, ttree)
            outs = []
            for rep in range(12 if quick else 24):
                out, err = _plan_once(d, targs, 1 + rep % 4)
                if err:
                    break
                outs.append(out)
        ctx.case(("tie", S, R, a, b, n), nontrivial=True)
        ctx.count("tie_files")
        diff = next((o for o in outs[1:] if o != outs[0]), None) if outs else None
        if diff is not None:
            x, y = _first_diff({"matches": outs[0][0], "paths": outs[0][1], "stats": outs[0][2]},
                               {"matches": diff[0], "paths": diff[1], "stats": diff[2]})
            ctx.violation("input", {"family": "tie", "tree": common.tree_dump(gen.tree_to_snap(ttree)), "args": targs,
                                    "styles_counted_equally": [a, b], "identifiers_per_style": n},
                          expected="the same plan on every run of the same command on the same tree",
                          observed={"run_a": x, "run_b": y, "runs": len(outs)},
                          note="two processes plan the same tree differently (no threads involved: the difference is per process)")
            return

    # ---- neighbour files: a one-word (ambiguous) term after the same word in small files of two directories whose sibling
    #      files write `<word> <identifier>` in DIFFERENT styles (and one directory where two styles tie), next to a large
    #      file that shifts the order in which workers finish.  Whatever context decides the style, the plan must not depend
    #      on which file a worker finishes first, nor on the process (seeded change C14h: cross-file level switched on —
    #      its cache is process-wide and keyed without the directory, its tie is decided by HashMap order) ---------------
    for ni in range(2 if quick else 6):
        S = rng.choice([w for w in gen.VOCAB if len(w) >= 3])
        others = [w for w in gen.VOCAB if w != S]
        R = gen.render(rng.choice(["snake", "camel", "kebab"]), rng.sample(others, 2))
        a, b = rng.sample(["snake", "camel", "kebab", "pascal"], 2)
        lead = rng.choice(["item", "let", "use", "call"])
        ext = rng.choice(["txt", "txt", "md", "cfg"])

        ntree = neighbour_tree(S, a, b, lead, ext, ni)
        nargs = ["plan", S, R, "big", "small", "tie", "--dry-run"]
        changed, outs = neighbour_runs(ntree, nargs, 10 if quick else 30)
        ctx.case(("neighbours", S, R, a, b, lead, ext), nontrivial=True)
        ctx.count("neighbour_files")
        nparams = {"S": S, "a": a, "b": b, "lead": lead, "ext": ext, "ni": ni}
        if changed:
            ctx.violation("input", {"family": "neighbours", "args": nargs, "params": nparams},
                          expected="dry runs leave the tree byte-identical", observed="tree changed",
                          note="tree of the neighbour-files family changed under --dry-run")
            return
        diff = next((o for o in outs[1:] if o != outs[0]), None) if outs else None
        if diff is not None:
            x, y = _first_diff({"matches": outs[0][0], "paths": outs[0][1], "stats": outs[0][2]},
                               {"matches": diff[0], "paths": diff[1], "stats": diff[2]})
            small = {k: v for k, v in ntree.items() if not k.startswith("big/use")}
            ctx.violation("input", {"family": "neighbours", "tree_without_big_file": common.tree_dump(gen.tree_to_snap(small)),
                                    "big_file": f"big/use.{ext} = 'lorem ipsum dolor sit amet\\n' x {20000 + 5000 * ni} + '{lead} {S}\\n'",
                                    "args": nargs, "params": nparams, "thread_counts_cycled": [1, 2, 16, 4, 8]},
                          expected="the same plan on every run and for every worker-thread count",
                          observed={"run_a": x, "run_b": y, "runs": len(outs)},
                          note="the replacement chosen for an ambiguous occurrence depends on the worker-thread count or on the process")
            return

    # ---- several explicit search roots -------------------------------------------------------------
    mthreads = [1, 8] if quick else [1, 2, 4, 8, 16]
    mrepeats = 6 if quick else 8
    mcases = []
    for mi in range(2 if quick else 6):
        sw, rw = gen.pick_terms(rng, 2, 2)
        tree, pathsets = multiroot_tree(rng, sw)
        Sx, Rx = gen.render("snake", sw), gen.render("snake", rw)
        chosen = pathsets if not quick else [pathsets[0], rng.choice(pathsets[2:])]
        for ps in chosen:
            mcases.append((tree, ["plan", Sx, Rx, "--dry-run"] + ps))

    def mwork(c):
        return multiroot_case(c[0], c[1], mthreads, mrepeats)
    with concurrent.futures.ThreadPoolExecutor(max_workers=4) as ex:
        mresults = list(ex.map(mwork, mcases))
    for (tree, args), res in zip(mcases, mresults):
        ctx.case(("multiroot", tuple(args), tuple(sorted(tree))), nontrivial=bool(res.get("renames")))
        ctx.count("multiroot:roots=%d" % (len(args) - 4))
        if res.get("ok"):
            ctx.count("multiroot_renames", res["renames"])
            continue
        if res["what"] == "command failed":
            ctx.count("multiroot_refused")
            ctx.notes.append(f"multiroot {' '.join(args)}: {res}")
            continue
        case = {"family": "multiroot", "tree": common.tree_dump(gen.tree_to_snap(tree)), "args": args,
                "threads": mthreads, "repeats": mrepeats}
        ctx.violation("input", case, expected="the same plan document, including the order of `paths`, from every process", observed=res,
                      note="several search roots; separate processes (the order must not depend on a per-process hash seed)")
        return
    if mcases:
        ctx.sample({"op": "multiroot", "args": mcases[0][1], "result": mresults[0]})

    # ---- previews ------------------------------------------------------------------------------
    pthreads = [1, 8] if quick else [1, 3, 16]
    done = set()
    for c in cases:
        ti, tree, S, R, name, args, dry, op, mode, pre = c
        if name not in ("plan-dry", "rename-dry", "search") or (ti, name) in done or (quick and ti % 2):
            continue
        done.add((ti, name))
        base = [a for a in args]
        formats = ["table", "diff", "matches", "summary"] if name != "search" else ["table", "matches", "summary"]
        outs, same = preview_case(tree, base, formats, pthreads, 2)
        case = {"tree": describe_tree(tree), "args": base, "threads": pthreads}
        if not same:
            ctx.violation("input", case, expected="tree byte-identical after previews", observed="user tree changed")
            return
        for fmt, texts in outs:
            ctx.case((ti, tuple(base), "preview", fmt))
            ctx.count("preview:" + fmt, len(texts))
            for tag, text in texts[1:]:
                if text != texts[0][1] or tag["rc"] != texts[0][0]["rc"]:
                    ctx.violation("input", {**case, "preview": fmt}, expected={"run": texts[0][0], "text": texts[0][1][:1500]},
                                  observed={"run": tag, "text": text[:1500]}, note="same tree, same arguments, different preview")
                    return


def _first_diff(a, b, path=""):
    if type(a) != type(b):
        return ({path: a}, {path: b})
    if isinstance(a, dict):
        for k in sorted(set(a) | set(b)):
            if a.get(k) != b.get(k):
                return _first_diff(a.get(k), b.get(k), path + "/" + k)
    if isinstance(a, list):
        if len(a) != len(b):
            return ({path + "/len": len(a)}, {path + "/len": len(b)})
        for i, (x, y) in enumerate(zip(a, b)):
            if x != y:
                return _first_diff(x, y, f"{path}[{i}]")
    return ({path: a}, {path: b})


def neighbour_tree(S, a, b, lead, ext, ni):
    others = [w for w in gen.VOCAB if w != S]

    def neigh(st, k0):
        return "".join(f"{lead} {gen.render(st, [others[(k0 + k) % len(others)], others[(k0 + 3 * k + 1) % len(others)]])}\n"
                       for k in range(3 + ni % 2))
    return {f"big/use.{ext}": ("f", (b"lorem ipsum dolor sit amet\n" * (20000 + 5000 * ni)) + f"{lead} {S}\n".encode(), 0o644),
            f"big/n1.{ext}": ("f", neigh(a, 0).encode(), 0o644),
            f"small/use.{ext}": ("f", f"{lead} {S}\n".encode(), 0o644),
            f"small/n1.{ext}": ("f", neigh(b, 2).encode(), 0o644),
            f"tie/use.{ext}": ("f", f"{lead} {S}\n".encode(), 0o644),
            f"tie/n1.{ext}": ("f", (neigh(a, 4) + neigh(b, 4)).encode(), 0o644)}


def neighbour_runs(ntree, nargs, reps):
    """-> (tree changed?, list of plans)"""
    with common.scratch() as d:
        common.materialize(d, ntree)
        nbefore = common.snapshot(d, exclude=())
        outs = []
        for rep in range(reps):
            out, err = _plan_once(d, nargs, [1, 2, 16, 4, 8][rep % 5])
            if err:
                break
            outs.append(out)
        return nbefore != common.snapshot(d, exclude=()), outs


def replay(ctx, path):
    obj = json.load(open(path))
    case = obj.get("case", {})
    ok, msg = common.cargo_build()
    if not ok:
        ctx.broke("build", "cargo", msg)
        return
    if isinstance(case, dict) and case.get("family") == "multiroot":
        res = multiroot_case(common.tree_undump(case["tree"]), case["args"], case.get("threads", [1, 8]), case.get("repeats", 8))
        print(json.dumps(res, indent=1, default=str)[:3000])
        if not res.get("ok"):
            ctx.violation("input", case, expected=obj.get("expected"), observed=res)
        return
    if isinstance(case, dict) and case.get("family") == "neighbours":
        q = case["params"]
        changed, outs = neighbour_runs(neighbour_tree(q["S"], q["a"], q["b"], q["lead"], q["ext"], q["ni"]), case["args"], 30)
        differ = [i for i, o in enumerate(outs) if o != outs[0]]
        print(json.dumps({"runs": len(outs), "runs_that_differ_from_the_first": differ, "tree_changed": changed}, indent=1))
        if changed or differ:
            ctx.violation("input", case, expected=obj.get("expected"), observed={"runs_that_differ": differ, "tree_changed": changed})
        return
    if isinstance(case, dict) and case.get("family") == "confusable":
        tree = common.tree_undump(case["tree"])
        prob = confusable_case(tree, case["args"], case.get("threads", [1, 2, 8, 16]), 3)
        print(json.dumps(prob, indent=1, default=str)[:3000])
        if prob:
            ctx.violation("input", case, expected=obj.get("expected"), observed=prob)
        return
    if not (isinstance(case, dict) and "args" in case and "tree" in case):
        print(json.dumps(obj, indent=1)[:3000])
        return
    tree = {}
    for k, v in case["tree"].items():
        tree[k] = ("d", 0o755) if v == "d" else ("l", v[3:]) if v.startswith("-> ") else ("f", v.encode(), 0o644)
    args = case["args"]
    op = args[0]
    dry = "--dry-run" in args or op == "search"
    res = run_case(tree, "replay", args, dry, op, case.get("threads", [1, 8]), case.get("repeats", 2),
                   case.get("auto_init"), case.get("preexisting_renamify", False))
    print(json.dumps({"runs": res["runs"], "problems": res["problems"]}, indent=1, default=str))
    differ = [tag for tag, o in res["outputs"][1:] if o != res["outputs"][0][1]]
    if res["problems"] or differ:
        ctx.violation("input", case, expected=obj.get("expected"), observed=res["problems"] or {"runs_that_differ": differ})
