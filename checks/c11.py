"""C11 — A crash at any instant leaves a consistent, usable workspace.

prove       RModel.Props.C11 over RModel.Model.Exec (every crash prefix: before / after / in the middle of call k)
correspond  for every mutating libc call k of the real trace of `rename -y`, `apply`, `undo`, `redo` (and `replace`):
            SIGKILL before the call, after it, and — for writes — after half of the bytes (shim/fsshim.c); the state the
            dead process leaves (user tree, history, lock, stored plan) vs. the model's prediction for the same k
oracle      independent of the model, `usable`: every user file of the pre-state is found at a path whose components
            are each the old or the new name, with its complete old or complete planned content and its mode; none is
            lost; history.json parses and still starts with every earlier entry (one earlier rename is part of the
            setup); then `plan --dry-run`, `plan` and `rename -y` on an unrelated term must all succeed and the
            history must still hold the earlier entries afterwards.  Failures must match a listed finding by shape
            and window (e.g. history_trunc_window = kill between `openw history.json` and the end of its write).
"""
import itertools
import json
import os
from multiprocessing import Pool

from . import common, faultlib as F, oracle

PROP = "C11"
MAX_VIOLATIONS = 5          # replay files written per run; further failing points are only counted
MODES = ["kill_before", "kill_after", "kill_mid"]
CORPUS = os.path.join(common.ROOT, "corpus", PROP)
LEFTOVER = (".PID.renamify.tmp", ".renamify.tmp")


def pairs(orig_tree, plan):
    """(old path, new path, old content, new content, mode) for every user file of the tree the plan was made for"""
    renames = oracle.plan_renames(plan, "/")
    edits = oracle.plan_edits(plan, "/")
    out = []
    for p, node in orig_tree.items():
        if node[0] != "f":
            continue
        c = node[2]
        cn = c
        if p in edits:
            cn, prob = oracle.splice(c, edits[p])
            if cn is None:
                cn = c
        out.append((p, oracle.final_path(p, renames), c, cn, node[1]))
    return out


def mixes(po, pn):
    a, b = po.split("/"), pn.split("/")
    if len(a) != len(b):
        return {po, pn}
    return {"/".join(x) for x in itertools.product(*[{u, v} for u, v in zip(a, b)])}


def usable(obs, orig_tree, plan):
    """-> (set of defect components, details)"""
    comps, det = set(), []
    post = obs["post"]["tree"]
    for po, pn, c, cn, mode in pairs(orig_tree, plan):
        found = None
        for q in sorted(mixes(po, pn)):
            v = post.get(q)
            if v is not None and v[0] == "f":
                found = (q, v)
                if v[2] in (c, cn) and v[1] == mode:
                    break
        if found is None:
            comps.add("user_file_lost")
            det.append(("lost", po))
        elif found[1][2] not in (c, cn):
            comps.add("user_file_damaged")
            det.append(("damaged", found[0], found[1][2][:40]))
        elif found[1][1] != mode:
            comps.add("user_file_mode_changed")
            det.append(("mode", found[0], oct(found[1][1]), oct(mode)))
    pre = obs["pre"]
    n = len(pre["hist"])
    if pre["hist_state"] == "ok":
        if obs["post"]["hist_state"] != "ok" or obs["post"]["hist"][:n] != pre["hist"]:
            comps.add("history_lost")
            det.append(("history", obs["post"]["hist_state"], obs["post"]["hist"]))
    elif obs["post"]["hist_state"] == "bad":
        comps.add("history_lost")
        det.append(("history", "bad", []))
    fu = obs.get("follow")
    if fu:
        for key, comp in (("same", "blocked:same_command_again"), ("other", "blocked:other_rename_same_files")):
            if key in fu and fu[key]["blocked"]:
                comps.add(comp)
                det.append((key, fu[key]["cmd"], fu[key]["rc"], fu[key]["stderr"][-160:]))
        for c in ("status", "history"):
            if fu.get(c, 0) != 0:
                comps.add("blocked:" + c)
                det.append((c, fu[c], fu.get(c + "_err", "")))
        for c in ("plan_dry", "plan", "rename"):
            if fu[c] != 0:
                comps.add("blocked:" + c)
                det.append((c, fu[c], fu.get(c + "_err", "")))
        if fu["rename"] == 0 and not fu["follow_applied"]:
            comps.add("followup_not_applied")
        if pre["hist_state"] == "ok" and (fu["hist_state"] != "ok" or fu["hist"][:n] != pre["hist"]):
            comps.add("history_lost")
            det.append(("history_after_followup", fu["hist_state"], fu["hist"]))
        elif fu["hist_state"] == "bad":
            comps.add("history_lost")
    return comps, det


def _win(path_suffix, allowed):
    """window: the killed call is `op` on a path with that suffix, with (op, mode) among `allowed`"""
    def pred(pt, obs, sc):
        f = pt["op"].split(" ")
        return len(f) > 1 and f[1].endswith(path_suffix) and (f[0], pt["mode"]) in allowed
    return pred


_OPEN_WRITE = {("openw", "kill_after"), ("write", "kill_before"), ("write", "kill_mid")}


def _undo_user_file(pt, obs, sc):
    f = pt["op"].split(" ")
    return sc["cmd"] == "undo" and pt.get("phase") == "patches" and (f[0], pt["mode"]) in _OPEN_WRITE


FINDINGS = {
    "history_lost": [("history_trunc_window", _win(".renamify/history.json", _OPEN_WRITE))],
    "blocked:plan_dry": [("lock_empty_window", _win("renamify.lock", _OPEN_WRITE))],
    "blocked:plan": [("lock_empty_window", _win("renamify.lock", _OPEN_WRITE))],
    "blocked:rename": [("lock_empty_window", _win("renamify.lock", _OPEN_WRITE))],
    "user_file_damaged": [("undo_inplace_truncation", _undo_user_file)],
}


def classify(comps, pt, obs, sc):
    slugs, bad = [], []
    for c in sorted(comps):
        hit = None
        for slug, pred in FINDINGS.get(c, []):
            if pt is not None and pred(pt, obs, sc):
                hit = slug
                break
        if hit:
            if hit not in slugs:
                slugs.append(hit)
        else:
            bad.append(c)
    return slugs, bad


def replay_case(sc, pt):
    return {"scenario": sc["name"], "tree": {k: list(v) for k, v in sc["tree"].items()}, "cmd": sc["cmd"], "setup": sc["setup"],
            "k": pt["k"], "mode": pt["mode"], "errno": None, "op": pt["op"], "occurrence": pt.get("occurrence"),
            "pos": pt.get("pos"), "phase": pt.get("phase")}


def judge(ctx, sc, plan, pre0, pt, obs, model):
    comps, det = usable(obs, pre0["tree"], plan)
    diffs = F.compare_state(obs, model, sc["cmd"]) if model else [("model", "no answer")]
    fu = obs.get("follow") or {}
    seen_block = any("File exists" in fu.get(k, {}).get("stderr", "") and "temp file" in fu.get(k, {}).get("stderr", "")
                     for k in ("same", "other"))
    if model and "same" in fu and model.get("leftover_blocks", False) != seen_block:
        diffs = diffs + [("leftover_blocks", model.get("leftover_blocks"), seen_block)]
    case = replay_case(sc, pt)
    ctx.count("mode:" + pt["mode"])
    ctx.count("phase:" + str(pt.get("phase")))
    if diffs:
        if not any(b["kind"] == "correspondence" for b in ctx.broken):
            ctx.broke("correspondence", "exectrace vs state after SIGKILL", {"case": case, "state_diff": diffs})
        ctx.count("model_disagreement")
    leftovers = sorted(k for k in obs["post"]["tree"] if k.endswith(LEFTOVER) or k.startswith(".tmpRAND"))
    if leftovers:
        ctx.count("harmless_leftover:" + ("tmp" if leftovers[0].endswith(LEFTOVER) else "probe_dir"))
    if obs["post"].get("lock_tmp"):
        ctx.count("harmless_leftover:lock_tmp")
    if obs["post"]["lock"] == "full":
        ctx.count("orphan_lock_removed_by_next_command")
    if not comps:
        return []
    slugs, bad = classify(comps, pt, obs, sc)
    observed = {"rc": obs["rc"], "components": sorted(comps), "details": det,
                "tree_diff": common.snap_diff(obs["pre"]["tree"], obs["post"]["tree"]),
                "history_before": obs["pre"]["hist"], "history_after": [obs["post"]["hist_state"], obs["post"]["hist"]],
                "lock": obs["post"]["lock"], "follow": obs.get("follow")}
    if (bad or diffs) and len(ctx.violations) >= MAX_VIOLATIONS:
        ctx.count("violations_not_reported_individually")
        return ["VIOLATION"]
    if bad or diffs:
        ctx.violation("fault", case,
                      expected="after SIGKILL: every user file whole at an old/new path, none lost, history parses and keeps earlier entries, next commands succeed",
                      observed=observed, model_prediction=None if not model else {"hist": model["hist"], "lock": model["lock"]},
                      note=("components not covered by a listed finding with its window: %s" % bad) if bad else
                      "matches the shape of a listed finding but the model does not predict this state")
        return ["VIOLATION"]
    out = []
    for s in slugs:
        ctx.count("finding:" + s)
        ctx.cov.setdefault("first_case", {}).setdefault(s, {"case": case, "observed": observed})
        if ctx.known(s):
            out.append(s)
        else:
            ctx.violation("fault", case, expected="(finding not listed in KNOWN_FINDINGS.txt)", observed=observed,
                          note=f"failure shape {s} is not a listed finding")
            return ["VIOLATION"]
    return out


def rebuild_sc(case):
    sc = {"name": case["scenario"], "tree": {k: tuple(v) for k, v in case["tree"].items()}, "cmd": case["cmd"],
          "setup": case["setup"]}
    for k, v in list(sc["tree"].items()):
        if v[0] == "f" and isinstance(v[1], str):
            sc["tree"][k] = ("f", v[1].encode("utf-8") if not v[1].startswith("hex:") else bytes.fromhex(v[1][4:]), v[2])
    return sc


def replay_one(ctx, case):
    from . import c04
    sc = rebuild_sc(case)
    plan, pre0 = F.plan_of(sc)
    base = F.run_point({"sc": sc, "k": None})
    pt = c04.find_point(base, case)
    if pt is None:
        ctx.notes.append(f"witness point of {case.get('scenario')} {case.get('op')} no longer exists in the trace")
        return []
    obs = F.run_point({"sc": sc, "k": pt["k"], "mode": pt["mode"], "follow": True})
    ms, _ = F.model_for(sc, plan, pre0, [(pt, obs)])
    return judge(ctx, sc, plan, pre0, pt, obs, ms[0])


def run(ctx):
    ctx.cov["rule"] = ("scenario family as in C04 plus undo; setup `old` records one earlier rename so that lost history is visible; "
                       "SIGKILL before and after EVERY mutating libc call of the real trace and in the middle of every write "
                       "(quick: inside a five-write log line only its first and last write); after each kill the follow-up commands "
                       "plan --dry-run, plan, rename -y run on the leftover state. distinct = (scenario, k, mode)")
    ctx.assumptions += ["a kill is a process kill, not a power loss (durability/fsync not modelled)",
                        "POSIX semantics of the mutating calls as in RModel.Model.Exec.execOp; a killed write(2) has put down a prefix",
                        "the diffy round trip apply(create_patch(new, old), new) = old (undo restores the original content)"]
    try:
        from translate import execflags
        execflags.run()
    except Exception as ex:                      # a translator that cannot parse its source is a broken tie
        ctx.broke("translator", "translate/execflags.py", str(ex))
    ctx.prove("RModel.Props.C11")
    ok, msg = common.cargo_build()
    if not ok:
        ctx.broke("build", "cargo", msg)
        return
    fam = F.family(True)
    if ctx.thorough:
        scs = fam
    else:
        want = ["e3r2nest/rename/old", "e3r2nest/undo/old", "e2r1/redo/old", "e2r1hard/apply/fresh"]
        scs = [s for s in fam if s["name"] in want]
    with Pool(16) as pool:
        if os.path.isdir(CORPUS):
            for fn in sorted(os.listdir(CORPUS)):
                if fn.endswith(".json"):
                    replay_one(ctx, json.load(open(os.path.join(CORPUS, fn)))["case"])
        cur, items = None, []

        def flush():
            if not items:
                return
            sc, plan, pre0 = cur
            ms, reqs = F.model_for(sc, plan, pre0, items)
            ctx.cov["disagreements_checked"] += len(items)
            for (p, o), m in zip(items, ms):
                ctx.case((sc["name"], p["k"], p["mode"]))
                if "setup_error" in o:
                    ctx.broke("machinery", "setup", o["setup_error"])
                    continue
                judge(ctx, sc, plan, pre0, p, o, m)
            items.clear()

        for sc, plan, pre0, base, exp_tree, pt, en, obs in F.campaign(pool, scs, MODES, [None], True,
                                                                      thin_logs=not ctx.thorough, log=common.log):
            if pt is None and obs is None and "setup_error" in base:
                ctx.broke("machinery", "setup", base["setup_error"])
                continue
            if pt is None:
                flush()
                cur = (sc, plan, pre0)
                ms, _ = F.model_for(sc, plan, pre0, [(None, base)])
                if ms[0] is None or F.show(base["groups"]) != ms[0]["ops"]:
                    ctx.broke("correspondence", "fault-free trace", {"scenario": sc["name"],
                              "model": None if ms[0] is None else ms[0]["ops"][-10:], "real": F.show(base["groups"])[-10:]})
                ctx.sample({"scenario": sc["name"], "ops": len(base["groups"]), "raw_calls": base["raw_events"]})
                continue
            items.append((pt, obs))
        flush()


def replay(ctx, path):
    obj = json.load(open(path))
    case = obj["case"]
    ok, msg = common.cargo_build()
    if not ok:
        ctx.broke("build", "cargo", msg)
        return
    if isinstance(case, list):
        print(json.dumps(obj, indent=1)[:3000])
        return
    slugs = replay_one(ctx, case)
    print("replayed:", case.get("scenario"), case.get("op"), case.get("k"), case.get("mode"), "->",
          slugs or "property holds at this point")
