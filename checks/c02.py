"""C02 — Apply does exactly what the plan says and nothing else.

prove       RModel.Props.C02 (content loop = left-to-right spec for every consistent edit list; rename phase algebra)
correspond  (a) `edits`: real apply_plan on one file vs Edits.applyEdits, consistent + malformed/stale edit lists
            (b) `applytree`: real apply_plan on a generated tree and by-construction plan vs Apply.applyPlan
oracle      CLI plan -> apply (direct, and later from the saved file) on generated trees; whole-tree snapshot
            compared with the independent reference interpreter of the plan JSON (checks/oracle.py)
"""
import json
import os

from . import common, gen, oracle
from .common import hexs


def gen_edit_case(rng, malformed):
    """content + edit list; consistent by construction unless `malformed`"""
    words = ["foo", "bar", "é", "日本", "x", "😀", "_", " ", "\n", "baz", "ß"]
    pieces = [rng.choice(words) for _ in range(rng.randint(0, 10))]
    content = "".join(pieces)
    # choose edit spans on piece boundaries
    offs = [0]
    for p in pieces:
        offs.append(offs[-1] + len(p.encode()))
    edits = []
    i = 0
    while i < len(pieces):
        if rng.random() < 0.4:
            j = min(len(pieces), i + rng.randint(0, 2))
            before = "".join(pieces[i:j])
            after = rng.choice(["", "Q", "qux_quux", "é", before + before, "日"])
            edits.append([before, after, offs[i], offs[j]])
            i = max(j, i + 1) if j > i else i + 1
        else:
            i += 1
    kind = "consistent"
    if malformed and edits:
        kind = rng.choice(["reverse", "shift", "stale", "oob", "midchar", "overlap", "swap"])
        e = rng.choice(edits)
        if kind == "reverse":
            edits.reverse()
        elif kind == "shift":
            e[2] += 1; e[3] += 1
        elif kind == "stale":
            e[0] = e[0] + "z"
        elif kind == "oob":
            e[3] = len(content.encode()) + rng.randint(1, 5)
        elif kind == "midchar":
            e[2] = max(0, e[2] - 1)
        elif kind == "overlap":
            edits.append([e[0], "OV", e[2], e[3]])
        elif kind == "swap":
            e[2], e[3] = e[3], e[2]
    elif malformed:
        kind = "noedits"
    fields = ["edits", hexs(content)]
    for b, a, s, e in edits:
        fields += [hexs(b), hexs(a), str(s), str(e)]
    return " ".join(fields), kind, {"content": content, "edits": edits}


def py_spec(content, edits):
    """independent left-to-right splice (oracle for consistent edit lists)"""
    c = content.encode()
    out, pos = [], 0
    for b, a, s, e in edits:
        out.append(c[pos:s]); out.append(a.encode()); pos = e
    out.append(c[pos:])
    return b"".join(out)


def build_plan_for_tree(rng, tree, swords, rwords):
    """by-construction plan: every occurrence of the snake/camel/... rendering in file contents (non-overlapping,
    left to right) and every name component containing the snake rendering."""
    pairs = [(gen.render(s, swords), gen.render(s, rwords)) for s in gen.NAME_STYLES]
    hunks, rens = [], []
    for rel in sorted(tree):
        node = tree[rel]
        if node[0] == "f":
            c = node[1]
            pos = 0
            while pos < len(c):
                hit = None
                for a, b in pairs:
                    if c.startswith(a.encode(), pos):
                        if hit is None or len(a) > len(hit[0]):
                            hit = (a, b)
                if hit:
                    hunks.append((rel, hit[0], hit[1], pos, pos + len(hit[0].encode())))
                    pos += len(hit[0].encode())
                else:
                    pos += 1
        base = os.path.basename(rel)
        for a, b in pairs:
            if a in base:
                newbase = base.replace(a, b, 1)
                kind = "d" if node[0] == "d" else "f"
                rens.append((kind, rel, os.path.join(os.path.dirname(rel), newbase)))
                break
    rng.shuffle(rens)
    return hunks, rens


def perturb_plan(rng, tree, hunks, rens):
    """stale / hostile variants for the malformed stream"""
    kind = rng.choice(["stale_content", "missing_file", "occupied_dest", "dup_rename", "dest_missing_parent", "none"])
    tree = dict(tree)
    hunks, rens = list(hunks), list(rens)
    if kind == "stale_content" and hunks:
        f = rng.choice(hunks)[0]
        n = tree[f]
        tree[f] = ("f", b"XX" + n[1], n[2])
    elif kind == "missing_file" and hunks:
        f = rng.choice(hunks)[0]
        if not any(k.startswith(f + "/") for k in tree):
            del tree[f]
            rens = [r for r in rens if r[1] != f]
    elif kind == "occupied_dest" and rens:
        k, p, q = rng.choice(rens)
        if q not in tree:
            if rng.random() < 0.5:
                tree[q] = ("f", b"occupant\n", 0o644)
            else:
                tree[q] = ("d", 0o755)
                if rng.random() < 0.5:
                    tree[q + "/inner.txt"] = ("f", b"inner\n", 0o644)
    elif kind == "dup_rename" and rens:
        k, p, q = rng.choice(rens)
        rens.append((k, p, q + "2"))
    elif kind == "dest_missing_parent" and rens:
        i = rng.randrange(len(rens))
        k, p, q = rens[i]
        rens[i] = (k, p, os.path.join(os.path.dirname(q), "nodir", os.path.basename(q)))
    return kind, tree, hunks, rens


def plan_to_request(root, snap, plan):
    """applytree request for a real plan JSON on the tree described by `snap`"""
    tree = gen.snap_to_tree(snap)
    hunks = [(oracle.rel(root, m["file"]), m["content"], m.get("replace", ""), m["start"], m["end"])
             for m in plan["matches"]]
    rens = [("d" if r["kind"] == "dir" else "f", oracle.rel(root, r["path"]), oracle.rel(root, r.get("new_path", "")))
            for r in plan["paths"]]
    return " ".join(["applytree"] + gen.wire_tree(tree) + gen.wire_hunks(hunks) + gen.wire_rens(rens))


def cli_case(ctx, rng, idx, from_file, fixed=None):
    if fixed:
        tree, search, repl = fixed
    else:
        swords, rwords = gen.pick_terms(rng)
        if idx % 4 == 1:
            # the replacement is the search term's words run together (FooBar -> Foobar): the Pascal/camel names are
            # renamed by letter case only, which takes apply through its case-sensitivity probe
            swords = swords[:2]
            rwords = ["".join(swords)]
        tree = gen.gen_tree(rng, swords, depth=4, max_entries=14)
        search, repl = gen.render(rng.choice(["snake", "camel", "kebab", "pascal"]), swords), \
            gen.render(rng.choice(["snake", "camel", "kebab"]), rwords)
        if idx % 4 == 1:
            ctx.count("cli:case_only_terms")
        if idx % 6 == 5:
            # a text file with one byte that is not valid UTF-8 AFTER its last occurrence of the term (Latin-1 é):
            # apply either refuses it or must leave that byte alone
            tree["legacy_notes.txt"] = ("f", (gen.render("snake", swords) + " was here, caf\xe9 tail\n").encode("latin-1"), 0o644)
            ctx.count("cli:latin1_file")
    with common.scratch() as d:
        common.materialize(d, tree)
        before = common.snapshot(d)
        rc, out, err = common.cli(["plan", search, repl, "--no-auto-init", "--quiet"], d)
        plan_path = os.path.join(d, ".renamify", "plan.json")
        if rc != 0 or not os.path.exists(plan_path):
            ctx.count("cli:plan_failed")
            return None
        plan = json.load(open(plan_path))
        exp, prob = oracle.expected_tree(before, plan, d)
        case = {"op": "cli", "tree": common.snap_digest(before), "tree_dump": common.tree_dump(before),
                "search": search, "replace": repl, "from_file": from_file,
                "matches": len(plan["matches"]), "renames": len(plan["paths"])}
        nontrivial = len(plan["matches"]) + len(plan["paths"]) > 0
        ctx.case(("cli", idx, search, repl, sorted(tree)), nontrivial)
        ctx.count("cli:renames=%d" % min(len(plan["paths"]), 4))
        ctx.count("cli:nested_renames" if any(
            r1["path"] != r2["path"] and r2["path"].startswith(r1["path"] + "/") for r1 in plan["paths"] for r2 in plan["paths"]) else "cli:flat")
        if prob:
            ctx.count("cli:plan_outside_guard")
            ctx.notes.append(f"plan outside reference guard: {prob}")
            return None
        req = plan_to_request(d, before, plan)
        if from_file:
            saved = os.path.join(d, "saved-plan.json")
            os.rename(plan_path, saved)
            # `saved-plan.json` is part of the user tree from now on
            before2 = common.snapshot(d)
            exp, _ = oracle.expected_tree(before2, plan, d)
            req = plan_to_request(d, before2, plan)
            rc, out, err = common.cli(["apply", saved, "--no-auto-init", "--quiet"], d)
        else:
            rc, out, err = common.cli(["apply", "--no-auto-init", "--quiet"], d)
        after = common.snapshot(d)
        case["rc"] = rc
        case["stderr"] = err.decode("utf-8", "replace")[-300:]
        return case, req, exp, after, rc


def run(ctx):
    ctx.cov["rule"] = ("edits: random multi-byte contents with consistent edit lists plus a malformed stream; "
                       "applytree: generated trees (depth<=4, term in any subset of components, modes, symlinks) with "
                       "by-construction plans plus stale/occupied perturbations, one in five with a replacement that is the term's words run "
                       "together so that camel/Pascal names are renamed by letter case only, one in seven with a text file holding a byte that "
                       "is not valid UTF-8 after its last match; cli: plan->apply (direct and from saved file) "
                       "with whole-tree snapshot vs reference interpreter. non-trivial = at least one edit or rename; "
                       "distinct = distinct request line / (tree, terms)")
    ctx.assumptions += ["POSIX rename/chmod semantics of the local filesystem as modelled in RModel.Model.Fs",
                        "temp names *.<pid>.renamify.tmp do not collide with user files",
                        "no symlinked directory inside a planned path"]
    ctx.prove("RModel.Props.C02")
    ctx.prove("RModel.Props.C02ren")
    ok, msg = common.cargo_build()
    if not ok:
        ctx.broke("build", "cargo", msg)
        return
    rng = ctx.rng
    n_edit = 3000 if ctx.thorough else 600
    n_tree = 1500 if ctx.thorough else 250
    n_cli = 400 if ctx.thorough else 60

    # (a) edits ---------------------------------------------------------------------------------
    reqs, meta = [], []
    for i in range(n_edit):
        r, kind, info = gen_edit_case(rng, malformed=(i % 3 == 2))
        reqs.append(r); meta.append((kind, info))
    res = common.correspond(ctx, "edits: apply_content_edits_with_content vs Edits.applyEdits", reqs)
    for (r, impl, model), (kind, info) in zip(res, meta):
        ctx.case(r, nontrivial=bool(info["edits"]))
        ctx.count("edits:" + kind)
        ctx.count("edits:impl=" + impl.split()[0])
        if kind == "consistent":
            want = "ok " + hexs(py_spec(info["content"], info["edits"]))
            if impl != want:
                ctx.violation("input", {"op": "edits", "request": r, **info}, expected=want, observed=impl,
                              model_prediction=model,
                              note="consistent edit list: file after apply differs from left-to-right substitution")
                return
    ctx.sample({"op": "edits", "request": reqs[0], "impl": res[0][1]})

    # (b) applytree -----------------------------------------------------------------------------
    reqs, meta = [], []
    for i in range(n_tree):
        swords, rwords = gen.pick_terms(rng)
        if i % 5 == 1:
            swords = swords[:2]
            rwords = ["".join(swords)]      # camel / Pascal names change by letter case only
        tree = gen.gen_tree(rng, swords, depth=4, max_entries=12, p_term_name=0.6)
        hunks, rens = build_plan_for_tree(rng, tree, swords, rwords)
        if any(a.lower() == b.lower() and a != b for _, a, b in rens):
            ctx.count("tree:has_case_only_rename")
        kind = "wellformed"
        if i % 7 == 6:
            tree["legacy_notes.txt"] = ("f", (gen.render("snake", swords) + " was here, caf\xe9 tail\n").encode("latin-1"), 0o644)
            hunks, rens = build_plan_for_tree(rng, tree, swords, rwords)
            kind = "latin1"
        if i % 4 == 3:
            kind, tree, hunks, rens = perturb_plan(rng, tree, hunks, rens)
        reqs.append(" ".join(["applytree"] + gen.wire_tree(tree) + gen.wire_hunks(hunks) + gen.wire_rens(rens)))
        meta.append((kind, tree, hunks, rens))
    res = common.correspond(ctx, "applytree: apply_plan on a tree vs Apply.applyPlan", reqs)
    for (r, impl, model), (kind, tree, hunks, rens) in zip(res, meta):
        ctx.case(r, nontrivial=bool(hunks or rens))
        ctx.count("tree:" + kind)
        ctx.count("tree:impl=" + impl.split()[0])
        if kind in ("wellformed", "latin1"):
            # oracle: reference interpretation of the by-construction plan (for a tree with a file that is not valid
            # UTF-8: only when apply reports success — it may refuse, which is C04's subject)
            plan = {"matches": [{"file": f, "content": b, "replace": a, "start": s, "end": e} for f, b, a, s, e in hunks],
                    "paths": [{"kind": "dir" if k == "d" else "file", "path": p, "new_path": q} for k, p, q in rens]}
            snap = gen.tree_to_snap(tree)
            exp, prob = oracle.expected_tree(snap, plan, "/")
            if prob:
                ctx.count("tree:outside_guard")
                continue
            out = impl.split(" ", 1)
            got = gen.parse_wire_tree(out[1] if len(out) > 1 else "")
            if out[0] == "backupfailed":
                # the command reports a failure of STEP 4 (reading an edited file back): what the tree must look like
                # then is C04's subject (since repo commit 6667a82 the renames are rolled back); model and
                # implementation have already been compared on it above
                ctx.count("tree:backupfailed")
                continue
            if kind == "latin1" and out[0] != "ok":
                ctx.count("tree:latin1_refused")
                continue
            if out[0] != "ok" or got != exp:
                ctx.violation("input", {"op": "applytree", "request": r, "tree": common.snap_digest(snap), "plan": plan},
                              expected={"outcome": "ok", "tree_diff": common.snap_diff(exp, got)}, observed=out[0],
                              model_prediction=model.split(" ", 1)[0],
                              note="well-formed plan: tree after apply differs from the reference interpretation")
                return
    ctx.sample({"op": "applytree", "request": reqs[0][:400], "impl": res[0][1][:200]})

    # (c) CLI ------------------------------------------------------------------------------------
    cli_reqs, cli_meta = [], []
    for i in range(n_cli):
        r = cli_case(ctx, rng, i, from_file=(i % 3 == 2))
        if r is None:
            continue
        case, req, exp, after, rc = r
        if rc == 0 and after != exp:
            ctx.violation("input", case, expected=common.snap_diff(exp, after), observed="exit 0",
                          note="apply reported success but the tree differs from the reference interpretation of the plan")
            return
        if rc != 0:
            ctx.count("cli:apply_failed")
            # a failing apply is C04's subject; here only record it
        cli_reqs.append(req); cli_meta.append((case, after, rc))
    if cli_reqs:
        model = common.run_model(cli_reqs)
        ctx.cov["disagreements_checked"] += len(cli_reqs)
        for req, m, (case, after, rc) in zip(cli_reqs, model, cli_meta):
            mo = m.split(" ", 1)
            mtree = gen.parse_wire_tree(mo[1] if len(mo) > 1 else "")
            if (mo[0] == "ok") != (rc == 0) or mtree != after:
                ctx.broke("correspondence", "cli apply vs Apply.applyPlan",
                          {"case": case, "model_outcome": mo[0], "rc": rc, "diff": common.snap_diff(mtree, after)})
                break
        ctx.sample({"op": "cli", **cli_meta[0][0]})


def replay(ctx, path):
    obj = json.load(open(path))
    case = obj.get("case", {})
    ok, msg = common.cargo_build()
    if not ok:
        ctx.broke("build", "cargo", msg)
        return
    if isinstance(case, dict) and case.get("op") == "cli" and "tree_dump" in case:
        r = cli_case(ctx, ctx.rng, 0, case.get("from_file", False),
                     fixed=(common.tree_undump(case["tree_dump"]), case["search"], case["replace"]))
        if r is None:
            print("plan failed or outside the reference guard"); return
        c2, req, exp, after, rc = r
        print("rc", rc, "diff", common.snap_diff(exp, after))
        if rc == 0 and after != exp:
            ctx.violation("input", c2, expected=common.snap_diff(exp, after), observed="exit 0")
    elif isinstance(case, dict) and "request" in case:
        impl = common.run_impl([case["request"]])[0]
        model = common.run_model([case["request"]])[0]
        print("impl :", impl[:300]); print("model:", model[:300])
        exp = obj.get("expected")
        if isinstance(exp, str) and impl != exp:
            ctx.violation(obj["kind"], case, expected=exp, observed=impl, model_prediction=model)
        elif isinstance(exp, dict) and impl.split(" ", 1)[0] != exp.get("outcome", impl.split(" ", 1)[0]):
            ctx.violation(obj["kind"], case, expected=exp, observed=impl.split(" ", 1)[0], model_prediction=model.split(" ", 1)[0])
    else:
        print(json.dumps(obj, indent=1)[:2000])
