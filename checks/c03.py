"""C03 — Every plan is internally consistent with the files it describes.

translate   translate/replace_offsets.py -> Gen/ReplaceOffsets.lean (does the literal planner add the line offset?)
prove       RModel.Props.C03 (findMatches_consistent & corollaries for all byte strings / variant lists; literal planner:
            partial theorem, kernel-evaluated witness, full theorem for file-relative offsets)
correspond  findmatches / isboundary   real build_pattern+find_matches / is_boundary   vs Matcher.findMatches / isBoundary
            planlit                    real create_simple_plan (literal)               vs Hunks.planLiteral Gen.flag
            hunkgeom                   every hunk of real plans (scan_repository_multi in-process and the CLI entry points)
                                       vs Hunks.hunkGeomAt recomputed from (file bytes, start, end, content, replace)
oracle      checks/planoracle.check_plan: every field of every hunk against the bytes on disk, order, disjointness,
            character boundaries, summary counts — for plan / rename --dry-run / search / replace (literal, regex) x
            style, acronym, plural, atomic, exclude options x default / one / several / nested / repeated roots
witnesses   corpus/C03/*.json replayed on the real binary

Findings are recognised mechanically (`classify`): each known defect has a normaliser that undoes exactly that defect in a copy
of the plan; a plan whose problems vanish under the normalisers of LISTED findings prints KNOWN-FINDING, anything else —
including a defect that was repaired and is no longer listed in KNOWN_FINDINGS.txt (replace_line_relative_offsets: d278bf5,
overlapping_roots_duplicate_hunks: 4d2e5a7) coming back — is a VIOLATION with the failing input.
Speed: every differential stream is one harness process and one model process (requests batched over all cases), CLI cases run
in 8 worker threads and are consumed in generation order (deterministic per seed).
"""
import glob
import json
import os

from . import common, gen, gen_c03, planoracle
from .common import hexs, unhex

PROP = "RModel.Props.C03"
SLUG_REL = "replace_line_relative_offsets"
SLUG_ROOT = "replace_file_relative_to_root"
SLUG_LOSSY = "replace_lossy_offsets"
SLUG_DUP = "overlapping_roots_duplicate_hunks"
SLUG_CTX = "invalid_utf8_line_context"


# ------------------------------------------------------------------------------------------------------
# plan acquisition

def tree_to_json(tree):
    return {k: ({"t": "f", "hex": v[1].hex()} if v[0] == "f" else {"t": "d"}) for k, v in tree.items()}


def tree_from_json(j):
    return {k: (("f", bytes.fromhex(v["hex"]), 0o644) if v["t"] == "f" else ("d", 0o755)) for k, v in j.items()}


def file_snapshot(d):
    out = {}
    for dp, dn, fn in os.walk(d):
        if ".renamify" in dn:
            dn.remove(".renamify")
        for f in fn:
            p = os.path.join(dp, f)
            if os.path.isfile(p) and not os.path.islink(p):
                out[p] = open(p, "rb").read()
    return out


def extract_plan(stdout):
    try:
        j = json.loads(stdout.decode("utf-8", "replace"))
    except ValueError:
        return None
    if isinstance(j, dict) and "matches" not in j and isinstance(j.get("plan"), dict):
        j = j["plan"]
    return j if isinstance(j, dict) and "matches" in j else None


def run_cli_plan(d, case):
    """case: {entry, argv}.  Returns (plan or None, status) where status in ok / panic / error"""
    rc, out, err = common.cli(case["argv"], d)
    if rc == 101 or b"panicked at" in err:
        return None, "panic", err
    if rc != 0:
        return None, "error", err
    if case.get("plan_file"):
        p = os.path.join(d, ".renamify", "plan.json")
        if not os.path.exists(p):
            return None, "error", err
        return json.load(open(p)), "ok", out
    plan = extract_plan(out)
    return plan, ("ok" if plan is not None else "error"), err


# ------------------------------------------------------------------------------------------------------
# classification of oracle problems against the listed findings (mechanical, model-free)

def rebase_literal(plan, cwd, files):
    """what the plan would be with file-relative offsets into the lossily decoded text (str::lines geometry)"""
    out = json.loads(json.dumps(plan))
    virt = {}
    for m in out["matches"]:
        path = planoracle.resolve(cwd, m["file"])
        data = files.get(path)
        if data is None:
            return None, None
        v = virt.setdefault(path, planoracle.lossy(data).encode())
        off, n = 0, m["line"] - 1
        while n > 0:
            k = v.find(b"\n", off)
            if k < 0:
                return None, None
            off = k + 1
            n -= 1
        ln = m["end"] - m["start"]
        m["start"] = off + m["byte_offset"]
        m["end"] = m["start"] + ln
    return out, virt


def roots_overlap(cwd, roots):
    absr = [os.path.normpath(os.path.join(cwd, r)) for r in roots]
    return any(i != j and (a == b or b.startswith(a.rstrip("/") + "/")) for i, a in enumerate(absr) for j, b in enumerate(absr))


def classify(ctx, plan, probs, case, cwd, files):
    """returns (known slugs, remaining problems).  Each listed finding has a normaliser that undoes exactly that
    defect in a copy of the plan; a problem list is attributed to listed findings iff the normalised plan is clean."""
    known = []
    entry = case["entry"]
    roots = case.get("roots") or []
    relax = set()
    plan = json.loads(json.dumps(plan))

    def recheck(fs=files):
        return [p for p in planoracle.check_plan(plan, cwd, fs) if p["clause"] not in relax]

    for _ in range(4):
        if not probs:
            break
        if SLUG_CTX not in known and not entry.startswith("replace") and \
                all(p["clause"] in ("char_offset", "line_after") and p["hunk"] is not None for p in probs):
            # char_offset / line_after computed by applying the RAW byte column to the lossily decoded line: only where
            # invalid UTF-8 stands in front of the match on its line
            def invalid_before(m):
                data = files.get(planoracle.resolve(cwd, m["file"]))
                if data is None:
                    return False
                ls = data.rfind(b"\n", 0, m["start"]) + 1
                return not planoracle.is_valid_utf8(data[ls:m["start"]])
            if all(invalid_before(plan["matches"][p["hunk"]]) for p in probs):
                known.append(SLUG_CTX)
                probs = []
                continue
        if SLUG_DUP not in known and any(p["clause"] == "duplicate" for p in probs) and roots_overlap(cwd, roots):
            # a file reachable from two roots is planned once per root: drop exact repeats and judge the rest
            known.append(SLUG_DUP)
            seen, keep = set(), []
            for m in plan["matches"]:
                key = (m["file"], m["start"], m["end"], m["line"])
                if key not in seen:
                    seen.add(key)
                    keep.append(m)
            plan["matches"] = keep
            relax |= {"stats", "stats_files"}
            probs = recheck()
            continue
        if entry.startswith("replace") and SLUG_ROOT not in known and any(p["clause"] == "file" for p in probs) \
                and roots and roots[0] not in (".", ""):
            alt = os.path.join(cwd, roots[0])
            base = alt if os.path.isdir(alt) else os.path.dirname(alt)

            def relocate(f):
                """where a path recorded relative to the first root really is (None: nowhere)"""
                if os.path.isfile(planoracle.resolve(cwd, f)) and f != "":
                    return f                      # reachable as recorded (a file below another root)
                cand = os.path.join(base, f) if os.path.isdir(alt) else alt
                return cand if os.path.isfile(cand) else None
            moved = [relocate(m["file"]) for m in plan["matches"]]
            if all(x is not None for x in moved):
                known.append(SLUG_ROOT)
                # go on with every hunk at the file it was computed from (a file root records the empty path)
                for m, x in zip(plan["matches"], moved):
                    m["file"] = x
                probs = recheck()
                continue
        if entry.startswith("replace") and SLUG_REL not in known and SLUG_LOSSY not in known:
            rb, virt = rebase_literal(plan, cwd, files)
            if rb is not None:
                vfiles = dict(files)
                vfiles.update(virt)
                moved = any(a["start"] != b["start"] for a, b in zip(plan["matches"], rb["matches"]))
                line1_fixed = all(a["start"] == b["start"] for a, b in zip(plan["matches"], rb["matches"]) if a["line"] == 1)
                lossy_shift = any(virt[p] != files[p] for p in virt)
                plan_save, plan = plan, rb
                clean = not recheck(vfiles)
                if clean and moved and line1_fixed:
                    known.append(SLUG_REL)
                if clean and lossy_shift and recheck(files):
                    known.append(SLUG_LOSSY)
                if clean and (SLUG_REL in known or SLUG_LOSSY in known):
                    probs = []
                    continue
                plan = plan_save
        break
    return known, probs


# ------------------------------------------------------------------------------------------------------
# correspondence of hunk geometry on a real plan

def geom_requests(plan, cwd, files):
    """one `hunkgeoms` request per file of the plan (all its hunks), with the expected items from the plan JSON"""
    by = {}
    for m in plan["matches"]:
        path = planoracle.resolve(cwd, m["file"])
        if files.get(path) is not None:
            by.setdefault(path, []).append(m)
    reqs, want = [], []
    for path, ms in by.items():
        f = ["hunkgeoms", hexs(files[path])]
        w = []
        for m in ms:
            f += [str(m["start"]), str(m["end"]), hexs(m["content"]), hexs(m.get("replace", ""))]
            w.append(":".join([str(m["line"]), str(m["byte_offset"]), str(m["char_offset"]), str(m["start"]), str(m["end"]),
                               hexs(m["content"]), hexs(m.get("replace", "")), hexs(m.get("line_before", "")),
                               hexs(m.get("line_after", ""))]))
        reqs.append(" ".join(f))
        want.append(w)
    return reqs, want


def check_geom_batch(ctx, name, batch):
    """batch: list of (describe, reqs, want).  One model process for everything."""
    flat = [(d, r, w) for d, reqs, want in batch for r, w in zip(reqs, want)]
    if not flat:
        return True
    got = common.run_model([r for _, r, _ in flat])
    for (describe, r, w), g in zip(flat, got):
        items = g[2:].split(" ; ") if g.startswith("G ") else []
        ctx.cov["disagreements_checked"] += len(w)
        if len(items) != len(w):
            ctx.broke("correspondence", name, {"case": describe, "request": r[:300], "model": g[:300]})
            return False
        for wi, gi in zip(w, items):
            f = gi.split()
            ctx.count("geom:" + (f[1] if len(f) > 1 else f[0]))
            if f[0] != wi:
                ctx.broke("correspondence", name, {"case": describe, "impl(plan json)": wi, "model": gi})
                return False
    return True


def check_geom(ctx, name, plan, cwd, files, describe):
    reqs, want = geom_requests(plan, cwd, files)
    return check_geom_batch(ctx, name, [(describe, reqs, want)])


# ------------------------------------------------------------------------------------------------------
# CLI cases

ENTRY = ["plan", "plan_file", "rename", "search", "replace_lit", "replace_re"]


def gen_cli_case(rng, idx, malformed=False, force_entry=None, force_roots=None):
    swords, rwords = gen.pick_terms(rng)
    entry = force_entry or ENTRY[idx % len(ENTRY)]
    tree = gen_c03.gen_tree(rng, swords, malformed=malformed, names_with_term=0.2)
    search = gen.render(rng.choice(["snake", "camel", "kebab", "pascal", "title"]), swords)
    repl = gen.render(rng.choice(["snake", "camel", "kebab"]), rwords)
    dirs = sorted(k for k, v in tree.items() if v[0] == "d")
    fils = sorted(k for k, v in tree.items() if v[0] == "f")
    r = rng.random()
    if force_roots is not None:
        roots = force_roots
    elif r < 0.45 or not dirs:
        roots = []
    elif r < 0.6:
        roots = [rng.choice(dirs + ["."])]
    elif r < 0.7:
        roots = [rng.choice(fils)]
    elif r < 0.82 and len(dirs) >= 2:
        a, b = rng.sample(dirs, 2)
        roots = [a, b]                                # may be nested (sub, sub/deep)
    elif r < 0.9:
        roots = [".", rng.choice(dirs)]               # nested
    else:
        x = rng.choice(dirs)
        roots = [x, x]                                # repeated
    opts = []
    if entry in ("plan", "plan_file", "rename", "search"):
        k = rng.random()
        if k < 0.2:
            opts += ["--only-styles", ",".join(rng.sample(["snake", "camel", "kebab", "pascal", "screaming-snake", "title", "dot"], rng.randint(1, 3)))]
        elif k < 0.35:
            opts += ["--include-styles", rng.choice(["title", "dot", "lower-flat", "sentence", "title,dot"])]
        elif k < 0.45:
            opts += ["--exclude-styles", rng.choice(["kebab", "camel", "train,screaming-train"])]
        if rng.random() < 0.15:
            opts += ["--no-acronyms"]
        if rng.random() < 0.1:
            opts += rng.choice([["--include-acronyms", "FOO,BAR"], ["--exclude-acronyms", "API,ID,URL"],
                                ["--only-acronyms", "FOO,ID"], ["--include-acronyms", "QUX", "--exclude-acronyms", "HTTP"]])
        if rng.random() < 0.15:
            opts += ["--no-plural-variants"]
        if entry != "search" and rng.random() < 0.12:
            opts += [rng.choice(["--atomic-identifiers", "--atomic-search", "--atomic-replace"])]
        if rng.random() < 0.1:
            opts += ["--ignore-ambiguous"]
        if entry != "search" and rng.random() < 0.15:
            opts += ["--exclude-match", gen.render(rng.choice(["camel", "pascal", "screaming_snake"]), swords)]
    if rng.random() < 0.15:
        opts += ["--exclude-matching-lines", rng.choice(["^\\s*//", "the", "value$"])]
    if rng.random() < 0.1:
        opts += ["--include", rng.choice(["*.txt", "sub/**", "**/*.rs"])]
    elif rng.random() < 0.1:
        opts += ["--exclude", rng.choice(["*.md", "sub/deep/**", "lib"])]
    if entry == "plan":
        argv = ["plan", search, repl] + roots + opts + ["--dry-run", "--output", "json"]
    elif entry == "plan_file":
        argv = ["plan", search, repl] + roots + opts + ["--quiet"]
    elif entry == "rename":
        argv = ["rename", search, repl] + roots + opts + ["--dry-run", "--output", "json"]
    elif entry == "search":
        argv = ["search", search] + roots + opts + ["--output", "json"]
    elif entry == "replace_lit":
        pat = rng.choice([swords[0], search, swords[0][:2], "value", "the "])
        argv = ["replace", "--no-regex", pat, repl] + roots + opts + ["--dry-run", "--output", "json"]
    else:
        pat = rng.choice([swords[0] + "+", "(" + swords[0] + ")_?(" + swords[1] + ")", "\\b" + swords[0] + "\\w*", "[a-z]+_" + swords[1], "é"])
        argv = ["replace", pat, rng.choice([repl, "$2_$1", "X"])] + roots + opts + ["--dry-run", "--output", "json"]
    return {"entry": entry, "tree": tree_to_json(tree), "argv": argv + ["--no-auto-init"], "roots": roots,
            "plan_file": entry == "plan_file"}


def eval_cli_case(ctx, case, geom=True):
    """run one CLI case (no shared state: safe to call from worker threads);
    returns (status, known slugs, remaining problems, plan, geometry batch entry or None)"""
    tree = tree_from_json(case["tree"])
    with common.scratch() as d:
        common.materialize(d, tree)
        files = file_snapshot(d)
        plan, status, info = run_cli_plan(d, case)
        if plan is None:
            return status, [], [], None, None
        probs = planoracle.check_plan(plan, d, files)
        known, rest = classify(ctx, plan, probs, case, d, files)
        g = None
        if geom and not rest and not case["entry"].startswith("replace"):
            reqs, want = geom_requests(plan, d, files)
            g = ({"argv": case["argv"], "tree": case["tree"]}, reqs, want)
        for p in rest:
            p["detail"] = p["detail"].replace(d, "<root>")
        return status, known, rest, plan, g


def scan_batch(cases, root):
    """materialise every tree below `root`/<i>, run all `scanplan` requests in ONE harness process.
    cases: list of dicts with tree/search/replace/styles.  Returns list of (dir, files, output fields)."""
    reqs, dirs, snaps = [], [], []
    for i, c in enumerate(cases):
        d = os.path.join(root, "t%d" % i)
        os.makedirs(d)
        common.materialize(d, c["tree"])
        dirs.append(d)
        snaps.append(file_snapshot(d))
        reqs.append(f"scanplan {hexs(d)} {hexs(c['search'])} {hexs(c['replace'])} {c['styles']}")
    outs = common.run_impl(reqs) if reqs else []
    return [(d, f, o.split()) for d, f, o in zip(dirs, snaps, outs)]


# ------------------------------------------------------------------------------------------------------

def run_translator(ctx):
    """regenerate Gen/ReplaceOffsets.lean and Gen/LineAfterColumn.lean from scanner.rs; the extracted flags are recorded in
    ctx.cov["extracted"]; returns the replace-offsets flag"""
    import re
    flags = ctx.cov.setdefault("extracted", {})
    for mod, gen_file in (("replace_offsets", "ReplaceOffsets"), ("line_after_column", "LineAfterColumn")):
        try:
            m = __import__("translate." + mod, fromlist=["run"])
            res = m.run()
            ctx.count(f"translator:{mod}:" + ("changed" if any(c for _, c in res) else "unchanged"))
            text = open(os.path.join(common.LEAN, f"RModel/Gen/{gen_file}.lean")).read()
            for name, val in re.findall(r"def (\w+) : Bool := (true|false)", text):
                flags[name] = val == "true"
        except Exception as ex:   # noqa: BLE001 — a translator that cannot parse its source is a broken tie
            ctx.broke("translator", f"translate/{mod}.py", repr(ex))
    return flags.get("replaceOffsetsFileRelative")


def matcher_oracle(content, variants, line):
    """independent check of one findmatches result line"""
    out = []
    prev = 0
    for item in line.split()[1:]:
        s, e, ln, col, var, text = item.split(":")
        s, e, ln, col = int(s), int(e), int(ln), int(col)
        t = unhex(text)
        if not (prev <= s and s <= e <= len(content)):
            return f"span {s}..{e} out of order / range (previous end {prev})"
        if variants and s == e:
            return f"empty match at {s}"
        if content[s:e] != t or (variants and t not in variants):
            return f"text {t!r} at {s}..{e} is not the file text / not a variant"
        if unhex(var) != t:
            return f"variant {unhex(var)!r} != text {t!r}"
        if ln != content[:s].count(b"\n") + 1 or col != s - (content.rfind(b"\n", 0, s) + 1):
            return f"line/column {ln}/{col} wrong for offset {s}"
        for off in (s, e):
            if off < len(content) and 0x80 <= content[off] < 0xC0:
                return f"offset {off} inside a character"
        prev = e
    return None


def run(ctx):
    ctx.cov["rule"] = ("findmatches: random concatenations of 42 atoms (identifiers in 8 styles, separators, newlines, CRLF, multi-byte, "
                       "regex metacharacters) x 0-6 variants from a 31-entry pool; isboundary: all span kinds incl. out-of-range; planlit: "
                       "generated files (LF/CRLF/mixed/lone CR/no final newline/empty/10^4-byte lines/invalid UTF-8) x literal patterns; "
                       "scanplan: generated trees through scan_repository_multi in-process; cli: six planner entry points x style/acronym/"
                       "plural/atomic/exclude options x default/one/file/two/nested/repeated roots.  non-trivial = at least one match; "
                       "distinct = distinct request / (tree, argv)")
    ctx.assumptions += ["regex / aho-corasick leftmost-first semantics as modelled in RModel.Model.Matcher (validated differentially)",
                        "user regexes of `replace` are not modelled: regex plans are checked by the oracle only",
                        "variants are non-empty (the variant table has no empty key)",
                        "planner panics (C16) are counted and skipped; since ac203f2 invalid UTF-8 in front of a match no longer panics and is in the malformed stream"]
    import time as _t
    t0 = _t.time()
    ph = ctx.cov.setdefault("phase_seconds", {})

    def mark(name, _s=[t0]):
        now = _t.time(); ph[name] = round(now - _s[0], 1); _s[0] = now
    flag = run_translator(ctx)
    ctx.cov["replace_offsets_file_relative(extracted)"] = flag
    ctx.prove(PROP)
    ctx.prove("RModel.Props.Compose")      # incl. exact_pass_models_agree: the two hand-written models of pattern.rs are one function
    ok, msg = common.cargo_build()
    if not ok:
        ctx.broke("build", "cargo", msg)
        return
    mark("translate+prove+build")
    rng = ctx.rng
    T = ctx.thorough

    # ---- corpus / witnesses first ----------------------------------------------------------------------
    for path in sorted(glob.glob(os.path.join(common.ROOT, "corpus", "C03", "*.json"))):
        replay_file(ctx, path, quiet=True)

    mark("corpus")
    # ---- (a) matcher ----------------------------------------------------------------------------------
    reqs, meta = [], []
    for _ in range(12000 if T else 2500):
        c, vs = gen_c03.gen_match_case(rng)
        if any(len(v) == 0 for v in vs):
            continue
        reqs.append(" ".join(["findmatches", hexs(c)] + [hexs(v) for v in vs]))
        meta.append((c, vs))
    res = common.correspond(ctx, "findmatches: build_pattern+find_matches vs Matcher.findMatches", reqs)
    for (r, impl, model), (c, vs) in zip(res, meta):
        n = len(impl.split()) - 1
        ctx.case(r, nontrivial=n > 0)
        ctx.count("match:n=%d" % min(n, 4))
        bad = matcher_oracle(c, vs, impl)
        if bad:
            ctx.violation("input", {"op": "findmatches", "request": r, "content": c, "variants": vs}, expected="consistent matches",
                          observed=impl, model_prediction=model, note=bad)
            return
    ctx.sample({"op": "findmatches", "request": reqs[7], "impl": res[7][1]})
    reqs = []
    for _ in range(8000 if T else 2000):
        c, s, e = gen_c03.gen_boundary_case(rng)
        reqs.append(f"isboundary {hexs(c)} {s} {e}")
    res = common.correspond(ctx, "isboundary: is_boundary vs Matcher.isBoundary", reqs)
    for r, impl, model in res:
        ctx.case(r)
        ctx.count("boundary:" + impl.split()[1])

    mark("matcher")
    # ---- (b) literal planner --------------------------------------------------------------------------
    reqs, meta = [], []
    for i in range(3000 if T else 600):
        swords, rwords = gen.pick_terms(rng)
        data, kind = gen_c03.gen_content(rng, swords)
        if i % 4 == 3 and data:
            data = gen_c03.add_invalid_utf8(rng, data)
            if rng.random() < 0.5:
                data = b"\xff " + data           # invalid byte BEFORE matches: fine for the literal planner
            kind += "+invalid"
        pat = rng.choice([swords[0], gen.render("snake", swords), swords[0][:2], "value", "é", "the ", " "])
        if len(data) > 4000 and pat in ("the ", " ", "value", swords[0][:2]):
            pat = swords[0]            # a frequent pattern on a long line: thousands of hunks, each quoting the whole line twice
        repl = rng.choice([gen.render("snake", rwords), "", "X", pat + pat, "日本"])
        reqs.append(f"planlit {hexs(data)} {hexs(pat)} {hexs(repl)}")
        meta.append((data, pat, repl, kind))
    res = common.correspond(ctx, "planlit: create_simple_plan(literal) vs Hunks.planLiteral Gen.replaceOffsetsFileRelative", reqs)
    seen_rel = seen_lossy = False
    for (r, impl, model), (data, pat, repl, kind) in zip(res, meta):
        hs = impl.split()[1:]
        ctx.case(r, nontrivial=bool(hs))
        ctx.count("planlit:" + kind)
        if impl.startswith("p panic") or impl.startswith("p err"):
            ctx.count("planlit:failed")
            continue
        for h in hs:
            f = h.split(":")
            line, s, e, text = int(f[0]), int(f[3]), int(f[4]), unhex(f[5])
            if data[s:e] == text:
                continue
            # not the file's text at the recorded offsets: attribute to the listed findings, mechanically
            v = planoracle.lossy(data).encode()
            off = 0
            for _ in range(line - 1):
                off = v.find(b"\n", off) + 1
            col = int(f[1])
            found = v[off + col: off + col + len(text)] == text and e == s + len(text)
            if found and s == col and line >= 2:
                seen_rel = True          # line-relative offsets on a later line
                continue
            if found and v != data and s == (col if line == 1 else off + col):
                seen_lossy = True        # offsets into the lossily decoded text of a file that is not valid UTF-8
                continue
            ctx.violation("input", {"op": "planlit", "request": r, "file": data, "pattern": pat}, observed=h,
                          expected="content == file[start:end]", model_prediction=model,
                          note="literal planner: recorded text is not at the recorded offsets, and not in the way the listed findings describe")
            return
    for hit, slug in ((seen_rel, SLUG_REL), (seen_lossy, SLUG_LOSSY)):
        if hit and not ctx.known(slug):
            ctx.violation("input", {"op": "planlit", "finding": slug}, expected="content == file[start:end]",
                          note=f"literal planner shows defect `{slug}`, which is not listed in KNOWN_FINDINGS.txt")
            return
    ctx.sample({"op": "planlit", "request": reqs[1][:300], "impl": res[1][1][:300]})

    mark("planlit")
    # ---- (c) in-process plans (one harness process, one model process) ------------------------------------
    n_scan = 1200 if T else 250
    cases = []
    for i in range(n_scan):
        swords, rwords = gen.pick_terms(rng)
        malformed = i % 5 == 4
        cases.append({"tree": gen_c03.gen_tree(rng, swords, malformed=malformed), "malformed": malformed,
                      "search": gen.render(rng.choice(["snake", "camel", "kebab", "pascal"]), swords),
                      "replace": gen.render(rng.choice(["snake", "camel", "kebab"]), rwords),
                      "styles": "-" if rng.random() < 0.7 else
                      ",".join(rng.sample(["snake", "camel", "kebab", "pascal", "title", "dot", "screaming_snake"], 3))})
    panics = 0
    batch = []
    scan_known = set()
    with common.scratch() as root:
        for i, (c, (d, files, out)) in enumerate(zip(cases, scan_batch(cases, root))):
            if out[1] != "ok":
                panics += out[1] == "panic"
                ctx.count("scan:" + out[1])
                continue
            plan = json.loads(unhex(out[2]))
            n = len(plan["matches"])
            ctx.case(("scan", i, c["search"], c["replace"], c["styles"], sorted(c["tree"])), nontrivial=n > 0)
            ctx.count("scan:matches=%s" % ("0" if n == 0 else "1-3" if n < 4 else "4-9" if n < 10 else "10+"))
            ctx.count("scan:malformed" if c["malformed"] else "scan:wellformed")
            describe = {"op": "cli", "entry": "scanplan", "tree": tree_to_json(c["tree"]), "search": c["search"],
                        "replace": c["replace"], "styles": c["styles"]}
            probs = planoracle.check_plan(plan, d, files)
            known, probs = classify(ctx, plan, probs, {"entry": "scanplan", "roots": []}, d, files)
            for k in known:
                scan_known.add(k)
                ctx.count("scan:known:" + k)
                if (ctx.pid, k) not in ctx.findings and not probs:
                    probs = [{"clause": k, "hunk": None, "detail": "finding `%s` reproduces but is not listed in KNOWN_FINDINGS.txt" % k}]
            if probs:
                for p in probs:
                    p["detail"] = p["detail"].replace(d, "<root>")
                ctx.violation("input", describe, expected="plan consistent with the files", observed=probs[:5],
                              note="scan_repository_multi: " + probs[0]["detail"])
                return
            reqs_g, want_g = geom_requests(plan, d, files)
            batch.append((describe, reqs_g, want_g))
    check_geom_batch(ctx, "hunkgeom: scan_repository_multi plan vs Hunks.hunkGeomAt", batch)
    for k in sorted(scan_known):
        ctx.known(k)
    ctx.cov["planner_panics_skipped(C16)"] = panics

    mark("scanplan")
    # ---- (d) CLI entry points (worker threads run the binary; results are consumed in generation order) -----
    from concurrent.futures import ThreadPoolExecutor
    n_cli = 900 if T else 210
    cli_cases = [gen_cli_case(rng, i, malformed=(i % 7 == 6)) for i in range(n_cli)]
    with ThreadPoolExecutor(max_workers=8) as pool:
        results = list(pool.map(lambda c: eval_cli_case(ctx, c), cli_cases))
    seen = set()
    batch = []
    for i, (case, (status, known, rest, plan, g)) in enumerate(zip(cli_cases, results)):
        n = len(plan["matches"]) if plan else 0
        ctx.case(("cli", i, case["argv"], sorted(case["tree"])), nontrivial=n > 0)
        ctx.count(f"cli:{case['entry']}:{status}")
        ctx.count("cli:roots=" + ("default" if not case["roots"] else "one" if len(case["roots"]) == 1 else
                                  "repeated" if case["roots"][0] == case["roots"][1] else "two"))
        for k in known:
            seen.add(k)
            ctx.count("cli:known:" + k)
        unlisted = [k for k in known if (ctx.pid, k) not in ctx.findings]
        if unlisted and not rest:
            rest = [{"clause": k, "hunk": None, "detail": "plan is inconsistent in the way of finding `%s`, which is not listed in "
                     "KNOWN_FINDINGS.txt (a repaired defect is back, or a new one)" % k} for k in unlisted]
        if rest:
            ctx.violation("input", {"op": "cli", **case}, expected="plan consistent with the files", observed=rest[:6],
                          note=f"{case['entry']}: " + rest[0]["detail"])
            return
        if g:
            batch.append(g)
        if i < 3 and plan:
            ctx.sample({"op": "cli", "argv": case["argv"], "matches": n})
    check_geom_batch(ctx, "hunkgeom: plan JSON of the CLI vs Hunks.hunkGeomAt", batch)
    for k in sorted(seen):
        ctx.known(k)
    mark("cli")


# ------------------------------------------------------------------------------------------------------

def replay_file(ctx, path, quiet=False):
    obj = json.load(open(path))
    case = obj.get("case", {})
    if isinstance(case, dict) and case.get("op") == "cli" and "argv" in case:
        status, known, rest, plan, _ = eval_cli_case(ctx, case, geom=False)
        ctx.case(("corpus", os.path.basename(path)))
        ctx.count("corpus:" + os.path.basename(path) + ":" + (",".join(known) or ("clean" if not rest else "violation")))
        if not quiet:
            print("status:", status, "known:", known, "problems:", json.dumps(rest, default=str)[:1500])
        for k in known:
            if not ctx.known(k) and not rest:
                rest = [{"clause": k, "hunk": None, "detail": "finding `%s` reproduces but is not listed in KNOWN_FINDINGS.txt" % k}]
        if rest:
            ctx.violation("input", case, expected="plan consistent with the files", observed=rest[:6],
                          note=f"{case.get('entry')}: " + rest[0]["detail"])
        return
    if isinstance(case, dict) and "request" in case:
        impl = common.run_impl([case["request"]])[0]
        model = common.run_model([case["request"]])[0]
        if not quiet:
            print("impl :", impl[:400]); print("model:", model[:400])
        if case.get("op") == "findmatches":
            bad = matcher_oracle(bytes.fromhex(case["content_hex"]) if "content_hex" in case else unhex(case["request"].split()[1]),
                                 [unhex(x) for x in case["request"].split()[2:]], impl)
            if bad:
                ctx.violation("input", case, observed=impl, model_prediction=model, note=bad)
        elif impl != model:
            ctx.broke("correspondence", "replay", {"request": case["request"][:400], "impl": impl[:300], "model": model[:300]})
        return
    if not quiet:
        print(json.dumps(obj, indent=1)[:3000])


def replay(ctx, path):
    ok, msg = common.cargo_build()
    if not ok:
        ctx.broke("build", "cargo", msg)
        return
    common.lean_build([])
    replay_file(ctx, path)
