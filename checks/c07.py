"""C07 — Only the term changes: match soundness and locality.

prove       RModel.Props.C07 (compound_locality_partial, match_soundness, near_miss_untouched, witnesses)
correspond  real find_compound_variants / IdentifierExtractor::find_all / is_boundary / find_enhanced_matches vs
            Compound.findCompound / findAll / isBoundary / findEnhanced:
            the by-construction identifier family (exhaustive, see `family()`), the near-miss family, random
            identifiers and multi-line contents, and a hostile stream
oracle      by construction, independent of model and code: an identifier is assembled as
            lead + prefix-words + TERM + suffix-words (+ trailing / doubled separators, digits, plural) and the only
            acceptable outcomes are "untouched" or the same assembly with the replacement in the term's place
            (byte for byte outside the term's span); near-miss identifiers must stay untouched.  The same for dotted paths of
            2..4 segments whose segments start / end with '-' or '_' and mix separator kinds (Dot style not enabled).  Evaluated on
            find_compound_variants, on find_enhanced_matches and end-to-end (scan_repository + apply_plan on a one-file
            tree, and the CLI binary on a sample).  Every failure must be one of the finding classes still listed in
            KNOWN_FINDINGS.txt *and* equal that class's predicted output, otherwise it is a VIOLATION.  The three classes
            found on the pinned tree (doubled separators collapsed, leading underscores lost, hump identifier with an
            underscore re-joined) were repaired by commit 70a22d6 and are no longer listed: their predicted outputs are kept
            only to name the class when the old behaviour returns (which is then a VIOLATION).
"""
import itertools
import json
import os
import re

from . import common, gen
from .common import hexs, unhex

SEP = {"snake": "_", "kebab": "-", "screaming_snake": "_", "train": "-", "dot": ".", "camel": "", "pascal": ""}
FAMILY_STYLES = ["snake", "kebab", "screaming_snake", "train", "camel", "pascal", "dot"]
HUMP = ("camel", "pascal")
LIB_STYLES = "snake,kebab,camel,pascal,screaming_snake,train"          # scanner.rs default when PlanOptions.styles = None
CLI_STYLES = ",".join(gen.DEFAULT_STYLES)                               # Style::default_styles(), what the CLI passes
CLI_DOT = CLI_STYLES + ",dot"
CONTEXTS = [("let ", " = 1;"), ("\"", "\""), ("(", ")"), ("", ""), ("a = ", ", b"), ("use x::", ";"), ("/", "/")]
PRE_WORDS = {0: [], 1: ["my"], 2: ["get", "my"]}
SUF_WORDS = {0: [], 1: ["item"], 2: ["item", "old"]}
TERMS = {2: ["foo", "bar"], 3: ["foo", "bar", "baz"]}
REPLS = {1: ["widget"], 2: ["lemon", "tiger"], 3: ["lemon", "tiger", "widget"]}
AFFIX = ["my", "get", "old", "item", "user", "the"] + gen.VOCAB


def cap(w):
    return w[:1].upper() + w[1:].lower()


def piece(st, w, first):
    if st in ("snake", "kebab", "dot"):
        return w.lower()
    if st == "screaming_snake":
        return w.upper()
    if st in ("train", "pascal"):
        return cap(w)
    if st == "camel":
        return w.lower() if first else cap(w)
    raise ValueError(st)


def assemble(st, lead, pre, mid, suf, dbl="none", trail=""):
    """the identifier by construction; `mid` is the term (or the replacement) as a word list"""
    sep = SEP[st]
    words = pre + mid + suf
    ps = [piece(st, w, i == 0) for i, w in enumerate(words)]
    a, b, c = ps[:len(pre)], ps[len(pre):len(pre) + len(mid)], ps[len(pre) + len(mid):]
    out = sep.join(b)
    if a:
        out = sep.join(a) + (sep * 2 if dbl == "pre" else sep) + out
    if c:
        out = out + (sep * 2 if dbl == "suf" else sep) + sep.join(c)
    return lead + out + trail


def ref_words(ident):
    """reference word splitter = the boundary rules of the tokenizer for acronym-free text: separators, lower->UPPER,
    digit->UPPER, and the last capital of an UPPER run that is followed by lower case (XFoo -> X|Foo).  letter->digit and
    digit->lower do NOT start a word (foo2 / x2foo are one word)."""
    words = []
    for chunk in re.split(r"[_\-. ]+", ident):
        if not chunk:
            continue
        cur = chunk[0]
        for i in range(1, len(chunk)):
            p, c = chunk[i - 1], chunk[i]
            nxt = chunk[i + 1] if i + 1 < len(chunk) else ""
            split = (p.islower() and c.isupper()) or (p.isdigit() and c.isupper()) or \
                    (p.isupper() and c.isupper() and nxt.islower())
            if split:
                words.append(cur)
                cur = c
            else:
                cur += c
        words.append(cur)
    return [w.lower() for w in words]


def has_word_sequence(ident, term):
    ws, t = ref_words(ident), [w.lower() for w in term]
    return any(ws[i:i + len(t)] == t for i in range(len(ws) - len(t) + 1))


class Case:
    __slots__ = ("st", "lead", "pre", "suf", "dbl", "trail", "term", "repl", "variant", "ident", "expected", "styles",
                 "search", "replace", "near", "outer", "mid_words", "dot")

    def local(self, obs):
        """locality by construction: everything outside the term's span is byte-identical and the span now holds the
        replacement's words in some rendering (which rendering is C06's business)"""
        P, S = self.outer
        if not (obs.startswith(P) and obs.endswith(S) and len(obs) >= len(P) + len(S)):
            return False
        mid = obs[len(P):len(obs) - len(S)]
        if not mid or mid[0] in "_-. " or mid[-1] in "_-. ":
            return False
        norm = "".join(ch for ch in mid if ch not in "_-. ").lower()
        want = "".join(self.mid_words).lower()
        if self.variant == "plural":
            base = "".join(self.repl).lower()
            return norm in (base + "s", base + "es", base)
        return norm == want

    def __init__(self, st, lead, pre, suf, dbl, trail, term, repl, variant="plain", typed=("snake", "snake")):
        self.st, self.lead, self.pre, self.suf, self.dbl, self.trail = st, lead, list(pre), list(suf), dbl, trail
        self.term, self.repl, self.variant, self.near = list(term), list(repl), variant, False
        self.dot = None
        pre, suf, t, r = list(pre), list(suf), list(term), list(repl)
        if variant == "digit_suffix_word":
            suf = ["2"] + suf
        elif variant == "digit_prefix_word":
            pre = pre + ["v2"]
        elif variant == "digit_glued":
            t, r = t[:-1] + [t[-1] + "2"], r[:-1] + [r[-1] + "2"]
        elif variant == "plural":
            t, r = t[:-1] + [t[-1] + "s"], r[:-1] + [r[-1] + "s"]
        self.ident = assemble(st, lead, pre, t, suf, dbl, trail)
        self.expected = assemble(st, lead, pre, r, suf, dbl, trail)
        # the bytes outside the term's span, by construction
        self.outer = tuple(assemble(st, lead, pre, ["@"], suf, dbl, trail).split("@"))
        self.mid_words = r
        if variant == "digit_glued_before":
            # a digit glued directly in front of the term (x2foo_bar, MY_X2FOO_BAR, load3fooBar ...): by the tokenizer's rules
            # digit->lower does not start a word (near miss, must stay untouched), digit->UPPER does (a legitimate occurrence)
            P, S = self.outer
            T = self.ident[len(P):len(self.ident) - len(S)]
            R = self.expected[len(P):len(self.expected) - len(S)]
            glue = "x2" if (T[0].islower() and (not P or not P[-1].isalpha() or P[-1].islower())) else "X2"
            if st == "camel" and P and P[-1].isalpha():
                glue = "X2"           # keeps the hump boundary in front of the glued word: myX2FooBar
            self.ident, self.expected, self.outer = P + glue + T + S, P + glue + R + S, (P + glue, S)
            self.near = not T[0].isupper()
        elif variant == "digit_glued":
            self.near = True          # foo_bar2: letter->digit does not start a word, `bar2` is one word
            self.expected = self.ident
        self.styles = CLI_DOT if st == "dot" else CLI_STYLES
        self.search, self.replace = gen.render(typed[0], term), gen.render(typed[1], repl)

    def key(self):
        return (self.st, self.lead, tuple(self.pre), tuple(self.suf), self.dbl, self.trail, tuple(self.term),
                tuple(self.repl), self.variant, self.search, self.replace)

    def describe(self):
        return {"identifier": self.ident, "search": self.search, "replace": self.replace, "style": self.st,
                "lead": self.lead, "prefix_words": self.pre, "suffix_words": self.suf, "doubled": self.dbl,
                "trailing": self.trail, "variant": self.variant, "styles": self.styles, "near_miss": self.near,
                "expected_if_touched": self.expected, "outside_the_term": list(self.outer),
                "term_words": self.term, "replacement_words": self.repl, "dotted": list(self.dot) if self.dot else None}

    # ---- finding classes: decidable description on the input + the exact predicted output ---------------
    def classes(self):
        """{slug: predicted wrong output} for every listed class whose input description holds"""
        if self.variant in ("digit_glued", "plural") or self.near:
            return {}
        if self.variant == "dotted":
            # a dot-split segment that starts with '-' and also contains '_' is taken for a name mixing '-' and '_' with '-'
            # dominant: all its words are re-joined with '-', the leading '-' is dropped (find_all pushes the part as it is)
            d0, d1, left, right = self.dot
            if d0 == "-" and (SEP[self.st] == "_" or d1 == "_") and (self.pre or self.suf):
                words = list(self.pre) + list(self.repl) + list(self.suf)
                ps = [piece(self.st, w, i == 0) for i, w in enumerate(words)]
                a, b = len(self.pre), len(self.pre) + len(self.repl)
                mid = ("-" if self.st in ("snake", "kebab", "screaming_snake") else "").join(ps[a:b])   # Title-form words: ONE PascalCase token
                return {"dot_segment_leading_hyphen_rejoined": left[:-1] + "-".join(ps[:a] + [mid] + ps[b:]) + right}
            return {}
        sep = SEP[self.st]
        pre, suf, r = list(self.pre), list(self.suf), list(self.repl)
        if self.variant == "digit_suffix_word":
            suf = ["2"] + suf
        elif self.variant == "digit_prefix_word":
            pre = pre + ["v2"]
        long_lead = len(self.lead) > 2
        lead = "__" if long_lead else self.lead
        out = {}
        if sep:
            # separator styles: the identifier is re-joined from its tokens with single separators, at most one
            # trailing separator is restored, at most two leading underscores are kept
            doubled = bool((self.dbl == "pre" and pre) or (self.dbl == "suf" and suf) or len(self.trail) >= 2)
            if long_lead and sep != "_":
                return {}       # underscores in front of a '-' / '.' identifier: two separator kinds, not in the quantifier
            if doubled or long_lead:
                pred = assemble(self.st, lead, pre, r, suf, "none", self.trail[:1])
                irregular = doubled or bool(self.trail) or self.variant in ("digit_suffix_word", "digit_prefix_word")
                if self.st == "train" and irregular and len(r) >= 2:
                    # (C06 matter, needed only to predict the exact output:) an empty segment or a digit word makes the
                    # identifier "not Train-Case"; the Title-form window is then rendered as ONE PascalCase token
                    ps = ([piece(self.st, w, False) for w in pre] + ["".join(cap(w) for w in r)]
                          + [piece(self.st, w, False) for w in suf])
                    pred = lead + sep.join(ps) + self.trail[:1]
                if doubled:
                    out["doubled_separator_collapsed"] = pred
                if long_lead:
                    out["leading_underscores_lost"] = pred
        elif "_" in self.trail or long_lead:
            # hump styles: any underscore after the (at most two) stripped leading ones makes the matcher join
            # the tokens with '_'; the replacement stays one hump-joined token
            words = pre + r + suf
            ps = [piece(self.st, w, i == 0) for i, w in enumerate(words)]
            toks = ps[:len(pre)] + ["".join(ps[len(pre):len(pre) + len(r)])] + ps[len(pre) + len(r):]
            out["hump_identifier_with_underscore_rejoined"] = lead + "_".join(toks) + ("_" if self.trail else "")
        return out


class Twice(Case):
    """the term TWICE in one identifier (separator styles): pre + T + between + T + suf, optionally with a doubled separator
    directly before or after either occurrence, replacement of 1-3 words (so the word count changes and everything behind
    the first occurrence shifts).  By construction everything outside the two spans must survive byte for byte."""
    __slots__ = ("outer3", "gap", "between")

    def __init__(self, st, lead, pre, between, suf, gap, trail, term, repl):
        super().__init__(st, lead, pre, suf, "none", trail, term, repl, "twice")
        sep = SEP[st]
        self.between, self.gap = list(between), gap

        def build(m1, m2):
            segs = [[piece(st, w, False) for w in pre], m1, [piece(st, w, False) for w in between], m2,
                    [piece(st, w, False) for w in suf]]
            # gap = (index of the segment after which the separator is doubled) or None
            out = ""
            for k, seg in enumerate(segs):
                if not seg:
                    continue
                if out:
                    out += sep * 2 if gap is not None and self._last_nonempty == gap else sep
                out += sep.join(seg)
                self._last = k
                self._last_nonempty = k
            return lead + out + trail
        self._last_nonempty = -1
        T = [piece(st, w, False) for w in term]
        R = [piece(st, w, False) for w in repl]
        self._last_nonempty = -1
        self.ident = build(T, T)
        self._last_nonempty = -1
        self.expected = build(R, R)
        self._last_nonempty = -1
        marked = build(["\x00"], ["\x01"])
        P, rest = marked.split("\x00")
        M, S = rest.split("\x01")
        self.outer3 = (P, M, S)
        self.outer = (P, S)
        self.mid_words = list(repl)

    __slots__ = ("outer3", "gap", "between", "_last", "_last_nonempty")

    def local(self, obs):
        P, M, S = self.outer3
        if not (obs.startswith(P) and obs.endswith(S) and len(obs) >= len(P) + len(M) + len(S)):
            return False
        mid = obs[len(P):len(obs) - len(S)]
        want = "".join(self.mid_words).lower()
        i = mid.find(M)
        while i != -1:
            a, b = mid[:i], mid[i + len(M):]
            ok = True
            for x in (a, b):
                if not x or x[0] in "_-. " or x[-1] in "_-. " or "".join(ch for ch in x if ch not in "_-. ").lower() != want:
                    ok = False
            if ok:
                return True
            i = mid.find(M, i + 1)
        return False

    def exact_spans(self, off):
        P, M, S = self.outer3
        t = len(self.ident) - len(P) - len(M) - len(S)
        n = t // 2
        return [(off + len(P), off + len(P) + n), (off + len(P) + n + len(M), off + len(P) + n + len(M) + n)]

    def classes(self):
        return {}

    def describe(self):
        d = super().describe()
        d.update({"between_words": self.between, "doubled_after_segment": self.gap, "outside_the_terms": list(self.outer3)})
        return d


def twice_cases():
    out = []
    for st in ("snake", "kebab", "screaming_snake", "train"):
        for lead in ("", "_"):
            if lead and SEP[st] != "_":
                continue
            for pre, between, suf in itertools.product(([], ["my"]), (["x"], ["get", "item"]), ([], ["y"])):
                for gap in (None, 0, 1, 2, 3):
                    if gap == 0 and not pre or gap == 3 and not suf:
                        continue
                    for nr in (1, 2, 3):
                        out.append(Twice(st, lead, pre, between, suf, gap, "", TERMS[2], REPLS[nr]))
    return out


NEAR_TERMS = [TERMS[2], TERMS[3], ["foo", "v2"]]      # the last one ends in a digit (right-hand mirror: foo_v2x)


def near_cases():
    """identifiers that contain the term's letters but not its word sequence (checked against `ref_words`)"""
    out = []
    for term in NEAR_TERMS:
        for st in FAMILY_STYLES + ["lower_flat", "upper_flat"]:
            core = gen.render(st, term)
            lo, up = "x", "X"
            first_upper, last_upper = core[0].isupper(), core[-1].isupper()
            lefts = [up if first_upper and st in ("screaming_snake", "upper_flat") else lo] if st not in ("pascal", "train") else []
            if st in ("pascal", "train"):
                lefts = []           # x|Foo is a case boundary and XFoo.. splits as X|Foo..: both contain the word sequence
            # a digit glued in front: digit->lower does not start a word (x2foo_bar, 2foo_bar, v10fooBar are near misses);
            # digit->UPPER does, so upper-initial renderings get no digit on the left here (they are in the family)
            if not first_upper:
                lefts += ["2", "x2", "v10"]
            rights = ["N"] if last_upper else ["n"]
            cands = []
            for l in lefts:
                cands.append(l + core)
            for r in rights:
                cands.append(core + r)
            for l in lefts:
                for r in rights:
                    cands.append(l + core + r)
            # a digit glued behind: letter->digit does not start a word (foo_bar2, fooBar10, foo_bar2x)
            cands += [core + "2", core + "10", core + "2x"]
            if st in ("lower_flat", "upper_flat"):
                cands.append(core)       # flat concatenation: not an enabled style
            if st == "camel":
                cands.append("X" + core)  # XfooBar
            # term letters split by other separators
            sep = SEP.get(st, "")
            if sep:
                w0 = piece(st, term[0], True)
                cands.append(w0[:1] + sep + w0[1:] + sep + sep.join(piece(st, w, False) for w in term[1:]))
                wl = piece(st, term[-1], False)
                if len(wl) >= 3:
                    cands.append(sep.join(piece(st, w, i == 0) for i, w in enumerate(term[:-1])) + sep + wl[:2] + sep + wl[2:])
            for ident in cands:
                for (a, b) in (("", ""), ("my", ""), ("", "item"), ("my", "item")):
                    full = ident
                    if st in ("lower_flat", "upper_flat"):
                        if a or b:
                            continue
                    elif st in HUMP:
                        # inside a longer hump identifier: load3fooBar, myXfooBar, fooBarnItem
                        if a and not (ident[0].isupper() or ident[0].isdigit() or st == "camel"):
                            continue
                        if a:
                            full = (a if st == "camel" else cap(a)) + full
                        if b:
                            if full[-1].isdigit():
                                continue      # digit->UPPER would start a new word right after the glued digit: fine, but keep it simple
                            full = full + cap(b)
                    else:
                        if a:
                            full = piece(st, a, True) + sep + full
                        if b:
                            full = full + sep + piece(st, b, False)
                    c = Case(st if st in SEP else "snake", "", [], [], "none", "", term, REPLS[2])
                    c.ident, c.expected, c.near = full, full, True
                    c.variant = "near:" + st
                    c.styles = CLI_DOT if st == "dot" else CLI_STYLES
                    out.append(c)
    return out


def check_generators(cases):
    """the by-construction labels against the reference word splitter: a near miss must not contain the term's word
    sequence, an ordinary family member must.  Returns the first inconsistent case (a bug of the generator)."""
    for c in cases:
        if c.variant == "plural":
            continue
        has = has_word_sequence(c.ident, c.term)
        if c.near and has:
            return c, "labelled near miss but the reference splitter finds the term's word sequence"
        if not c.near and not has:
            return c, "labelled as containing the term but the reference splitter does not find its word sequence"
    return None


def family(thorough):
    """the exhaustive by-construction family"""
    out = []
    variants = ["plain", "digit_suffix_word", "digit_prefix_word", "digit_glued", "digit_glued_before", "plural"]
    for st in FAMILY_STYLES:
        sep = SEP[st]
        trails = ["", sep] if sep else ["", "_"]
        for lead, npre, nsuf, dbl, trail, variant, nt, nr in itertools.product(
                ["", "_", "__"], (0, 1, 2), (0, 1, 2), ("none", "pre", "suf"), trails, variants, (2, 3), (1, 2, 3)):
            if dbl == "pre" and npre == 0 or dbl == "suf" and nsuf == 0 and variant != "digit_suffix_word":
                continue
            if dbl != "none" and not sep:
                continue
            if variant == "digit_suffix_word" and not sep:
                continue      # hump styles: a digit word glues to the previous word, that is the digit_glued variant
            out.append(Case(st, lead, PRE_WORDS[npre], SUF_WORDS[nsuf], dbl, trail, TERMS[nt], REPLS[nr], variant))
    # extras outside the stated quantifier that pin further finding classes: three leading underscores, doubled trailing
    for st in FAMILY_STYLES:
        sep = SEP[st]
        for npre, nsuf, nt in itertools.product((0, 1), (0, 1), (2, 3)):
            if npre + nsuf == 0:
                continue
            if sep in ("_", ""):
                out.append(Case(st, "___", PRE_WORDS[npre], SUF_WORDS[nsuf], "none", "", TERMS[nt], REPLS[2]))
            if sep:
                out.append(Case(st, "", PRE_WORDS[npre], SUF_WORDS[nsuf], "none", sep * 2, TERMS[nt], REPLS[2]))
    return out


def wrap_dotted(c, d0, d1, left, right):
    """put the by-construction identifier of `c` into a dotted path: `left` ends with the segment's leading decoration `d0`,
    `right` starts with its trailing decoration `d1`"""
    P, S = c.outer
    c.ident, c.expected = left + c.ident + right, left + c.expected + right
    c.outer = (left + P, S + right)
    c.variant = "dotted"
    c.dot = (d0, d1, left, right)
    return c


DOT_NEIGHBOURS = ["cfg", "a", "b-", "x", "search-form", "obj", "my_mod", "-w", "Baz", "_p", "w_"]


def dotted_cases():
    """dotted paths of 2..4 segments (Dot style not enabled, so the extractor splits on the dots): the term sits in one
    segment, rendered in a separator or hump style inside 0..1 prefix / suffix words; that segment may start and / or end
    with '-' or '_'; the other segments use other separator kinds and may themselves start or end with a separator; the
    path may start with a dot.  Expectation by construction: everything outside the term's span byte for byte."""
    out = []
    k = 0
    for nseg in (2, 3, 4):
        for pos in range(nseg):
            for lead_dot in ("", "."):
                for st in ("snake", "kebab", "screaming_snake", "train", "camel", "pascal"):
                    for npre, nsuf in ((0, 0), (1, 0), (0, 1), (1, 1)):
                        for d0, d1 in itertools.product(("", "-", "_"), repeat=2):
                            inner = Case(st, "", PRE_WORDS[npre], SUF_WORDS[nsuf], "none", "", TERMS[2], REPLS[2])
                            segs = []
                            for i in range(nseg):
                                if i != pos:
                                    segs.append(DOT_NEIGHBOURS[k % len(DOT_NEIGHBOURS)])
                                    k += 1
                            left = lead_dot + "".join(x + "." for x in segs[:pos]) + d0
                            right = d1 + "".join("." + x for x in segs[pos:])
                            if not left and not right:
                                continue
                            out.append(wrap_dotted(inner, d0, d1, left, right))
    # an EARLIER segment that is a near miss containing the whole later (real) segment as a substring at a non-word
    # position (xfoo_bar_id.foo_bar_id, cfg.XFOO_BAR_X.FOO_BAR_X): the extractor must locate each segment where it IS, not
    # where its text first occurs in the path; the near miss stays, the real segment is rewritten in place
    for st, glue in (("snake", "x"), ("snake", "sub"), ("kebab", "x"), ("camel", "x"), ("screaming_snake", "X"), ("screaming_snake", "SUB")):
        for npre, nsuf in ((0, 1), (1, 0), (1, 1), (0, 0)):
            for lead_seg in ("", "cfg."):
                for tail in ("", ".end"):
                    inner = Case(st, "", PRE_WORDS[npre], SUF_WORDS[nsuf], "none", "", TERMS[2], REPLS[2])
                    left = lead_seg + glue + inner.ident + "."
                    if has_word_sequence(glue + inner.ident, TERMS[2]):
                        continue        # (hump / capitalised renderings: the glued text would itself contain the term)
                    out.append(wrap_dotted(inner, "", "", left, tail))
    return out


def random_cases(rng, n):
    out = []
    typed_styles = ["snake", "snake", "kebab", "camel", "pascal"]
    for _ in range(n):
        st = rng.choice(FAMILY_STYLES)
        sep = SEP[st]
        term = rng.sample(gen.VOCAB, rng.randint(2, 3))
        repl = [rng.choice(gen.VOCAB) for _ in range(rng.randint(1, 3))]
        if repl == term:
            continue
        pool = [w for w in AFFIX if w not in term]
        pre = [rng.choice(pool) for _ in range(rng.randint(0, 3))]
        suf = [rng.choice(pool) for _ in range(rng.randint(0, 3))]
        # the oracle assumes the term occurs once: affix words never contain the term's first word
        lead = rng.choice(["", "", "_", "__"])
        trail = rng.choice(["", "", sep if sep else "_"])
        dbl = rng.choice(["none", "none", "none", "pre", "suf"]) if sep else "none"
        variant = rng.choice(["plain"] * 5 + ["digit_suffix_word", "digit_prefix_word", "digit_glued", "digit_glued_before", "plural"])
        if variant == "digit_suffix_word" and not sep:
            variant = "plain"
        if variant == "plural" and not all(w[-1] not in "sxy" and not w.endswith("a") for w in (term[-1], repl[-1])):
            variant = "plain"
        typed = (rng.choice(typed_styles), rng.choice(typed_styles))
        out.append(Case(st, lead, pre, suf, dbl, trail, term, repl, variant, typed))
    return out


# ---- requests ----------------------------------------------------------------------------------------------

def req_compound(c):
    return f"compound {hexs(c.ident)} {hexs(c.search)} {hexs(c.replace)} {c.styles}"


def req_enhanced(c, ctxt):
    return f"enhanced {hexs(ctxt[0] + c.ident + ctxt[1])} {hexs(c.search)} {hexs(c.replace)} {c.styles}"


def req_planfile(c, ctxt, extra=""):
    st = "cli" if c.styles == CLI_STYLES else c.styles
    return f"planfile {hexs(ctxt[0] + c.ident + ctxt[1] + chr(10))} {hexs(c.search)} {hexs(c.replace)} {st}{extra}"


def obs_compound(line):
    f = line.split()
    if f[:2] == ["c", "none"]:
        return None
    if f[0] != "c" or len(f) != 2:
        return "?" + line
    return unhex(f[1].split(":")[1]).decode("utf-8", "replace")


def splice(content, edits):
    """independent application of (start, end, replacement) edits to a byte string"""
    out, pos = b"", 0
    for s, e, r in sorted(edits):
        if s < pos:
            return None
        out += content[pos:s] + r
        pos = e
    return out + content[pos:]


def obs_enhanced(line, content, ctxt, c):
    """the identifier after applying the listed matches.  A compound match carries its replacement (variant -> text);
    an exact match only marks a span (text = the matched text, the replacement is chosen later by the planner): it must be
    exactly the term's span, and is then filled with the by-construction middle"""
    f = line.split()
    if f[0] != "e":
        return "?" + line
    P, S = c.outer
    t0, t1 = len(ctxt[0]) + len(P), len(content) - len(ctxt[1]) - len(S)
    spans = c.exact_spans(len(ctxt[0])) if isinstance(c, Twice) else [(t0, t1)]
    edits = []
    for m in f[1:]:
        s, e, v, t = m.split(":")
        s, e = int(s), int(e)
        if content[s:e] != unhex(v):
            return "?span/variant mismatch " + m
        if c.near:
            return f"?match {s}:{e} on a near-miss identifier"
        if v == t:
            if (s, e) not in spans:
                return f"?exact match {s}:{e} is not the term's span {spans}"
            if isinstance(c, Twice):
                edits.append((s, e, SEP[c.st].join(piece(c.st, w, False) for w in c.repl).encode()))
            else:
                edits.append((s, e, c.expected[len(P):len(c.expected) - len(S)].encode()))
        else:
            edits.append((s, e, unhex(t)))
    if not edits:
        return None
    res = splice(content, edits)
    if res is None:
        return "?overlapping matches"
    return strip_ctx(res.decode("utf-8", "replace"), ctxt)


def strip_ctx(text, ctxt):
    if not (text.startswith(ctxt[0]) and text.endswith(ctxt[1]) and len(text) >= len(ctxt[0]) + len(ctxt[1])):
        return "?context changed: " + text
    return text[len(ctxt[0]):len(text) - len(ctxt[1])]


def obs_planfile(line, content, ctxt):
    f = line.split()
    if f[0] != "p" or "|" not in f:
        return "?" + line
    bar = f.index("|")
    hunks = f[2:bar]
    after = f[bar + 1]
    if after.startswith("applyerr"):
        return "?" + unhex(after.split(":")[1]).decode("utf-8", "replace")
    after = unhex(after)
    edits = []
    for h in hunks:
        s, e, cont, rep = h.split(":")
        if content[int(s):int(e)] != unhex(cont):
            return "?hunk content is not the text at its span " + h
        edits.append((int(s), int(e), unhex(rep)))
    if splice(content, edits) != after:
        return "?applied file differs from the planned edits"
    if not hunks:
        return None if after == content else "?file changed without a hunk"
    text = after.decode("utf-8", "replace")
    if not text.endswith("\n"):
        return "?final newline lost"
    return strip_ctx(text[:-1], ctxt)


JOBS = max(2, min(8, (os.cpu_count() or 4) // 2))


def prun(binary, lines):
    """run request lines through several processes of the binary (order preserved)"""
    if len(lines) < 400:
        return common.run_lines(binary, lines) if lines else []
    from concurrent.futures import ThreadPoolExecutor
    n = (len(lines) + JOBS - 1) // JOBS
    chunks = [lines[i:i + n] for i in range(0, len(lines), n)]
    with ThreadPoolExecutor(len(chunks)) as ex:
        outs = list(ex.map(lambda ch: common.run_lines(binary, ch), chunks))
    return [x for o in outs for x in o]


def correspond(ctx, name, reqs):
    if not reqs:
        return []
    impl = prun(common.HARNESS_BIN, reqs)
    model = prun(common.RMODEL_BIN, reqs)
    ctx.cov["disagreements_checked"] += len(reqs)
    dis = [(r, i, m) for r, i, m in zip(reqs, impl, model) if i != m]
    if dis:
        r, i, m = dis[0]
        ctx.broke("correspondence", name, {"request": r, "impl": i, "model": m, "count": len(dis), "of": len(reqs)})
    return list(zip(reqs, impl, model))


class Judge:
    def __init__(self, ctx):
        self.ctx = ctx
        self.stop = False
        self.other = []

    def judge(self, c, op, req, obs, model=None):
        """obs: None = untouched, str = the identifier after the edit ('?…' = malformed observation)"""
        ctx = self.ctx
        if obs is None or obs == c.ident:
            ctx.count(f"{op}:untouched" + (":near" if c.near else ""))
            return True
        if not c.near and obs == c.expected:
            ctx.count(f"{op}:local")
            return True
        if not c.near and not obs.startswith("?") and c.local(obs):
            ctx.count(f"{op}:local_other_rendering")     # outside the span untouched; the rendering of the replacement is C06's
            if len(self.other) < 4:
                self.other.append({"op": op, "identifier": c.ident, "observed": obs, "same_style_would_be": c.expected})
            return True
        if not c.near and not obs.startswith("?"):
            slugs = [slug for slug, pred in c.classes().items() if obs == pred]
            if slugs and all([ctx.known(slug) for slug in slugs]):
                for slug in slugs:
                    ctx.count(f"{op}:finding:{slug}")
                return True
        regressed = [] if (c.near or obs is None or obs.startswith("?")) else [k for k, v in c.classes().items() if v == obs]
        if len(ctx.violations) < 5:
            ctx.violation("input", {"op": op, "request": req, **c.describe(), "repaired_class_is_back": regressed},
                          expected=("untouched" if c.near else {"untouched": c.ident, "or": c.expected}), observed=obs,
                          model_prediction=model,
                          note=("near-miss identifier (term letters without its word sequence) was edited" if c.near else
                                (f"the output of finding class {', '.join(regressed)} which is not (or no longer) listed in KNOWN_FINDINGS.txt - a repaired behaviour returned: " if regressed else "") +
                                "the edit changed bytes outside the term's span and matches no listed finding class"))
        self.stop = True
        return False


def run_cases(ctx, judge, cases, name, e2e_every=1, rng=None):
    """compound + enhanced (impl vs model, oracle on impl) and planfile (impl only) for the given cases"""
    rng = rng or ctx.rng
    reqs, meta = [], []
    for i, c in enumerate(cases):
        ctxt = CONTEXTS[i % len(CONTEXTS)]
        if not c.dot:       # with Dot disabled the compound matcher never sees a dotted path, only its segments
            reqs.append(req_compound(c)); meta.append((c, "compound", ctxt))
        reqs.append(req_enhanced(c, ctxt)); meta.append((c, "enhanced", ctxt))
    res = correspond(ctx, f"compound/enhanced on {name}", reqs)
    for (r, impl, model), (c, op, ctxt) in zip(res, meta):
        ctx.case((op,) + c.key())
        if op == "compound":
            obs = obs_compound(impl)
        else:
            obs = obs_enhanced(impl, (ctxt[0] + c.ident + ctxt[1]).encode(), ctxt, c)
        judge.judge(c, op, r, obs, model)
    preqs, pmeta = [], []
    for i, c in enumerate(cases):
        if i % e2e_every:
            continue
        ctxt = CONTEXTS[(i // e2e_every) % len(CONTEXTS)]
        preqs.append(req_planfile(c, ctxt)); pmeta.append((c, ctxt))
    pres = prun(common.HARNESS_BIN, preqs)
    for r, out, (c, ctxt) in zip(preqs, pres, pmeta):
        ctx.case(("planfile",) + c.key())
        obs = obs_planfile(out, (ctxt[0] + c.ident + ctxt[1] + "\n").encode(), ctxt)
        judge.judge(c, "planfile", r, obs)
    ctx.count(name, len(reqs) + len(preqs))
    return res


def cli_round(ctx, judge, cases):
    """the same oracle through the CLI binary: plan --dry-run json + rename -y on a one-file tree"""
    for i, c in enumerate(cases):
        ctxt = CONTEXTS[i % len(CONTEXTS)]
        content = (ctxt[0] + c.ident + ctxt[1] + "\n").encode()
        with common.scratch() as d:
            with open(os.path.join(d, "f.txt"), "wb") as fh:
                fh.write(content)
            extra = ["--include-styles", "dot"] if c.st == "dot" else []
            rc, out, err = common.cli(["plan", c.search, c.replace, "--no-auto-init", "--quiet", "--no-rename-files",
                                       "--no-rename-dirs"] + extra, d)
            plan_path = os.path.join(d, ".renamify", "plan.json")
            obs = None
            if rc == 0 and os.path.exists(plan_path):
                plan = json.load(open(plan_path))
                edits = [(m["start"], m["end"], m["replace"].encode()) for m in plan.get("matches", [])]
                bad = [m for m in plan.get("matches", []) if content[m["start"]:m["end"]] != m["content"].encode()]
                if plan.get("matches"):
                    rc2, out2, err2 = common.cli(["apply", "--no-auto-init", "--quiet"], d)
                    after = open(os.path.join(d, "f.txt"), "rb").read()
                    if bad:
                        obs = "?hunk content is not the text at its span"
                    elif rc2 != 0:
                        obs = "?apply failed: " + err2.decode("utf-8", "replace")[-200:]
                    elif splice(content, edits) != after:
                        obs = "?applied file differs from the planned edits"
                    else:
                        obs = strip_ctx(after.decode("utf-8", "replace")[:-1], ctxt)
                else:
                    after = open(os.path.join(d, "f.txt"), "rb").read()
                    obs = None if after == content else "?file changed without a hunk"
            elif rc != 0:
                obs = "?plan failed: " + err.decode("utf-8", "replace")[-200:]
        ctx.case(("cli",) + c.key())
        judge.judge(c, "cli", {"argv": ["plan", c.search, c.replace], "file": content.decode()}, obs)
    ctx.count("cli", len(cases))


HOSTILE = ["foo", "bar", "Foo", "Bar", "FOO", "BAR", "baz", "x", "X", "my", "My", "_", "__", "-", "--", ".", "..", " ", "  ",
           "\n", "\t", "2", "42", "v2", "s", "API", "Api", "id", "ID", "(", ")", "\"", "::", "/", ",", "=", "fooBar", "FooBar",
           "foo_bar", "foo-bar", "Foo Bar", "Foo-Bar", "FOO_BAR", "foo.bar", "foobar", "n", "N", "\x0b", "!", "Lemon Tiger"]


def hostile(ctx, n):
    rng = ctx.rng
    reqs = []
    style_sets = [LIB_STYLES, CLI_STYLES, CLI_DOT, "snake", "camel", "pascal,title", "snake,dot", "kebab,train,title", "-"]
    terms = [("foo_bar", "baz_qux"), ("fooBar", "bazQux"), ("foo", "lemon"), ("foo_bar", "foo"), ("FooBar", "lemon_tiger_x"),
             ("foo-bar", "baz"), ("Foo Bar", "Lemon Tiger"), ("foo_bar_baz", "qux"), ("FOO_BAR", "BAZ_QUX"), ("foo.bar", "baz.qux")]
    for _ in range(n):
        s = "".join(rng.choice(HOSTILE) for _ in range(rng.randint(1, 7)))
        st = rng.choice(style_sets)
        a, b = rng.choice(terms)
        k = rng.random()
        if k < 0.3:
            ident = s.replace(" ", "").replace("\n", "").replace("\t", "").replace("\x0b", "") or "x"
            reqs.append(f"compound {hexs(ident)} {hexs(a)} {hexs(b)} {st}")
        elif k < 0.55:
            reqs.append(f"identifiers {hexs(s)} {st}")
        elif k < 0.7:
            i = rng.randint(0, max(0, len(s) - 1))
            j = rng.randint(i + 1, max(i + 1, len(s)))
            reqs.append(f"boundary {hexs(s)} {i} {j}")
        else:
            lines = [s] + ["".join(rng.choice(HOSTILE) for _ in range(rng.randint(0, 6))) for _ in range(rng.randint(0, 3))]
            reqs.append(f"enhanced {hexs(chr(10).join(lines))} {hexs(a)} {hexs(b)} {st if st != '-' else 'snake'}")
        ctx.case(reqs[-1])
    correspond(ctx, "hostile identifiers / contents", reqs)
    ctx.count("hostile", len(reqs))


def load_corpus():
    d = os.path.join(common.ROOT, "corpus", "C07")
    out = []
    if os.path.isdir(d):
        for f in sorted(os.listdir(d)):
            if f.endswith(".json"):
                out.append((f, json.load(open(os.path.join(d, f)))))
    return out


def corpus_case(obj):
    """a recorded (formerly failing) identifier, rebuilt by construction"""
    k = obj["case"]["construction"]
    c = Case(k["style"], k["lead"], k["prefix_words"], k["suffix_words"], k["doubled"], k["trailing"],
             k["term_words"], k["replacement_words"])
    if k.get("dotted"):
        c = wrap_dotted(c, *k["dotted"])
    return c


def replay_witness(ctx, name, obj, judge=None):
    """corpus entry of a defect that was fixed (or is still listed): the identifier goes through all three ops, model vs
    implementation, and the locality oracle.  If the old output comes back and the finding is still listed in
    KNOWN_FINDINGS.txt it is printed as KNOWN-FINDING, otherwise it is a VIOLATION (a repaired behaviour returned)."""
    judge = judge or Judge(ctx)
    c = corpus_case(obj)
    n0 = len(ctx.violations)
    res = run_cases(ctx, judge, [c], f"corpus/{name}", e2e_every=1)
    old = obj.get("observed_before_fix")
    back = any(obs_compound(i) == old for (r, i, m) in res if r.startswith("compound"))
    if back and len(ctx.violations) == n0:
        ctx.notes.append(f"corpus/C07/{name}: the old output {old!r} is back and accepted as listed finding {obj.get('finding')}")
    return len(ctx.violations) == n0


def run(ctx):
    ctx.cov["rule"] = ("identifier family by construction: lead {'', _, __} x prefix words 0..2 x suffix words 0..2 x 7 styles "
                       "(snake, kebab, screaming-snake, train, camel, pascal, dot) x doubled separator {none, before, after the term} "
                       "x trailing separator x {plain, digit word after, v2 word before, glued digit, plural} x term of 2..3 words x "
                       "replacement of 1..3 words, exhaustive (every case: compound + enhanced against the model and the oracle; "
                       "end-to-end scan+apply for every case in thorough, every 4th in quick); near-miss family exhaustive over "
                       "styles x glue positions x affixes; random identifiers with vocabulary words and typed styles; hostile stream "
                       "(model vs implementation only). non-trivial = every case (each has the term or a near miss of it); "
                       "distinct = distinct (op, case parameters)")
    ctx.cov["exhaustive"] = True
    ctx.assumptions += ["acronym set = DEFAULT_ACRONYMS (regenerated from acronym.rs on every run)",
                        "search and replacement typed in snake/kebab/camel/pascal (an all-caps typed replacement is rendered "
                        "verbatim by the hump arm of the compound matcher: a C06 matter, not locality)",
                        "the identifier regex is modelled for ASCII content"]
    try:
        from translate import extractor_shape
        extractor_shape.run()
        ctx.cov["extractor_shape"] = extractor_shape.extract()
    except Exception as ex:  # a translator that cannot parse its source is a broken tie
        ctx.broke("translator", "translate/extractor_shape.py", repr(ex))
    ctx.prove("RModel.Props.C07")
    ok, msg = common.cargo_build()
    if not ok:
        ctx.broke("build", "cargo", msg)
        return
    judge = Judge(ctx)
    # corpus first: finding witnesses
    for name, obj in load_corpus():
        replay_witness(ctx, name, obj, judge)
    fam = family(ctx.thorough)
    dotted = dotted_cases()
    bad = check_generators(fam + near_cases() + dotted + twice_cases())
    if bad:
        ctx.broke("machinery", "generator labels vs reference word splitter", {"case": bad[0].describe(), "why": bad[1]})
        return
    run_cases(ctx, judge, fam, "family", e2e_every=1 if ctx.thorough else 4)
    ctx.sample({"family": fam[len(fam) // 2].describe()})
    run_cases(ctx, judge, dotted, "dotted", e2e_every=1 if ctx.thorough else 2)
    ctx.sample({"dotted": dotted[len(dotted) // 3].describe()})
    tw = twice_cases()
    run_cases(ctx, judge, tw, "term twice in one identifier", e2e_every=1 if ctx.thorough else 2)
    ctx.sample({"twice": tw[len(tw) // 2].describe()})
    near = near_cases()
    run_cases(ctx, judge, near, "near-miss", e2e_every=1)
    ctx.sample({"near_miss": near[3].describe()})
    rnd = random_cases(ctx.rng, 20000 if ctx.thorough else 1500)
    run_cases(ctx, judge, rnd, "random", e2e_every=1 if ctx.thorough else 3)
    ctx.sample({"random": rnd[0].describe()})
    hostile(ctx, 60000 if ctx.thorough else 4000)
    pick = ctx.rng.sample(fam, 120 if ctx.thorough else 10) + ctx.rng.sample(near, 40 if ctx.thorough else 6)
    cli_round(ctx, judge, pick)
    if judge.other:
        ctx.notes.append({"replacement rendered in another style inside the term's span (locality holds; C06 matter)": judge.other})
    if ctx.broken and not ctx.violations:
        widen(ctx, judge)


def widen(ctx, judge):
    """a tie broke: search harder for an input on which the implementation violates the property"""
    rnd = random_cases(ctx.rng, 8000)
    run_cases(ctx, judge, rnd, "widened", e2e_every=1)


def replay(ctx, path):
    obj = json.load(open(path))
    case = obj.get("case", {})
    if "construction" in case:
        ok, msg = common.cargo_build()
        common.lean_build([])
        ok = replay_witness(ctx, os.path.basename(path), obj)
        print(json.dumps({"locality_holds": ok}, indent=1))
        return
    if isinstance(case, dict) and "request" in case and isinstance(case["request"], str):
        ok, msg = common.cargo_build()
        common.lean_build([])
        req = case["request"]
        impl = common.run_impl([req])[0]
        model = None if req.startswith("planfile") else common.run_model([req])[0]
        print(json.dumps({"request": req, "impl": impl, "model": model, "expected": obj.get("expected")}, indent=1))
        # rebuild the by-construction case and judge again
        if case.get("variant") == "twice":
            c = Twice(case["style"], case["lead"], case["prefix_words"], case["between_words"], case["suffix_words"],
                      case["doubled_after_segment"], case["trailing"], case["term_words"], case["replacement_words"])
        else:
            c = Case(case["style"], case["lead"], case["prefix_words"], case["suffix_words"], case["doubled"], case["trailing"],
                     case.get("term_words", ["x"]), case.get("replacement_words", ["y"]),
                     case["variant"] if not case["variant"].startswith("near:") else "plain")
        c.ident, c.expected, c.near = case["identifier"], case["expected_if_touched"], case["near_miss"]
        c.search, c.replace, c.styles, c.variant = case["search"], case["replace"], case["styles"], case["variant"]
        if "outside_the_term" in case and case.get("variant") != "twice":
            c.outer = tuple(case["outside_the_term"])
        if case.get("dotted"):
            c.dot = tuple(case["dotted"])
        ctxt = None
        f = req.split()
        content = unhex(f[1]).decode("utf-8", "replace")
        for cx in CONTEXTS:
            if content.rstrip("\n") == cx[0] + c.ident + cx[1]:
                ctxt = cx
        if f[0] == "compound":
            obs = obs_compound(impl)
        elif f[0] == "enhanced" and ctxt:
            obs = obs_enhanced(impl, unhex(f[1]), ctxt, c)
        elif f[0] == "planfile" and ctxt:
            obs = obs_planfile(impl, unhex(f[1]), ctxt)
        else:
            obs = "?cannot rebuild"
        if Judge(ctx).judge(c, case["op"], req, obs, model):
            print("no longer fails")
        return
    print(json.dumps(obj, indent=1)[:3000])
