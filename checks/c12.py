"""C12 — the workspace lock gives mutual exclusion.

translate   translate/lock_users.py -> Gen/LockUsers.lean (call sites of LockFile::acquire per CLI command, the
            fingerprint of acquire/drop, STALE_LOCK_TIMEOUT_SECS, the decision chain)
prove       RModel.Props.C12 (inductive invariant over ALL schedules for any N; witnesses by kernel evaluation)
correspond  (a) `lockseq`: the real LockFile::acquire in-process on every injected lock-file state of a finite grid
                (exhaustive) vs the model run of one process alone;
            (b) `lockwit`: the witnesses that need no second process (live holder older than 300 s; Drop removes
                a foreign lock), real code in-process vs model;
            (c) generated table vs CLI: a command is refused under a held lock iff the table says it locks;
            (d) real_schedules: model schedules driven through real `renamify test-lock` processes by the
                LD_PRELOAD scheduler (checks/shim.py), who-acquired / lock content / max simultaneous holders
                compared with the model's prediction.  Skipped with a note when the shim is missing.
oracle      evaluated on the real binary, independent of the model: while `test-lock` holds the lock every
            mutating command must be refused without touching the tree; the lock is gone after normal exit, error
            exit, SIGINT, SIGTERM; a leftover lock never blocks the next command; in scheduled runs: at most one
            simultaneous holder, lock gone at the end.
"""
import json
import os
import signal
import subprocess
import time

from . import common

LOCK_REL = os.path.join(".renamify", "renamify.lock")
DEAD_PID = 1073741823          # 2^30-1: above every possible pid_max, so kill(pid, 0) = ESRCH
FAKE_T0 = 1_800_000_000        # wall clock served to scheduled processes (FSSHIM_TIME)
MUTATING = ["plan", "rename", "apply", "undo", "redo", "replace"]
# slugs the check can name.  Only those listed in KNOWN_FINDINGS.txt are tolerated (ctx.known); the slugs of defects
# that were repaired in /repo (malformed_blocks_text = empty / wrong number of colons, drop_removes_foreign,
# future_ts_panics, unlocked_*) are not listed any more, so a return of the defect is a VIOLATION.
FINDINGS = ["orphan_race", "stale_race", "exit_race", "stale_live_evicted", "unparsable_cleaner_race",
            "malformed_blocks",            # a non-UTF-8 lock file
            "malformed_blocks_text", "drop_removes_foreign", "future_ts_panics", "unlocked_apply", "unlocked_undo",
            "unlocked_redo", "unlocked_replace"]


def hx(s):
    return "x" + s.encode().hex()


# ------------------------------------------------------------------------------------------------
# (a) sequential state-injection grid

def seq_grid(build):
    """every request of the finite grid: pid token x timestamp token, plus the malformed shapes"""
    pids = {"self": ["SELF"], "other": ["OTHER"], "dead": [hx(str(DEAD_PID))], "zero": [hx("0")], "alpha": [hx("abc")],
            "empty": [], "u32overflow": [hx("4294967296")], "plus_self": [hx("+"), "SELF"],
            "self_space": ["SELF", hx(" ")]}
    tss = {"now-10": ["NOW-10"], "now-299": ["NOW-299"], "now-301": ["NOW-301"], "now-100000": ["NOW-100000"],
           "now+100": ["NOW+100"], "zero": [hx("0")], "u64max": [hx("18446744073709551615")],
           "u64overflow": [hx("18446744073709551616")], "alpha": [hx("abc")], "empty": [], "minus5": [hx("-5")],
           "plus_now-10": [hx("+"), "NOW-10"]}
    reqs = [("absent", f"lockseq {build} absent")]
    for pn, p in pids.items():
        for tn, t in tss.items():
            reqs.append((f"pid={pn},ts={tn}", " ".join(["lockseq", build, "file"] + p + [hx(":")] + t)))
    shapes = {
        "empty-file": [], "spaces": [hx("  ")], "newline": [hx("\n")], "word": [hx("invalid_format")],
        "three-parts": ["SELF", hx(":"), "NOW-10", hx(":x")], "double-colon": ["SELF", hx("::"), "NOW-10"],
        "lone-colon": [hx(":")], "trailing-newline": ["SELF", hx(":"), "NOW-10", hx("\n")],
        "padded": [hx("  "), "SELF", hx(":"), "NOW-10", hx(" \t\r\n")],
        "dead-trailing-newline": [hx(str(DEAD_PID) + ":"), "NOW-10", hx("\n")],
        "inner-space-ts": ["SELF", hx(": "), "NOW-10"],
        "nul": [hx("\x00")], "binary": ["xfffe"],
    }
    for sn, toks in shapes.items():
        reqs.append((f"shape={sn}", " ".join(["lockseq", build, "file"] + toks)))
    return reqs


def seq_oracle(name, impl):
    """what the property itself demands of a single process facing a leftover lock file (independent of the
    model): it either acquires (and its drop removes the file) or reports a live holder; it never crashes and is
    never blocked by a file nobody owns.  Returns a finding slug, 'ok', or 'violation'."""
    outcome = impl.split()[0]
    if name.startswith("pid=other,") and ("ts=now" in name):
        # the lock names a LIVE process (an unrelated program): it is never taken over, whatever its age — that a
        # foreign program's pid blocks is by design (pid reuse trade-off of repo commit 294ac63)
        live_first = SHAPE.get("live_never_stale")
        stale = "ts=now-301" in name or "ts=now-100000" in name
        if outcome == "acquired" and (live_first or not stale) and "ts=now+100" not in name:
            return "violation"
    if outcome == "panic":
        return "future_ts_panics" if ("ts=now+100" in name or "ts=u64max" in name) else "violation"
    if outcome == "io-error:read-content":
        return "malformed_blocks"          # not UTF-8
    if outcome == "eexist":
        # blocked by a text file that names no live holder
        return "malformed_blocks_text"
    if outcome == "acquired":
        return "ok" if impl.endswith("SELF:NOW gone") else "violation"
    if outcome.startswith("already-running"):
        # legitimate only if the named pid is alive: SELF, or pid 0 (= the caller's process group)
        return "ok"
    return "violation"


# ------------------------------------------------------------------------------------------------
# CLI scenarios

def cli_env(ws):
    e = dict(common.BASE_ENV)
    e["HOME"] = ws
    e["XDG_CONFIG_HOME"] = os.path.join(ws, ".xdg-none")
    return e


class Holder:
    """`renamify test-lock --delay ms` in workspace ws"""

    def __init__(self, ws, delay_ms):
        self.ws = ws
        self.err = open(os.path.join(ws, f".holder-{time.time_ns()}.err"), "w+b")
        self.p = subprocess.Popen([common.CLI_BIN, "test-lock", "--delay", str(delay_ms), "--no-auto-init"], cwd=ws,
                                  env=cli_env(ws), stdout=subprocess.DEVNULL, stderr=self.err,
                                  stdin=subprocess.DEVNULL)

    def stderr(self):
        self.err.flush()
        with open(self.err.name, "rb") as fh:
            return fh.read()

    def wait_acquired(self, timeout=10.0):
        t0 = time.time()
        while time.time() - t0 < timeout:
            if b"Lock acquired" in self.stderr():
                return True
            if self.p.poll() is not None:
                return b"Lock acquired" in self.stderr()
            time.sleep(0.005)
        return False

    def finish(self, sig=None, timeout=15.0):
        if sig is not None and self.p.poll() is None:
            self.p.send_signal(sig)
        try:
            rc = self.p.wait(timeout=timeout)
        except subprocess.TimeoutExpired:
            self.p.kill()
            rc = self.p.wait()
        err = self.stderr()
        self.err.close()
        try:
            os.unlink(self.err.name)
        except OSError:
            pass
        return rc, err


def tree_snap(ws):
    snap = common.snapshot(ws, exclude=())
    return {k: v for k, v in snap.items() if k != LOCK_REL and not os.path.basename(k).startswith(".holder-")}


def lock_text(ws):
    try:
        with open(os.path.join(ws, LOCK_REL), "rb") as fh:
            return fh.read()
    except FileNotFoundError:
        return None


def make_ws(d):
    os.makedirs(os.path.join(d, ".renamify"), exist_ok=True)
    with open(os.path.join(d, "a.txt"), "w") as fh:
        fh.write("foo_bar\nuses fooBar twice: foo_bar\n")
    os.makedirs(os.path.join(d, "src"), exist_ok=True)
    with open(os.path.join(d, "src", "foo_bar.rs"), "w") as fh:
        fh.write("fn foo_bar() {}\n")


def prepare(cmd, ws):
    """bring the workspace into a state in which `cmd` has something to do; returns argv"""
    q = ["--no-auto-init"]
    if cmd == "plan":
        return ["plan", "foo_bar", "baz_qux"] + q
    if cmd == "rename":
        return ["rename", "foo_bar", "baz_qux", "-y"] + q
    if cmd == "apply":
        rc, out, err = common.cli(["plan", "foo_bar", "baz_qux", "--quiet"] + q, ws)
        if rc != 0:
            raise RuntimeError("prepare apply: plan failed: " + err.decode("utf-8", "replace")[-300:])
        return ["apply"] + q
    if cmd in ("undo", "redo"):
        rc, out, err = common.cli(["rename", "foo_bar", "baz_qux", "-y", "--quiet"] + q, ws)
        if rc != 0:
            raise RuntimeError("prepare undo: rename failed: " + err.decode("utf-8", "replace")[-300:])
        if cmd == "redo":
            rc, out, err = common.cli(["undo", "latest"] + q, ws)
            if rc != 0:
                raise RuntimeError("prepare redo: undo failed: " + err.decode("utf-8", "replace")[-300:])
        return [cmd, "latest"] + q
    if cmd == "replace":
        # one match at offset 0 of line 1 in one file (keeps clear of the unrelated `replace` offset defect)
        for rel in ("src/foo_bar.rs", "a.txt"):
            os.unlink(os.path.join(ws, rel))
        with open(os.path.join(ws, "b.txt"), "w") as fh:
            fh.write("foo_bar\n")
        return ["replace", "foo_bar", "baz_qux", "--no-regex", "-y"] + q
    raise ValueError(cmd)


def scenario_under_lock(ctx, cmd, sig):
    """hold the lock with test-lock, run one mutating command, stop the holder with `sig`"""
    with common.scratch() as ws:
        make_ws(ws)
        argv = prepare(cmd, ws)
        h = Holder(ws, 20000)
        try:
            if not h.wait_acquired():
                rc, err = h.finish(signal.SIGKILL)
                raise RuntimeError("test-lock did not acquire: " + err.decode("utf-8", "replace")[-300:])
            holder_lock = lock_text(ws)
            before = tree_snap(ws)
            rc, out, err = common.cli(argv, ws, timeout=60)
            after = tree_snap(ws)
            lock_during = lock_text(ws)
            still_holding = h.p.poll() is None
        finally:
            hrc, herr = h.finish(sig)
        lock_after = lock_text(ws)
    refused = rc != 0 and b"already running" in err
    return {"scenario": "under_lock", "cmd": cmd, "argv": argv, "signal": signal.Signals(sig).name, "rc": rc,
            "refused": refused, "touched": before != after,
            "diff": common.snap_diff(before, after, limit=3), "stderr": err.decode("utf-8", "replace")[-300:],
            "holder_lock_intact": lock_during == holder_lock and still_holding,
            "holder_rc": hrc, "lock_after_holder_exit": None if lock_after is None else lock_after.decode("utf-8", "replace")}


DRY_RUNS = {"rename --dry-run": ["rename", "foo_bar", "baz_qux", "--dry-run", "--no-auto-init"],
            "plan --dry-run": ["plan", "foo_bar", "baz_qux", "--dry-run", "--no-auto-init"],
            "search": ["search", "foo_bar", "--no-auto-init"]}


def scenario_dry_run(ctx, name, held):
    """a dry run takes no lock and writes nothing: under a held lock it still runs, and on a fresh tree it does not
    even create .renamify/"""
    with common.scratch() as ws:
        make_ws(ws)
        h = None
        if held:
            h = Holder(ws, 20000)
            if not h.wait_acquired():
                h.finish(signal.SIGKILL)
                raise RuntimeError("test-lock did not acquire")
        else:
            os.rmdir(os.path.join(ws, ".renamify"))
        try:
            holder_lock = lock_text(ws)
            before = tree_snap(ws)
            rc, out, err = common.cli(DRY_RUNS[name], ws, timeout=60)
            after = tree_snap(ws)
            intact = lock_text(ws) == holder_lock
        finally:
            if h is not None:
                h.finish(signal.SIGTERM)
        return {"scenario": "dry_run", "name": name, "held": held, "rc": rc, "touched": before != after,
                "diff": common.snap_diff(before, after, limit=3), "lock_intact": intact,
                "refused": rc != 0 and b"already running" in err, "stderr": err.decode("utf-8", "replace")[-200:]}


def scenario_prompt_sigint(ctx):
    """Ctrl-C while `rename` waits at its confirmation prompt (the handler exits the process itself): exit 130,
    nothing changed, lock file gone"""
    import pty
    import select
    with common.scratch() as ws:
        make_ws(ws)
        master, slave = pty.openpty()
        p = subprocess.Popen([common.CLI_BIN, "rename", "foo_bar", "baz_qux", "--no-auto-init"], cwd=ws, env=cli_env(ws),
                             stdin=slave, stdout=slave, stderr=slave, close_fds=True)
        os.close(slave)
        seen, t0 = b"", time.time()
        try:
            while b"Apply? [y/N]" not in seen and time.time() - t0 < 30 and p.poll() is None:
                r, _, _ = select.select([master], [], [], 0.2)
                if r:
                    try:
                        chunk = os.read(master, 65536)
                    except OSError:
                        break
                    if not chunk:
                        break
                    seen += chunk
            prompted = b"Apply? [y/N]" in seen
            lock_during = lock_text(ws)
            before = {k: v for k, v in tree_snap(ws).items() if not k.startswith(".renamify")}
            if p.poll() is None:
                p.send_signal(signal.SIGINT)
            try:
                rc = p.wait(timeout=15)
            except subprocess.TimeoutExpired:
                p.kill()
                rc = p.wait()
        finally:
            os.close(master)
        after = {k: v for k, v in tree_snap(ws).items() if not k.startswith(".renamify")}
        return {"scenario": "prompt_sigint", "prompted": prompted, "lock_during_prompt": lock_during is not None,
                "rc": rc, "lock_gone": lock_text(ws) is None, "touched": before != after}


def scenario_other_binary(ctx, mode):
    """A live holder is never taken over, whichever executable file holder and contender were started from.
    mode: 'copy-holds' (holder = a copy of the binary elsewhere, contender = the built one), 'copy-contends' (the
    reverse), 'replaced' (the holder's binary file is replaced on disk while it runs: /proc/<pid>/exe then reads
    "<path> (deleted)")."""
    import shutil
    with common.scratch() as ws, common.scratch(prefix="renamify-verif-bin.") as bindir:
        make_ws(ws)
        copy = os.path.join(bindir, "renamify-copy")
        shutil.copy2(common.CLI_BIN, copy)
        holder_bin = copy if mode in ("copy-holds", "replaced") else common.CLI_BIN
        contender_bin = common.CLI_BIN if mode == "copy-holds" else copy
        err = open(os.path.join(bindir, "holder.err"), "w+b")
        hp = subprocess.Popen([holder_bin, "test-lock", "--delay", "20000", "--no-auto-init"], cwd=ws, env=cli_env(ws),
                              stdout=subprocess.DEVNULL, stderr=err, stdin=subprocess.DEVNULL)
        info = {"scenario": "other_binary", "mode": mode}
        try:
            t0 = time.time()
            while time.time() - t0 < 10 and lock_text(ws) is None and hp.poll() is None:
                time.sleep(0.01)
            holder_lock = lock_text(ws)
            info["holder_acquired"] = holder_lock is not None
            if mode == "replaced":
                fresh = copy + ".new"
                shutil.copy2(common.CLI_BIN, fresh)
                os.rename(fresh, copy)          # the running holder's file is now unlinked
                try:
                    info["holder_exe"] = os.readlink(f"/proc/{hp.pid}/exe")
                except OSError as ex:
                    info["holder_exe"] = repr(ex)
            before = tree_snap(ws)
            p = subprocess.run([contender_bin, "rename", "foo_bar", "baz_qux", "-y", "--no-auto-init"], cwd=ws, env=cli_env(ws),
                               stdout=subprocess.PIPE, stderr=subprocess.PIPE, stdin=subprocess.DEVNULL, timeout=60)
            after = tree_snap(ws)
            info.update(rc=p.returncode, refused=p.returncode != 0 and b"already running" in p.stderr,
                        touched=before != after, holder_alive=hp.poll() is None,
                        holder_lock_intact=lock_text(ws) == holder_lock,
                        stderr=p.stderr.decode("utf-8", "replace")[-300:])
        finally:
            if hp.poll() is None:
                hp.send_signal(signal.SIGTERM)
            try:
                hp.wait(timeout=15)
            except subprocess.TimeoutExpired:
                hp.kill()
                hp.wait()
            err.close()
        return info


def judge_other_binary(ctx, info):
    ctx.case(("other_binary", info["mode"]), nontrivial=True)
    ctx.count(f"other_binary:{info['mode']}:" + ("refused" if info.get("refused") else "entered"))
    if not info.get("holder_acquired"):
        ctx.notes.append(f"other_binary {info['mode']}: the holder did not acquire; scenario not evaluated")
        return
    if not (info["refused"] and not info["touched"] and info["holder_lock_intact"] and info["holder_alive"]):
        ctx.violation("argv", info,
                      expected="a command is refused, and changes nothing, while another renamify process holds the lock — "
                               "whatever executable file the two were started from",
                      observed=f"rc={info['rc']} refused={info['refused']} tree changed={info['touched']} "
                               f"holder's lock intact={info['holder_lock_intact']}")


def scenario_release(ctx, how):
    """the lock is gone once the holder has exited: normally, with an error, after SIGINT / SIGTERM"""
    with common.scratch() as ws:
        make_ws(ws)
        info = {"scenario": "release", "how": how}
        if how == "normal":
            h = Holder(ws, 30)
            ok = h.wait_acquired()
            rc, err = h.finish()
            info.update(acquired=ok, rc=rc, expect_rc=0)
        elif how in ("SIGINT", "SIGTERM"):
            h = Holder(ws, 20000)
            ok = h.wait_acquired()
            rc, err = h.finish(getattr(signal, how))
            info.update(acquired=ok, rc=rc, expect_rc=130)
        elif how == "error":
            # fails inside plan_operation after the lock was taken (invalid --exclude-matching-lines regex)
            rc, out, err = common.cli(["plan", "foo_bar", "baz_qux", "--no-auto-init", "--exclude-matching-lines", "("], ws)
            info.update(acquired=True, rc=rc, expect_rc=3)
        elif how == "SIGKILL-then-next":
            h = Holder(ws, 20000)
            ok = h.wait_acquired()
            rc, err = h.finish(signal.SIGKILL)
            left = lock_text(ws)
            rc2, out2, err2 = common.cli(["plan", "foo_bar", "baz_qux", "--no-auto-init", "--quiet"], ws)
            info.update(acquired=ok, rc=rc, expect_rc=-9, leftover=left is not None, next_rc=rc2,
                        next_err=err2.decode("utf-8", "replace")[-200:])
        info["lock_gone"] = lock_text(ws) is None
    return info


def scenario_injected(ctx, name):
    """a leftover lock file and the next mutating command"""
    with common.scratch() as ws:
        make_ws(ws)
        now = int(time.time())
        content = {"empty": b"", "garbage": b"invalid_format", "future": f"{DEAD_PID}:{now + 100}".encode(),
                   "orphaned": f"{DEAD_PID}:{now - 10}".encode(), "stale": f"{DEAD_PID}:{now - 301}".encode()}[name]
        with open(os.path.join(ws, LOCK_REL), "wb") as fh:
            fh.write(content)
        before = tree_snap(ws)
        runs = []
        for _ in range(2):
            rc, out, err = common.cli(["plan", "foo_bar", "baz_qux", "--no-auto-init", "--quiet"], ws)
            runs.append((rc, err.decode("utf-8", "replace")[-300:]))
        after = tree_snap(ws)
        return {"scenario": "injected", "name": name, "runs": runs, "touched": before != after,
                "lock_left": lock_text(ws) is not None}


def scenario_stale_live(ctx, foreign_drop):
    """a live holder whose lock says it started 301 s ago; a newcomer"""
    with common.scratch() as ws:
        make_ws(ws)
        a = Holder(ws, 1500 if foreign_drop else 20000)
        info = {"scenario": "stale_live", "foreign_drop": foreign_drop}
        b = None
        try:
            if not a.wait_acquired():
                raise RuntimeError("test-lock did not acquire")
            with open(os.path.join(ws, LOCK_REL), "w") as fh:
                fh.write(f"{a.p.pid}:{int(time.time()) - 301}")
            b = Holder(ws, 20000)
            info["second_acquired"] = b.wait_acquired()
            info["first_still_alive"] = a.p.poll() is None
            info["two_holders"] = bool(info["second_acquired"] and info["first_still_alive"])
            if foreign_drop and info["two_holders"]:
                rc_a, _ = a.finish()
                a = None
                info["first_rc"] = rc_a
                info["second_still_alive"] = b.p.poll() is None
                info["lock_gone_while_second_holds"] = lock_text(ws) is None and info["second_still_alive"]
                rc, out, err = common.cli(["plan", "foo_bar", "baz_qux", "--no-auto-init", "--quiet"], ws)
                info["third_rc"] = rc
                info["third_entered_while_second_holds"] = rc == 0 and b.p.poll() is None
        finally:
            if a is not None:
                a.finish(signal.SIGTERM)
            if b is not None:
                b.finish(signal.SIGTERM)
    return info


# ------------------------------------------------------------------------------------------------
# (d) real processes under the scheduler

def shim_available():
    if not os.path.exists(os.path.join(common.ROOT, "checks", "shim.py")):
        return False, "checks/shim.py missing"
    if not os.path.exists(os.path.join(common.ROOT, "shim", "fsshim.c")):
        return False, "shim/fsshim.c missing"
    try:
        common.build_shim()
    except Exception as ex:  # noqa: BLE001
        return False, f"shim build failed: {ex}"
    if not os.path.exists(common.SHIM_SO):
        return False, "fsshim.so missing"
    return True, ""


KIND_OPS = {"exists": ("exists",), "open": ("openr",), "read": ("read",), "unlink": ("unlink",), "mkdir": ("mkdir",),
            "create": ("openw", "link"), "write": ("write",), "dropexists": ("exists", "openr"), "dropunlink": ("unlink",),
            "flock": ("flock",), "dropflock": ("flock",)}
# set by run() from the translator: in the guarded shape of lock.rs the directory is created before the flock (the
# model keeps its no-op `mkdir` step where it was), and the flock on `.renamify` is a scheduling point
SHAPE = {"guarded": False, "live_never_stale": False}

INITS = {
    # name -> (model initial-cell, injected file content as a function of name->pid, extra time for newcomers)
    "absent": ("absent", None),
    "orphaned": ("pidts:ORPHAN:now-10", lambda: f"{DEAD_PID}:{FAKE_T0 - 10}"),
    "stale": ("pidts:ORPHAN:now-301", lambda: f"{DEAD_PID}:{FAKE_T0 - 301}"),
    "empty": ("empty", lambda: ""),
    "garbage": ("garbage", lambda: "invalid_format"),
    "invalid": ("invalid", lambda: b"\xff\xfe"),
}
BLOCKED = ("eexist", "read-invalid")


def relevant(ev):
    """calls on the lock path itself (not on the private `renamify.lock.<pid>.tmp`), the liveness probe, mkdir -p"""
    if ev.op == "funlock":
        return False            # folded into the last guarded call (model and real process alike)
    return (ev.path.endswith("renamify.lock") or (ev.path2 or "").endswith("renamify.lock") or ev.op in ("kill0", "flock")
            or (ev.op == "mkdir" and ev.path == ".renamify" and not SHAPE["guarded"]))


def classify_stderr(text):
    if "Lock acquired" in text:
        return "acquired"
    if "already running" in text:
        return "already-running"
    if "Failed to create lock file" in text:
        return "eexist"
    if "Failed to read lock file content" in text:
        return "read-invalid"
    if "Failed to read lock file" in text:
        return "read-enoent"
    if "Failed to remove stale lock file" in text:
        return "remove-stale-enoent"
    if "Failed to remove orphaned lock file" in text:
        return "remove-orphaned-enoent"
    if "Failed to remove empty lock file" in text:
        return "remove-empty-enoent"
    if "Failed to remove unparsable lock file" in text:
        return "remove-unparsable-enoent"
    if "panicked" in text:
        return "panicked"
    return "running"


def classify_model_pc(pc):
    pc = pc.replace("+exited", "")
    if pc in ("holding", "dropcheck", "dropunlink", "done"):
        return "acquired"
    if pc.startswith("failed:"):
        what = pc[len("failed:"):]
        return "already-running" if what.startswith("already-running") else what
    if pc == "panicked":
        return "panicked"
    return "running"


def parse_model_state(line):
    """`calls=… P0=… P1=… cell=… stolen=… maxholders=…` -> dict"""
    out = {"pcs": {}}
    for tok in line.split():
        k, _, v = tok.partition("=")
        if k == "calls":
            out["calls"] = [] if v == "-" else [tuple(c.split(":", 1)) for c in v.split(",")]
        elif k.startswith("P") and k[1:].isdigit():
            out["pcs"][int(k[1:])] = v
        else:
            out[k] = v
    return out


def run_real_schedule(shim, init, n, schedule, model, held_age=None, cmds=None):
    """Drive `schedule` (model process ids) through real processes.  `model` = parsed locktrace output (gives
    the call kind of every step).  Returns the observation dict."""
    with common.scratch() as ws:
        make_ws(ws)
        content = INITS[init][1] if init in INITS else None
        if content is not None:
            with open(os.path.join(ws, LOCK_REL), "wb") as fh:
                c = content()
                fh.write(c if isinstance(c, bytes) else c.encode())
        procs = {}
        for i in range(n):
            t = FAKE_T0
            if held_age is not None:
                # process 0 is the holder: it started `held_age` seconds before everybody else looks
                t = FAKE_T0 - held_age if i == 0 else FAKE_T0
            args = (cmds[i] if cmds else ["test-lock", "--delay", "0"]) + ["--no-auto-init"]
            procs[f"P{i}"] = (args, {"FSSHIM_TIME": str(t)})
        before = tree_snap(ws)
        obs = {"mismatch": None, "steps": []}
        with shim.Scheduler(ws, procs, reads=True, timeout=8.0, shim_timeout_ms=60000) as s:
            def advance(name):
                while True:
                    pend = s.pending_one(name)
                    if pend is None:
                        return None
                    ev = shim.parse_line(pend)
                    if ev is None:
                        return None
                    if relevant(ev):
                        return ev
                    s.step(name)

            def stderr_of(name):
                s.files[name][1].flush()
                with open(s._f(name, "stderr"), "rb") as fh:
                    return fh.read().decode("utf-8", "replace")

            holding, maxholders = set(), 0
            wrote = set()

            def acquired(i):
                return i in wrote or "Lock acquired" in stderr_of(f"P{i}")

            def outcome_of(i):
                return "acquired" if acquired(i) else classify_stderr(stderr_of(f"P{i}"))

            if held_age is not None:
                # bring the holder to the point where acquire has returned
                for _ in range(8):
                    ev = advance("P0")
                    if ev is None or "Lock acquired" in stderr_of("P0"):
                        break
                    s.step("P0")
                advance("P0")
                if "Lock acquired" in stderr_of("P0"):
                    holding.add(0)
                maxholders = len(holding)
            for name in procs:
                advance(name)
            for (p, kind) in model["calls"]:
                p = int(p)
                name = f"P{p}"
                done = ""
                if kind == "mkdir" and SHAPE["guarded"]:
                    pass        # create_dir_all already happened, before the flock
                elif kind in KIND_OPS:
                    ev = advance(name)
                    if ev is None or ev.op not in KIND_OPS[kind]:
                        obs["mismatch"] = {"step": len(obs["steps"]), "proc": p, "model_call": kind,
                                           "real_pending": None if ev is None else ev.raw}
                        break
                    done = s.step(name)
                    if kind == "read" or (kind == "dropexists" and ev.op == "openr"):
                        # read_to_string = all reads up to EOF (a content-checking Drop opens and reads, too)
                        while True:
                            ev2 = advance(name)
                            if ev2 is not None and ev2.op == "read":
                                s.step(name)
                            else:
                                break
                    if kind == "dropunlink":
                        holding.discard(p)
                elif kind == "decide":
                    ev = advance(name)
                    if ev is not None and ev.op == "kill0":
                        done = s.step(name)
                elif kind == "exit":
                    advance(name)
                    try:
                        s.p[name].wait(timeout=10)
                    except subprocess.TimeoutExpired:
                        obs["mismatch"] = {"step": len(obs["steps"]), "proc": p, "model_call": kind,
                                           "real_pending": "process did not exit"}
                        break
                published = kind == "write" or (kind == "create" and " link " in done)
                if published and done.partition(" => ")[2].strip().isdigit():
                    wrote.add(p)
                nxt = advance(name)
                if published and acquired(p):
                    holding.add(p)
                if nxt is None:
                    holding.discard(p)      # the process is gone (a Drop that found a foreign file removes nothing)
                maxholders = max(maxholders, len(holding))
                obs["steps"].append(f"{p}:{kind}" + (" => " + done.partition(" => ")[2] if done else ""))
            # observation at the end of the schedule, before anybody is released
            outcome = {i: outcome_of(i) for i in range(n)}
            pid_name = {s.p[f"P{i}"].pid: f"P{i}" for i in range(n)}
            raw = lock_text(ws)
            if raw is None:
                cell = "absent"
            else:
                txt = raw.decode("utf-8", "replace")
                parts = txt.split(":")
                if txt == "":
                    cell = "empty"
                elif "\ufffd" in txt:
                    cell = "invalid"
                elif len(parts) == 2 and parts[0].isdigit() and parts[1].isdigit():
                    pid, ts = int(parts[0]), int(parts[1])
                    who = pid_name.get(pid, "ORPHAN" if pid == DEAD_PID else str(pid))
                    d = ts - FAKE_T0
                    cell = f"{who}:t{'+' if d >= 0 else '-'}{abs(d)}"
                else:
                    cell = "garbage"
            obs.update(outcome=outcome, cell=cell, maxholders=maxholders, holding_at_end=sorted(holding))
            # settle (oracle only): whoever is still inside acquire finishes it, one call at a time, while the
            # holders keep holding — a process the model expected to fail may acquire here
            for i in range(n):
                name = f"P{i}"
                for _ in range(24):
                    if acquired(i):
                        break
                    ev = advance(name)
                    if ev is None:
                        break
                    d = s.step(name)
                    if ev.op in ("write", "link") and d.partition(" => ")[2].strip().isdigit():
                        wrote.add(i)
                advance(name)
                if outcome[i] == "running" and acquired(i):
                    holding.add(i)
                maxholders = max(maxholders, len(holding))
            obs["maxholders_settled"] = maxholders
            obs["outcome_settled"] = {i: outcome_of(i) for i in range(n)}
            # Python-side waits that gave up on a live process: such a run is not a valid observation of the schedule
            obs["sched_timeouts"] = [list(t) for t in getattr(s, "timeouts", [])]
            res = s.run_schedule([], then_free=True)
            obs["rc"] = {i: res[f"P{i}"].rc for i in range(n)}
        obs["lock_gone_at_end"] = lock_text(ws) is None
        after = tree_snap(ws)
        obs["tree_touched"] = before != after
        obs["user_tree"] = common.snap_digest(common.snapshot(ws))
        return obs


def model_cell_owner(cell):
    """model `cell=` field -> the same notation as the real observation"""
    if cell == "absent":
        return "absent"
    _, _, content = cell.partition("/")
    return content


def real_schedules(ctx):
    """Model schedules on real processes.  Correspondence: outcome per process, lock content, max simultaneous
    holders = model prediction.  Oracle: at most one simultaneous holder; lock gone once everybody has exited."""
    ok, why = shim_available()
    if not ok:
        ctx.notes.append("real_schedules skipped: " + why + " (the schedule-dependent witnesses stand on the model and "
                         "the sequential correspondence only)")
        ctx.count("real:skipped")
        return
    from . import shim

    def model_trace(cell, n, sched, spec="debug,exits", now=FAKE_T0):
        line = common.run_model([" ".join(["locktrace", cell, str(now), spec, str(n)] + [str(x) for x in sched])])[0]
        return parse_model_state(line), line

    def model_enum(cell, n, mode, spec=None):
        # In the guarded shape a process that waits for the flock cannot move, so the shape's own interleavings are
        # few.  The regression cases are the interleavings of the UNGUARDED shape (the ones that used to produce the
        # races): the same schedules are replayed on the guarded model and on the real processes, where a turn of a
        # process that waits for the guard is one refused flock(LOCK_NB) attempt.
        if spec is None:
            spec = "debug,exits,unguarded,stalefirst" if SHAPE["guarded"] else "debug,exits"
        line = common.run_model([f"lockenum {cell} {FAKE_T0} {spec} {n} {mode}"])[0]
        cnt, _, rest = line.partition(" ")
        return [[int(x) for x in sch.split(",")] for sch in rest.split("|") if sch]

    t_start = time.time()
    budget = 900.0 if ctx.thorough else 150.0
    state = {"disagree": 0, "stopped": None}

    class Stop(Exception):
        pass

    def one(label, init, n, sched, held_age=None, expect_findings=(), cmds=None):
        if state["disagree"] >= 5:
            state["stopped"] = "5 schedules disagreed with the model (tie broken); remaining schedules not run"
            raise Stop()
        if time.time() - t_start > budget:
            state["stopped"] = f"time budget of {int(budget)} s for scheduled runs used up"
            raise Stop()
        cell = INITS[init][0] if init in INITS else init
        model, mline = model_trace(cell, n, sched)
        case = {"scenario": "schedule", "label": label, "init": init, "n": n, "schedule": sched, "held_age": held_age}
        ctx.case(("sched", init, n, tuple(sched)), nontrivial=len(sched) > 0)
        ctx.count(f"real:{init}:n={n}")
        want = {i: classify_model_pc(pc) for i, pc in model["pcs"].items()}
        ctx.cov["disagreements_checked"] += 1
        agree, obs = False, None
        attempt, invalid = 0, 0
        while attempt < 3:
            # the scheduler talks to the processes through files and polls: on a heavily loaded machine a step can
            # time out; a disagreement counts only if it reproduces three times in a row
            obs = run_real_schedule(shim, init if init in INITS else "absent", n, sched, model, held_age=held_age, cmds=cmds)
            if obs["sched_timeouts"] and invalid < 5 and max(obs["maxholders"], obs.get("maxholders_settled", 0)) < 2:
                # the scheduler lost track of a process (machine overloaded): run the schedule again, uncounted
                invalid += 1
                ctx.count("real:invalid-run(timeout)")
                continue
            attempt += 1
            agree = (obs["mismatch"] is None and obs["outcome"] == want
                     and obs["cell"] == model_cell_owner(model["cell"]) and obs["maxholders"] == int(model["maxholders"]))
            # oracle, independent of the model, on every attempt
            bad = []
            if max(obs["maxholders"], obs["maxholders_settled"]) >= 2:
                bad.append("two-holders")
            if not obs["lock_gone_at_end"] and any(v == "acquired" for v in obs["outcome"].values()):
                bad.append("lock-left")
            if (obs["mismatch"] is None and init in ("empty", "garbage", "invalid")
                    and all(v in BLOCKED for v in obs["outcome"].values())):
                bad.append("blocked")
            if any(v == "panicked" for v in obs["outcome"].values()):
                bad.append("panic")
            if bad:
                covered = agree and bool(expect_findings) and all(ctx.known(f) for f in expect_findings)
                if not covered and (agree or attempt == 3 or "two-holders" in bad or "panic" in bad):
                    ctx.violation("schedule", case, expected="at most one holder; lock gone; nobody blocked or crashed",
                                  observed=obs, model_prediction=mline,
                                  note="real renamify processes driven by the fsshim scheduler: " + ", ".join(bad))
                    state["stopped"] = "a violating schedule was found"
                    raise Stop()
            if agree:
                break
            ctx.count("real:retry")
        ctx.count("real:oracle=" + ("ok" if not bad else "+".join(bad)))
        if not agree:
            state["disagree"] += 1
            ctx.broke("correspondence", "real_schedules: scheduled processes vs Lock model",
                      {"case": case, "real": obs, "model": mline})
        obs.pop("user_tree", None) if cmds is None else None
        ctx.sample({"op": "real-schedule", "label": label, "schedule": sched, "real": {k: obs[k] for k in ("outcome", "cell", "maxholders")}}, limit=10)
        return obs, agree

    try:
        scheduled_stage(ctx, one, model_enum)
    except Stop:
        ctx.notes.append("real_schedules stopped early: " + state["stopped"])
        ctx.count("real:stopped-early")


def free_run(shim, init, a, b):
    """MODEL-FREE schedule on two real `test-lock` processes: P0 issues `a` of its calls, P1 issues `b` of its calls, then the
    two take turns of up to 16 calls each until both have acquired or left.  Nobody is stepped past its acquisition, so a process that has
    printed "Lock acquired" still holds.  Returns the observation (holders at the end = simultaneous holders)."""
    with common.scratch() as ws:
        make_ws(ws)
        content = INITS[init][1] if init in INITS else None
        if content is not None:
            with open(os.path.join(ws, LOCK_REL), "wb") as fh:
                c = content()
                fh.write(c if isinstance(c, bytes) else c.encode())
        procs = {f"P{i}": (["test-lock", "--delay", "0", "--no-auto-init"], {"FSSHIM_TIME": str(FAKE_T0)}) for i in range(2)}
        steps = []
        with shim.Scheduler(ws, procs, reads=True, timeout=8.0, shim_timeout_ms=60000) as s:
            def advance(name):
                while True:
                    pend = s.pending_one(name)
                    if pend is None:
                        return None
                    ev = shim.parse_line(pend)
                    if ev is None:
                        return None
                    if relevant(ev):
                        return ev
                    s.step(name)

            def stderr_of(name):
                s.files[name][1].flush()
                with open(s._f(name, "stderr"), "rb") as fh:
                    return fh.read().decode("utf-8", "replace")

            def acquired(i):
                return "Lock acquired" in stderr_of(f"P{i}")

            def go(i, limit):
                name, k = f"P{i}", 0
                while k < limit:
                    ev = advance(name)       # the process is parked at its next call: what it has printed so far is visible
                    if ev is None or acquired(i):
                        return               # never step a holder into its release
                    s.step(name)
                    steps.append(f"{i}:{ev.op}")
                    k += 1
            go(0, a); go(1, b)
            for _ in range(4):          # a process waiting for the guard burns its turn on refused flock attempts: alternate
                go(0, 16); go(1, 16)
            holders = [i for i in range(2) if acquired(i)]
            obs = {"a": a, "b": b, "holders_at_once": holders, "steps": steps,
                   "outcome": {i: ("acquired" if acquired(i) else classify_stderr(stderr_of(f"P{i}"))) for i in range(2)},
                   "sched_timeouts": [list(t) for t in getattr(s, "timeouts", [])]}
            s.run_schedule([], then_free=True)
        return obs


def free_exploration(ctx):
    """the search for a concrete failing schedule when the tie to the Lock model is broken (the translator cannot read
    lock.rs any more, or the real call sequence no longer follows the model's): every split `P0 runs a calls, P1 runs b calls,
    P0 finishes acquiring, P1 finishes acquiring` from every leftover kind and from `absent`, with NO model in the loop.
    Oracle: two processes that both report "Lock acquired" before either has released."""
    ok, why = shim_available()
    if not ok:
        return
    from . import shim
    from concurrent.futures import ThreadPoolExecutor
    t0 = time.time()
    jobs = [(init, a, b) for init in ("orphaned", "stale", "empty", "garbage", "absent") for a in range(0, 13) for b in range(0, 13)]
    found = None

    def run(job):
        if found is not None or time.time() - t0 > 600:
            return None
        init, a, b = job
        try:
            return job, free_run(shim, init, a, b)
        except Exception as ex:          # a lost process on a loaded machine: not an observation
            return job, {"error": repr(ex), "holders_at_once": []}
    with ThreadPoolExecutor(8) as ex:
        for r in ex.map(run, jobs):
            if r is None:
                continue
            (init, a, b), obs = r
            ctx.count("free:" + init)
            ctx.case(("free", init, a, b), nontrivial=True)
            if len(obs.get("holders_at_once", [])) >= 2 and found is None:
                # confirm once more (a scheduler hiccup must not be reported)
                again = free_run(shim, init, a, b)
                if len(again.get("holders_at_once", [])) >= 2:
                    found = (init, a, b, again)
    if found:
        init, a, b, obs = found
        ctx.violation("schedule", {"scenario": "free-schedule", "init": init, "p0_calls_first": a, "p1_calls_then": b,
                                   "then": "P0 until acquired, P1 until acquired"},
                      expected="at most one process reports 'Lock acquired' before the other has released",
                      observed=obs, note="model-free exploration of two real test-lock processes under the fsshim scheduler "
                                         "(run because the tie to the Lock model is broken): two simultaneous holders")
    else:
        ctx.notes.append(f"free exploration: {len(jobs)} two-process splits x 5 initial lock files, no double holder found")


def scheduled_stage(ctx, one, model_enum):
    # all interleavings of two acquires from `absent` (the theorem says: never two holders) — first, because this
    # is where a broken O_EXCL / reordered acquire shows up as a concrete failing schedule
    for sch in model_enum("absent", 2, "split"):
        one("absent/all", "absent", 2, sch)
    race = [0, 0, 0, 0, 1, 1, 1, 1, 0, 0, 0, 0, 1, 1, 1, 1]
    # the Lean witness schedules
    one("C12_witness_orphan_race", "orphaned", 2, race, expect_findings=("orphan_race",))
    one("C12_witness_stale_race", "stale", 2, race, expect_findings=("stale_race",))
    one("C12_witness_exit_race", "absent", 3, [0, 0, 0, 0, 1, 1, 1, 0, 0, 0, 0, 2, 2, 2, 2, 1, 1, 1, 1, 1],
        expect_findings=("exit_race",))
    one("C12_witness_malformed_blocks", "garbage", 2, [0] * 6 + [1] * 6,
        expect_findings=("malformed_blocks_text",) if (ctx.cov.get("source_variant") or {}).get("abandon") != "unparsable"
        else ("unparsable_cleaner_race",))
    one("C12_witness_stale_live_evicted", "held:now-301", 2, [1] * 8, held_age=301, expect_findings=("stale_live_evicted",))
    one("live holder keeps a newcomer out", "held:now-10", 2, [1] * 4, held_age=10)
    # two real `rename` commands: the loser must leave the tree exactly as the winner alone leaves it
    pair = [["rename", "foo_bar", "baz_qux", "-y", "--quiet"], ["rename", "foo_bar", "zzz_yyy", "-y", "--quiet"]]
    obs, agree = one("rename vs rename, absent", "absent", 2, [0, 0, 0, 1, 1, 1, 1, 1, 1, 0], cmds=pair)
    if agree and obs["outcome"] == {0: "acquired", 1: "eexist"}:
        with common.scratch() as ws2:
            make_ws(ws2)
            common.cli(pair[0] + ["--no-auto-init"], ws2)
            alone = common.snap_digest(common.snapshot(ws2))
        ctx.count("real:loser-tree-checked")
        if alone != obs["user_tree"]:
            ctx.violation("schedule", {"scenario": "schedule", "label": "rename vs rename, absent", "init": "absent", "n": 2,
                                       "schedule": [0, 0, 0, 1, 1, 1, 1, 1, 1, 0], "held_age": None, "cmds": pair},
                          expected={"tree after the winner alone": alone}, observed={"tree": obs["user_tree"]},
                          note="the process whose acquire failed changed the tree")
    one("rename vs rename, orphan race", "orphaned", 2, race, expect_findings=("orphan_race",), cmds=pair)
    rng = ctx.rng
    variant = ctx.cov.get("source_variant") or {"abandon": "none"}
    # an unparsable file either blocks (malformed_blocks) or is cleaned up by a check-then-unlink like an orphaned one
    f_empty = ("malformed_blocks_text",) if variant["abandon"] == "none" else ("unparsable_cleaner_race",)
    f_garbage = ("unparsable_cleaner_race",) if variant["abandon"] == "unparsable" else ("malformed_blocks_text",)
    plan = [("orphaned", "glue", ("orphan_race",)), ("stale", "glue", ("stale_race",)),
            ("empty", "glue", f_empty), ("garbage", "glue", f_garbage),
            ("invalid", "glue", ("malformed_blocks",))]
    for init, mode, finds in plan:
        all_s = model_enum(INITS[init][0], 2, mode)
        pick = all_s if ctx.thorough else rng.sample(all_s, min(25, len(all_s)))
        for sch in pick:
            one(f"{init}/{'all' if ctx.thorough else 'sample'}", init, 2, sch, expect_findings=finds)
    # holder working / dropping while a newcomer acquires: every interleaving
    for sch in model_enum("held:now-10", 2, "full"):
        one("held/full", "held:now-10", 2, sch, held_age=10)
    if ctx.thorough:
        all3 = model_enum("absent", 3, "split")
        for sch in rng.sample(all3, min(300, len(all3))):
            one("absent/3procs", "absent", 3, sch)
    if ctx.thorough:
        ctx.notes.append("real_schedules: every interleaving of two acquires from absent / orphaned / stale / empty / garbage "
                         "and of holder-drop vs newcomer; 300 sampled interleavings of three acquires")


# ------------------------------------------------------------------------------------------------

def judge_under_lock(ctx, info, table_locks):
    cmd = info["cmd"]
    ctx.case(("under_lock", cmd), nontrivial=True)
    ctx.count(f"cli:{cmd}:" + ("refused" if info["refused"] else "entered"))
    slug = f"unlocked_{cmd}"
    if info["refused"] != table_locks[cmd]:
        ctx.broke("translator", "Gen.LockUsers.table vs CLI",
                  {"cmd": cmd, "table_says_locks": table_locks[cmd], "cli_refused": info["refused"], "stderr": info["stderr"]})
    if not info["holder_lock_intact"]:
        ctx.violation("argv", info, expected="a running holder's lock is never removed or replaced by another command",
                      observed="lock file changed while test-lock was holding it")
        return
    if info["refused"] and not info["touched"]:
        return
    if info["refused"] and info["touched"]:
        ctx.violation("argv", info, expected="a refused command leaves the tree alone", observed=info["diff"])
        return
    # entered although another process holds the lock
    if cmd in ("apply", "undo", "redo", "replace") and not table_locks[cmd] and ctx.known(slug):
        return
    ctx.violation("argv", info, expected=f"`{cmd}` is refused while another renamify process holds the workspace lock",
                  observed=f"rc={info['rc']} tree changed={info['touched']}",
                  model_prediction=f"Gen.LockUsers: locks {cmd} = {table_locks[cmd]}")


def judge_release(ctx, info):
    ctx.case(("release", info["how"]), nontrivial=True)
    ctx.count("release:" + info["how"])
    if info["how"] == "SIGKILL-then-next":
        if info["next_rc"] != 0:
            ctx.violation("argv", info, expected="the lock of a killed process does not block the next command",
                          observed=info["next_err"])
        elif not info["lock_gone"]:
            ctx.violation("argv", info, expected="lock gone after the next command", observed="lock file left")
        return
    if not info["acquired"] or not info["lock_gone"] or info["rc"] != info["expect_rc"]:
        ctx.violation("argv", info, expected=f"holder exits with {info['expect_rc']} and the lock file is gone",
                      observed=f"acquired={info['acquired']} rc={info['rc']} lock_gone={info['lock_gone']}")


def judge_dry_run(ctx, info):
    ctx.case(("dry_run", info["name"], info["held"]), nontrivial=True)
    ctx.count(f"dry_run:{info['name']}:{'held' if info['held'] else 'fresh'}:rc={info['rc']}")
    if info["touched"] or not info["lock_intact"]:
        ctx.violation("argv", info, expected="a dry run / search changes nothing (no plan, no lock file, no .renamify/)",
                      observed=info["diff"] or "lock file changed")
    elif info["refused"]:
        ctx.broke("translator", "Gen.LockUsers.table (unlessDryRun) vs CLI",
                  {"cmd": info["name"], "detail": "a dry run was refused under a held lock", "stderr": info["stderr"]})
    elif info["rc"] != 0:
        ctx.notes.append(f"dry run `{info['name']}` exited {info['rc']}: {info['stderr']}")


def judge_prompt(ctx, info):
    ctx.case(("prompt_sigint",), nontrivial=True)
    ctx.count("prompt_sigint:" + ("prompted" if info["prompted"] else "no-prompt"))
    if not info["prompted"]:
        ctx.notes.append("prompt_sigint: the confirmation prompt did not appear on the pty; scenario not evaluated")
        return
    if not info["lock_during_prompt"]:
        ctx.violation("argv", info, expected="rename holds the lock while it waits for confirmation", observed="no lock file")
    elif info["rc"] != 130 or not info["lock_gone"] or info["touched"]:
        ctx.violation("argv", info, expected="exit 130, tree unchanged, lock file gone after Ctrl-C at the prompt",
                      observed=f"rc={info['rc']} lock_gone={info['lock_gone']} touched={info['touched']}")


def judge_injected(ctx, info, build):
    name = info["name"]
    ctx.case(("injected", name), nontrivial=True)
    rcs = [r[0] for r in info["runs"]]
    errs = " | ".join(r[1] for r in info["runs"])
    ctx.count(f"injected:{name}:rc={rcs[0]}")
    if name in ("orphaned", "stale"):
        if rcs != [0, 0] or info["lock_left"]:
            ctx.violation("argv", info, expected="orphaned / stale lock is cleaned up and the command runs", observed=errs)
        return
    if name in ("empty", "garbage"):
        if all(rc != 0 for rc in rcs) and "Failed to create lock file" in errs and not info["touched"]:
            if not ctx.known("malformed_blocks_text"):
                ctx.violation("argv", info, expected="a leftover lock file that names no live process never blocks the next command",
                              observed=errs)
        elif rcs != [0, 0]:
            ctx.violation("argv", info, expected="command runs (or the known EEXIST block)", observed=errs)
        return
    if name == "future":
        if rcs[0] == 101 and "overflow" in errs and build == "debug":
            if not ctx.known("future_ts_panics"):
                ctx.violation("argv", info, expected="no crash on a lock file with a future timestamp", observed=errs)
        elif rcs[0] != 0:
            ctx.violation("argv", info, expected="command runs (or the known debug-build panic)", observed=errs)


def judge_stale_live(ctx, info):
    ctx.case(("stale_live", info["foreign_drop"]), nontrivial=True)
    if not info.get("second_acquired"):
        ctx.count("stale_live:refused")
        return
    ctx.count("stale_live:evicted")
    if info["two_holders"]:
        if not ctx.known("stale_live_evicted"):
            ctx.violation("argv", info, expected="a running holder's lock is never removed by another process",
                          observed="a second test-lock acquired while the first (lock older than 300 s) was still running")
            return
    if info["foreign_drop"] and info.get("lock_gone_while_second_holds"):
        ctx.count("stale_live:foreign_drop")
        if not ctx.known("drop_removes_foreign"):
            ctx.violation("argv", info, expected="Drop removes only the process's own lock",
                          observed="the evicted holder's exit removed the second holder's lock file")


FINDINGS_MODULE = "RModel.Props.C12Findings"


def prove_findings(ctx):
    """`Props/C12Findings.lean` holds the defects of the pinned tree as theorems over explicit old-style constants
    (not over the regenerated table), so it compiles whatever /repo looks like; the statements about today's source
    are in `Props/C12.lean`.  Built and audited like the main module: every theorem counts as an obligation."""
    names = common.theorem_names(FINDINGS_MODULE)
    ctx.cov["obligations"] += len(names)
    ok, out = common.lean_build([FINDINGS_MODULE])
    if not ok:
        errs = [l for l in out.splitlines() if "error" in l][:12]
        ctx.broke("proof", FINDINGS_MODULE, "\n".join(errs) or out[-1500:])
        return set()
    hits = common.forbidden_tokens(FINDINGS_MODULE)
    res, raw = common.audit(FINDINGS_MODULE)
    bad = [n for n, ax in res if ax is None or not set(ax) <= common.ALLOWED_AXIOMS]
    if hits or bad or not res:
        ctx.broke("proof", FINDINGS_MODULE, f"forbidden tokens {hits[:3]} / axiom audit {bad[:3]} raw={raw[-300:]}")
        return set()
    ctx.cov["discharged"] += len(res)
    ctx.cov.setdefault("theorems", []).extend(n for n, _ in res)
    return {n.split("C12_witness_")[1] for n in names if "C12_witness_" in n}


def table_from_translator(ctx):
    from translate import lock_users
    try:
        lock_users.run()
        lock, variants, rows, acquiring, release_sites = lock_users.extract()
    except Exception as ex:  # noqa: BLE001
        ctx.broke("translator", "translate/lock_users.py", repr(ex))
        return None
    names = {"Plan": "plan", "Rename": "rename", "Apply": "apply", "Undo": "undo", "Redo": "redo", "Replace": "replace",
             "TestLock": "test-lock", "Search": "search", "Init": "init"}
    ctx.cov["source_variant"] = {"abandon": lock["abandon"], "publish_by_link": lock["by_link"],
                                 "guarded": lock["guarded"], "live_never_stale": lock["live_first"],
                                 "lossy_read": lock["lossy"], "drop_checks": lock["drop_checks"]}
    SHAPE["guarded"] = bool(lock["guarded"])
    SHAPE["live_never_stale"] = bool(lock["live_first"])
    ctx.cov["source_variant"]["liveness_is_kill_zero"] = lock["liveness_kill_zero"]
    ctx.cov["source_variant"]["liveness_calls"] = lock["liveness_calls"]
    return {names.get(r["cmd"], r["cmd"].lower()): r["locks"] for r in rows}


def run(ctx):
    ctx.cov["rule"] = ("lockseq: finite grid pid-token x timestamp-token x malformed shapes of an injected lock file "
                       "(exhaustive over the grid), real LockFile::acquire in-process vs model; cli: each mutating command "
                       "under a lock held by test-lock, release after normal/error/SIGINT/SIGTERM/SIGKILL, leftover lock files; "
                       "real-schedule: model-enumerated interleavings of the system calls of 2 (3) test-lock processes driven by "
                       "the LD_PRELOAD scheduler. non-trivial = the case involves a lock file or a second process; "
                       "distinct = distinct request / scenario / schedule")
    ctx.assumptions += ["POSIX semantics of stat/open/read/unlink/open(O_CREAT|O_EXCL)/write on a local file system, each atomic",
                        "kill(pid, 0) == 0 iff the pid is alive (no pid reuse, no EPERM: same user)",
                        "wall clock monotone in the mutex theorems (explicit clock hypothesis: now <= t0 + 300)",
                        "one scheduled process = one command invocation; NFS and Windows not modelled"]
    table_locks = table_from_translator(ctx)
    ctx.prove("RModel.Props.C12")
    witnessed = prove_findings(ctx) if not ctx.broken else set()
    ctx.cov["old_tree_witnesses"] = sorted(witnessed)
    ok, msg = common.cargo_build()
    if not ok:
        ctx.broke("build", "cargo", msg)
        return
    build = common.run_impl(["lockbuild"])[0]
    ctx.cov["build"] = build

    # (a) sequential grid -----------------------------------------------------------------------------
    grid = seq_grid(build)
    grid.append(("stop-helper", "lockother stop"))
    res = common.correspond(ctx, "lockseq: LockFile::acquire on an injected lock file vs Lock.step (one process)",
                            [r for _, r in grid])
    grid.pop(); res.pop()
    seen_slugs = set()
    seq_violations = 0
    for (name, req), (_, impl, model) in zip(grid, res):
        ctx.case(req, nontrivial=name != "absent")
        ctx.count("seq:" + impl.split()[0].split(":")[0])
        verdict = seq_oracle(name, impl)
        if verdict == "ok":
            continue
        if verdict != "violation" and impl == model and (ctx.pid, verdict) in ctx.findings:
            seen_slugs.add(verdict)
            if verdict == "malformed_blocks":
                ctx.known(verdict)       # a non-UTF-8 lock file: in-process is the only place where it is injected
            continue
        if seq_violations < 3:
            ctx.violation("input", {"scenario": "lockseq", "name": name, "request": req},
                          expected="acquire cleans up or reports a live holder", observed=impl, model_prediction=model)
        seq_violations += 1
    ctx.cov["exhaustive"] = True
    if seq_violations > 3:
        ctx.notes.append(f"lockseq: {seq_violations} grid cases violate the single-process oracle; first 3 written as replays")
    ctx.sample({"op": "lockseq", "request": grid[1][1], "impl": res[1][1]})

    # (b) in-process witnesses -------------------------------------------------------------------------
    wit = ["lockwit double_acquire", "lockwit stale_live_evicted", "lockwit drop_removes_foreign"]
    wres = common.correspond(ctx, "lockwit: two LockFile values in one process vs Lock model", wit)
    for r, impl, model in wres:
        ctx.case(r, nontrivial=True)
        ctx.count("wit:" + r.split()[1])
        ctx.sample({"op": r, "impl": impl})
    if wres[0][1] != "second=refused:already-running:SELF file-after-drop=gone":
        ctx.violation("input", {"scenario": "lockwit", "name": "double_acquire"},
                      expected="second acquire refused while the first LockFile is alive; drop removes the file",
                      observed=wres[0][1], model_prediction=wres[0][2])

    # (c) + oracle: CLI --------------------------------------------------------------------------------
    if table_locks is not None:
        sigs = [signal.SIGTERM, signal.SIGINT]
        for k, cmd in enumerate(MUTATING):
            info = scenario_under_lock(ctx, cmd, sigs[k % 2])
            judge_under_lock(ctx, info, table_locks)
            if info["holder_rc"] != 130 or info["lock_after_holder_exit"] is not None:
                ctx.violation("argv", info, expected="holder exits 130 after the signal and its lock is gone",
                              observed=f"rc={info['holder_rc']} lock={info['lock_after_holder_exit']}")
            if k == 0:
                ctx.sample({"op": "under_lock", "cmd": cmd, "refused": info["refused"], "touched": info["touched"]})
    for how in ("normal", "error", "SIGINT", "SIGTERM", "SIGKILL-then-next"):
        judge_release(ctx, scenario_release(ctx, how))
    judge_prompt(ctx, scenario_prompt_sigint(ctx))
    for mode in ("copy-holds", "copy-contends", "replaced"):
        judge_other_binary(ctx, scenario_other_binary(ctx, mode))
    for name in DRY_RUNS:
        judge_dry_run(ctx, scenario_dry_run(ctx, name, True))
        judge_dry_run(ctx, scenario_dry_run(ctx, name, False))
    for name in ("orphaned", "stale", "empty", "garbage", "future"):
        judge_injected(ctx, scenario_injected(ctx, name), build)
    judge_stale_live(ctx, scenario_stale_live(ctx, False))
    judge_stale_live(ctx, scenario_stale_live(ctx, True))

    # (d) scheduled real processes ---------------------------------------------------------------------
    real_schedules(ctx)
    ctx.cov["findings_seen_in_process"] = sorted(seen_slugs)
    if not ctx.violations:
        # always (it is cheap: ~850 runs of two processes, a few seconds each way): an oracle that needs no model, and the
        # search for a concrete schedule when the tie to the Lock model is broken
        free_exploration(ctx)


def replay(ctx, path):
    with open(path) as fh:
        obj = json.load(fh)
    case = obj.get("case") or {}
    if isinstance(case, list):      # an obligation replay: rerun everything
        return run(ctx)
    sc = case.get("scenario")
    ok, msg = common.cargo_build()
    if not ok:
        ctx.broke("build", "cargo", msg)
        return
    build = common.run_impl(["lockbuild"])[0]
    if sc != "under_lock":
        table_from_translator(ctx)      # sets SHAPE from the source
    if sc == "under_lock":
        table = table_from_translator(ctx)
        if table is not None:
            judge_under_lock(ctx, scenario_under_lock(ctx, case["cmd"], getattr(signal, case.get("signal", "SIGTERM"))), table)
    elif sc == "release":
        judge_release(ctx, scenario_release(ctx, case["how"]))
    elif sc == "injected":
        judge_injected(ctx, scenario_injected(ctx, case["name"]), build)
    elif sc == "dry_run":
        judge_dry_run(ctx, scenario_dry_run(ctx, case["name"], bool(case.get("held"))))
    elif sc == "prompt_sigint":
        judge_prompt(ctx, scenario_prompt_sigint(ctx))
    elif sc == "other_binary":
        judge_other_binary(ctx, scenario_other_binary(ctx, case["mode"]))
    elif sc == "stale_live":
        judge_stale_live(ctx, scenario_stale_live(ctx, bool(case.get("foreign_drop"))))
    elif sc == "lockseq":
        req = case["request"]
        impl, model = common.run_impl([req])[0], common.run_model([req])[0]
        verdict = seq_oracle(case.get("name", ""), impl)
        if impl != model:
            ctx.broke("correspondence", "lockseq", {"request": req, "impl": impl, "model": model})
        if verdict == "violation" or (verdict != "ok" and not ctx.known(verdict)):
            ctx.violation("input", case, expected="acquire cleans up or reports a live holder", observed=impl,
                          model_prediction=model)
    elif sc == "lockwit":
        r = "lockwit " + case["name"]
        impl, model = common.run_impl([r])[0], common.run_model([r])[0]
        if impl != model:
            ctx.broke("correspondence", "lockwit", {"request": r, "impl": impl, "model": model})
        if "second=acquired" in impl:
            if not ctx.known("stale_live_evicted" if case["name"] != "drop_removes_foreign" else "drop_removes_foreign"):
                ctx.violation("input", case, expected="a live holder is never evicted", observed=impl, model_prediction=model)
    elif sc == "schedule":
        ok2, why = shim_available()
        if not ok2:
            ctx.notes.append("replay of a schedule needs the shim: " + why)
            return
        replay_schedule(ctx, case)
    elif sc == "free-schedule":
        ok2, why = shim_available()
        if not ok2:
            ctx.notes.append("replay of a schedule needs the shim: " + why)
            return
        from . import shim
        obs = free_run(shim, case["init"], int(case["p0_calls_first"]), int(case["p1_calls_then"]))
        print(json.dumps(obs, indent=1))
        if len(obs.get("holders_at_once", [])) >= 2:
            ctx.violation("schedule", case, expected="at most one process reports 'Lock acquired' before the other has released",
                          observed=obs, note="replayed model-free schedule: two simultaneous holders")
        else:
            print("at most one holder on this schedule")
    else:
        run(ctx)


def replay_schedule(ctx, case):
    from . import shim
    init, n, sched = case["init"], case["n"], case["schedule"]
    cell = INITS[init][0] if init in INITS else init
    line = common.run_model([" ".join(["locktrace", cell, str(FAKE_T0), "debug,exits", str(n)] + [str(x) for x in sched])])[0]
    model = parse_model_state(line)
    obs = run_real_schedule(shim, init if init in INITS else "absent", n, sched, model, held_age=case.get("held_age"),
                            cmds=case.get("cmds"))
    ctx.case(("sched", init, n, tuple(sched)))
    want = {i: classify_model_pc(pc) for i, pc in model["pcs"].items()}
    agree = (obs["mismatch"] is None and obs["outcome"] == want and obs["cell"] == model_cell_owner(model["cell"])
             and obs["maxholders"] == int(model["maxholders"]))
    if not agree:
        ctx.broke("correspondence", "real_schedules", {"case": case, "real": obs, "model": line})
    slug = {"orphaned": "orphan_race", "stale": "stale_race", "empty": "unparsable_cleaner_race",
            "garbage": "unparsable_cleaner_race", "invalid": "malformed_blocks"}.get(init)
    if case.get("label", "").endswith("exit_race"):
        slug = "exit_race"
    if case.get("held_age", 0) and case["held_age"] > 300:
        slug = "stale_live_evicted"
    blocked = init in ("empty", "garbage", "invalid") and all(v in BLOCKED for v in obs["outcome"].values())
    if max(obs["maxholders"], obs["maxholders_settled"]) >= 2 or blocked or (not obs["lock_gone_at_end"] and "acquired" in obs["outcome"].values()):
        if not (agree and slug and ctx.known(slug)):
            ctx.violation("schedule", case, expected="at most one holder; lock gone; nobody blocked", observed=obs,
                          model_prediction=line)
