"""Run every translator (regenerates lean/RModel/Gen/*.lean from /repo). Each translator module in
/verif/translate exposes run() -> list of (path, changed)."""
import importlib, os, sys
ROOT = os.path.dirname(os.path.dirname(os.path.abspath(__file__)))
sys.path.insert(0, ROOT)

def run():
    out = []
    d = os.path.join(ROOT, "translate")
    for f in sorted(os.listdir(d)):
        if f.endswith(".py") and not f.startswith("_"):
            try:
                m = importlib.import_module("translate." + f[:-3])
                if hasattr(m, "run"):
                    out.append((f, m.run()))
            except Exception as ex:  # a translator that cannot parse its source is reported by its own check
                out.append((f, "FAILED: " + repr(ex)[:300]))
    return out
