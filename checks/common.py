"""Shared machinery of the /verif checks (see DESIGN.md section 2.4).

Every check follows the same six steps: translate, prove, rebuild, correspond, oracle, witnesses.
This module holds the plumbing: builds (serialised by a file lock), the axiom audit, the line
protocol to the Lean driver (`rmodel`) and to the Rust harness (`vharness`), scratch trees,
snapshots, the known-findings file, replay files, evidence files and the verdict.
"""
import contextlib
import fcntl
import hashlib
import json
import os
import random
import re
import shutil
import stat
import subprocess
import sys
import tempfile
import time

ROOT = os.path.dirname(os.path.dirname(os.path.abspath(__file__)))
REPO = os.environ.get("VERIF_REPO", "/repo")
LEAN = os.path.join(ROOT, "lean")
HARNESS = os.path.join(ROOT, "harness")
CACHE = os.path.join(ROOT, ".cache")
TARGET = os.path.join(CACHE, "target")
CLI_BIN = os.path.join(TARGET, "debug", "renamify")
HARNESS_BIN = os.path.join(TARGET, "debug", "vharness")
RMODEL_BIN = os.path.join(LEAN, ".lake", "build", "bin", "rmodel")
SHIM_SO = os.path.join(CACHE, "fsshim.so")
KNOWN = os.path.join(ROOT, "KNOWN_FINDINGS.txt")
ALLOWED_AXIOMS = {"propext", "Classical.choice", "Quot.sound"}
FORBIDDEN = re.compile(r"\b(sorry|admit|native_decide|bv_decide|implemented_by|unsafe)\b|^\s*axiom\s|maxHeartbeats\s+0")

BASE_ENV = dict(os.environ)
BASE_ENV.update({"CARGO_NET_OFFLINE": "true", "RUST_BACKTRACE": "0", "NO_COLOR": "true",
                 "LC_ALL": "C.UTF-8"})
for _k in ("RENAMIFY_DEBUG_VARIANTS", "DEBUG_TOKENIZE", "RENAMIFY_DEBUG_TRAIN_CASE", "RUSTFLAGS"):
    BASE_ENV.pop(_k, None)


def log(msg):
    print(f"[check] {msg}", file=sys.stderr, flush=True)


@contextlib.contextmanager
def build_lock(name="build"):
    os.makedirs(CACHE, exist_ok=True)
    with open(os.path.join(CACHE, name + ".lock"), "w") as fh:
        fcntl.flock(fh, fcntl.LOCK_EX)
        try:
            yield
        finally:
            fcntl.flock(fh, fcntl.LOCK_UN)


def sh(cmd, cwd=None, env=None, timeout=3600, input=None):
    p = subprocess.run(cmd, cwd=cwd, env=env or BASE_ENV, stdout=subprocess.PIPE,
                       stderr=subprocess.STDOUT, timeout=timeout, input=input)
    return p.returncode, p.stdout.decode("utf-8", "replace")


# ------------------------------------------------------------------------------------------------
# builds

def write_if_changed(path, text):
    try:
        with open(path) as fh:
            if fh.read() == text:
                return False
    except FileNotFoundError:
        pass
    os.makedirs(os.path.dirname(path), exist_ok=True)
    with open(path, "w") as fh:
        fh.write(text)
    return True


def cargo_build():
    """Rebuild vharness and the CLI from /repo's current working tree.
    cwd is /verif/harness so cargo reads our config (offline, no -D warnings), never the repo's."""
    with build_lock("cargo"):
        lock = os.path.join(HARNESS, "Cargo.lock")
        if not os.path.exists(lock):
            shutil.copy(os.path.join(REPO, "Cargo.lock"), lock)
        rc, out = sh(["cargo", "build", "--offline"], cwd=HARNESS)
        if rc != 0:
            return False, "vharness build failed:\n" + out[-4000:]
        rc, out = sh(["cargo", "build", "--offline", "--manifest-path", os.path.join(REPO, "Cargo.toml"),
                      "-p", "renamify"], cwd=HARNESS)
        if rc != 0:
            return False, "renamify CLI build failed:\n" + out[-4000:]
        build_shim()
    return True, ""


def build_shim():
    src = os.path.join(ROOT, "shim", "fsshim.c")
    if not os.path.exists(src):
        return
    with build_lock("shim"):
        if os.path.exists(SHIM_SO) and os.path.getmtime(SHIM_SO) >= os.path.getmtime(src):
            return
        tmp = SHIM_SO + f".tmp.{os.getpid()}"
        rc, out = sh(["gcc", "-O1", "-shared", "-fPIC", "-o", tmp, src, "-ldl", "-lpthread"])
        if rc != 0:
            raise RuntimeError("shim build failed: " + out)
        os.replace(tmp, SHIM_SO)


def lean_build(targets):
    """lake build of the driver, then of the given modules. Returns (ok, log).
    The driver is built first and on its own: if a Props module no longer compiles, lake would stop before
    re-linking `rmodel`, and a stale driver would then be compared with the implementation."""
    with build_lock("lake"):
        rc0, out0 = sh(["lake", "build", "rmodel"], cwd=LEAN, timeout=3600)
        rc, out = sh(["lake", "build"] + list(targets), cwd=LEAN, timeout=3600)
    return rc0 == 0 and rc == 0, out0 + out if rc0 != 0 else out


def lean_sources_for(module):
    """transitive RModel imports of a module (file paths)"""
    seen, todo = [], [module]
    while todo:
        m = todo.pop()
        path = os.path.join(LEAN, m.replace(".", "/") + ".lean")
        if path in seen or not os.path.exists(path):
            continue
        seen.append(path)
        for line in open(path):
            mm = re.match(r"\s*import\s+((?:RModel|Driver)\.[\w.]+)", line)
            if mm:
                todo.append(mm.group(1))
    return seen


def strip_comments(text):
    text = re.sub(r"/-.*?-/", "", text, flags=re.S)
    return re.sub(r"--.*", "", text)


def forbidden_tokens(module):
    hits = []
    for path in lean_sources_for(module):
        body = strip_comments(open(path).read())
        for n, line in enumerate(body.splitlines(), 1):
            if FORBIDDEN.search(line):
                hits.append(f"{os.path.relpath(path, LEAN)}: {line.strip()[:100]}")
    return hits


def theorem_names(module):
    """names of the theorems declared in a Props file, qualified by its namespaces"""
    path = os.path.join(LEAN, module.replace(".", "/") + ".lean")
    body = strip_comments(open(path).read())
    ns, names = [], []
    for line in body.splitlines():
        m = re.match(r"\s*namespace\s+([\w.]+)", line)
        if m:
            ns.append(m.group(1)); continue
        m = re.match(r"\s*end\s+([\w.]+)\s*$", line)
        if m and ns and ns[-1] == m.group(1):
            ns.pop(); continue
        m = re.match(r"\s*(?:@\[[^\]]*\]\s*)?(?:private\s+|protected\s+)?theorem\s+([\w.']+)", line)
        if m:
            names.append(".".join(ns + [m.group(1)]))
    return names


def audit(module):
    """#print axioms for every theorem of a Props module.
    Returns (list of (name, axioms or None-if-missing), raw output)."""
    names = theorem_names(module)
    src = f"import {module}\n" + "".join(f"#print axioms {n}\n" for n in names)
    os.makedirs(os.path.join(CACHE, "audit"), exist_ok=True)
    path = os.path.join(CACHE, "audit", module.replace(".", "_") + f".{os.getpid()}.lean")
    with open(path, "w") as fh:
        fh.write(src)
    try:
        with build_lock("lake"):
            rc, out = sh(["lake", "env", "lean", path], cwd=LEAN, timeout=1800)
    finally:
        os.unlink(path)
    res = {}
    flat = re.sub(r"\s+", " ", out)
    for m in re.finditer(r"'([^']+)' depends on axioms: \[([^\]]*)\]", flat):
        res[m.group(1)] = [a.strip() for a in m.group(2).split(",") if a.strip()]
    for m in re.finditer(r"'([^']+)' does not depend on any axioms", flat):
        res[m.group(1)] = []
    return [(n, res.get(n)) for n in names], out


# ------------------------------------------------------------------------------------------------
# line protocol

def hexs(b):
    if isinstance(b, str):
        b = b.encode()
    return b.hex() if b else "-"


def unhex(s):
    return b"" if s == "-" else bytes.fromhex(s)


def run_lines(binary, lines, env=None, timeout=1800, args=()):
    data = ("\n".join(lines) + "\n").encode()
    p = None
    for attempt in range(40):
        # another check may be re-linking the binary at this very moment (builds are serialised, runs are not)
        try:
            p = subprocess.run([binary] + list(args), input=data, stdout=subprocess.PIPE, stderr=subprocess.PIPE,
                               env=env or BASE_ENV, timeout=timeout)
            break
        except (FileNotFoundError, PermissionError, OSError) as ex:
            if attempt == 39:
                raise
            time.sleep(0.5)
    out = p.stdout.decode("utf-8", "replace").splitlines()
    if p.returncode != 0 or len(out) != len(lines):
        raise RuntimeError(f"{os.path.basename(binary)} rc={p.returncode} lines {len(out)}/{len(lines)}: "
                           + p.stderr.decode('utf-8', 'replace')[-2000:])
    return out


def run_model(lines):
    return run_lines(RMODEL_BIN, lines)


def run_impl(lines, env=None):
    return run_lines(HARNESS_BIN, lines, env=env)


# ------------------------------------------------------------------------------------------------
# scratch trees and snapshots

@contextlib.contextmanager
def scratch(prefix="renamify-verif."):
    d = tempfile.mkdtemp(prefix=prefix)
    try:
        yield os.path.realpath(d)
    finally:
        for dp, dn, fn in os.walk(d):
            for x in dn:
                try:
                    os.chmod(os.path.join(dp, x), 0o755)
                except OSError:
                    pass
        shutil.rmtree(d, ignore_errors=True)


def materialize(root, tree):
    """tree: dict relpath -> ('f', bytes, mode) | ('f', bytes, mode, other_rel) = a second hard link to the file at other_rel
    (same inode; bytes must be that file's bytes) | ('d', mode) | ('l', target)"""
    for rel in sorted(tree, key=lambda p: (p.count("/"), p)):
        node = tree[rel]
        p = os.path.join(root, rel)
        os.makedirs(os.path.dirname(p), exist_ok=True)
        if node[0] == "d":
            os.makedirs(p, exist_ok=True)
        elif node[0] == "f" and len(node) > 3:
            os.link(os.path.join(root, node[3]), p)
        elif node[0] == "f":
            with open(p, "wb") as fh:
                fh.write(node[1])
        else:
            os.symlink(node[1], p)
    for rel, node in tree.items():
        p = os.path.join(root, rel)
        if node[0] == "f":
            os.chmod(p, node[2])
        elif node[0] == "d":
            os.chmod(p, node[1])


def snapshot(root, exclude=(".renamify",), content=True):
    """dict relpath -> (type, mode, sha256|target|''), for everything below root except `exclude` tops"""
    snap = {}
    for dp, dn, fn in os.walk(root):
        rel = os.path.relpath(dp, root)
        if rel == ".":
            dn[:] = [d for d in dn if d not in exclude]
            fn = [f for f in fn if f not in exclude]
        for d in list(dn):
            p = os.path.join(dp, d)
            r = os.path.relpath(p, root)
            st = os.lstat(p)
            if stat.S_ISLNK(st.st_mode):
                snap[r] = ("l", 0, os.readlink(p))
                dn.remove(d)
            else:
                snap[r] = ("d", stat.S_IMODE(st.st_mode), "")
        for f in fn:
            p = os.path.join(dp, f)
            r = os.path.relpath(p, root)
            st = os.lstat(p)
            if stat.S_ISLNK(st.st_mode):
                snap[r] = ("l", 0, os.readlink(p))
            else:
                data = open(p, "rb").read() if content else b""
                snap[r] = ("f", stat.S_IMODE(st.st_mode), data)
    return snap


def snap_digest(snap):
    out = {}
    for k, v in snap.items():
        out[k] = [v[0], oct(v[1]), hashlib.sha256(v[2]).hexdigest()[:16] if isinstance(v[2], bytes) else v[2]]
    return out


def tree_dump(snap):
    """full, replayable dump of a snapshot: path -> [type, mode, hex content | link target]"""
    return {k: [v[0], v[1], v[2].hex() if isinstance(v[2], bytes) else v[2]] for k, v in snap.items()}


def tree_undump(d):
    """inverse of tree_dump, as a `tree` accepted by materialize()"""
    tree = {}
    for k, v in d.items():
        if v[0] == "f":
            tree[k] = ("f", bytes.fromhex(v[2]), v[1])
        elif v[0] == "d":
            tree[k] = ("d", v[1])
        else:
            tree[k] = ("l", v[2])
    return tree


def snap_diff(a, b, limit=6):
    d = []
    for k in sorted(set(a) | set(b)):
        if a.get(k) != b.get(k):
            def show(v):
                if v is None:
                    return None
                return [v[0], oct(v[1]), (v[2][:80].decode("utf-8", "replace") if isinstance(v[2], bytes) else v[2])]
            d.append({"path": k, "expected": show(a.get(k)), "observed": show(b.get(k))})
            if len(d) >= limit:
                break
    return d


def cli(args, cwd, env=None, timeout=120, stdin=None, preload=None):
    e = dict(BASE_ENV)
    e["HOME"] = cwd  # no user config
    e["XDG_CONFIG_HOME"] = os.path.join(cwd, ".xdg-none")
    if env:
        e.update(env)
    if preload:
        e["LD_PRELOAD"] = preload
    try:
        p = subprocess.run([CLI_BIN] + list(args), cwd=cwd, env=e, stdout=subprocess.PIPE, stderr=subprocess.PIPE,
                           timeout=timeout, input=stdin, stdin=None if stdin is not None else subprocess.DEVNULL)
        return p.returncode, p.stdout, p.stderr
    except subprocess.TimeoutExpired as ex:
        return -999, ex.stdout or b"", (ex.stderr or b"") + b"\n[timeout]"


# ------------------------------------------------------------------------------------------------
# known findings

def load_known():
    findings, fixed = {}, []
    if os.path.exists(KNOWN):
        for line in open(KNOWN):
            line = line.strip()
            if line.startswith("finding:"):
                kv = dict(re.findall(r"(\w+)=((?:\"[^\"]*\")|\S+)", line))
                what = line.split(" what=", 1)[1] if " what=" in line else ""
                findings[(kv.get("property"), kv.get("id"))] = what
            elif line.startswith("fixed:"):
                fixed.append(line)
    return findings, fixed


# ------------------------------------------------------------------------------------------------
# the check context

class Ctx:
    def __init__(self, pid, tier, seed):
        self.pid, self.tier, self.seed = pid, tier, seed
        self.t0 = time.time()
        self.rng = random.Random(seed)
        self.violations = []         # replay paths
        self.known_printed = set()
        self.findings, self.fixed = load_known()
        self.cov = {"evaluations": 0, "distinct_nontrivial": 0, "rule": "", "samples": [],
                    "obligations": 0, "discharged": 0, "checker_cmd": "", "trusted_base": [],
                    "disagreements_checked": 0, "histogram": {}, "exhaustive": False}
        self.assumptions = []
        self.broken = []             # (kind, name, detail): proof / translator / correspondence that no longer checks
        self.notes = []
        self._distinct = set()
        self.thorough = tier == "thorough"

    # ---- accounting -------------------------------------------------------------------------
    def count(self, key, n=1):
        h = self.cov["histogram"]
        h[key] = h.get(key, 0) + n

    def case(self, case_key, nontrivial=True):
        self.cov["evaluations"] += 1
        if nontrivial:
            self._distinct.add(hashlib.sha1(repr(case_key).encode()).digest()[:10])

    def sample(self, obj, limit=6):
        if len(self.cov["samples"]) < limit:
            self.cov["samples"].append(obj)

    # ---- verdict pieces ---------------------------------------------------------------------
    def replay_path(self):
        d = os.path.join(ROOT, "replays")
        os.makedirs(d, exist_ok=True)
        return os.path.join(d, f"{self.pid}-{self.tier}-{self.seed}-{len(self.violations)}-{os.getpid()}.json")

    def violation(self, kind, case, expected=None, observed=None, model_prediction=None,
                  broken_obligation=None, no_failing_input=False, note=None):
        path = self.replay_path()
        obj = {"property": self.pid, "kind": kind, "seed": self.seed, "tier": self.tier, "case": case,
               "expected": expected, "observed": observed, "model_prediction": model_prediction}
        if broken_obligation:
            obj["broken_obligation"] = broken_obligation
        if note:
            obj["note"] = note
        with open(path, "w") as fh:
            json.dump(obj, fh, indent=1, default=_jd)
        self.violations.append(path)
        tail = " no-failing-input-found" if no_failing_input else ""
        print(f"VIOLATION property={self.pid} replay={path}{tail}", flush=True)

    def known(self, slug, what_observed=""):
        """A witness of a listed finding still fails exactly as recorded."""
        key = (self.pid, slug)
        if key in self.findings:
            if slug not in self.known_printed:
                self.known_printed.add(slug)
                print(f"KNOWN-FINDING: property={self.pid} id={slug} {self.findings[key]}", flush=True)
            return True
        return False

    def broke(self, kind, name, detail):
        self.broken.append({"kind": kind, "name": name, "detail": detail[-3000:] if isinstance(detail, str) else detail})

    # ---- the standard proof step ------------------------------------------------------------
    def prove(self, module, extra_modules=()):
        """lake build + token grep + axiom audit for one Props module; fills obligations/discharged."""
        ok, out = lean_build([module] + list(extra_modules))
        cmd = (f"cd /verif/lean && lake build {module} rmodel && "
               f"lake env lean <generated '#print axioms' file for every theorem of {module}>"
               + (" && lake env leanchecker " + module if self.thorough else ""))
        self.cov["checker_cmd"] = (self.cov["checker_cmd"] + " ; " + cmd) if self.cov["checker_cmd"] else cmd
        self.cov["trusted_base"] = ["Lean 4.33.0 kernel", "axioms: propext, Classical.choice, Quot.sound (audited per theorem)",
                                    "no native_decide / bv_decide / sorry / user axioms (grep + #print axioms)"]
        if not ok:
            errs = [l for l in out.splitlines() if "error" in l][:12]
            self.broke("proof", module, "\n".join(errs) or out[-2000:])
            names = []
            try:
                names = theorem_names(module)
            except OSError:
                pass
            self.cov["obligations"] += max(len(names), 1)
            return False
        hits = forbidden_tokens(module)
        res, raw = audit(module)
        self.cov["obligations"] += len(res)
        good = 0
        bad = []
        for n, ax in res:
            if ax is not None and set(ax) <= ALLOWED_AXIOMS:
                good += 1
            else:
                bad.append((n, ax))
        self.cov.setdefault("theorems", []).extend(n for n, _ in res)
        if hits:
            self.broke("proof", module, "forbidden tokens: " + "; ".join(hits[:5]))
            return False
        self.cov["discharged"] += good
        if bad or not res:
            self.broke("proof", module, f"axiom audit failed: {bad[:5]} raw={raw[-500:]}")
            return False
        if self.thorough:
            with build_lock("lake"):
                rc, out = sh(["lake", "env", "leanchecker", module], cwd=LEAN, timeout=3600)
            self.cov["leanchecker_rc"] = rc
            if rc != 0:
                self.broke("proof", module, "leanchecker: " + out[-1000:])
                return False
        return True

    # ---- finish -----------------------------------------------------------------------------
    def finish(self):
        # a broken tie/proof with no concrete failing input is still a violation (brief)
        if self.broken and not self.violations:
            self.violation("obligation", case=self.broken, broken_obligation=self.broken,
                           no_failing_input=True,
                           note="a proof obligation, translator or correspondence no longer checks; "
                                "the search found no input on which the implementation violates the property")
        self.cov["distinct_nontrivial"] = len(self._distinct)
        ev = {"property_id": self.pid, "tier": self.tier, "seed": self.seed, "level": "proof",
              "coverage": self.cov, "assumptions": self.assumptions, "wall_s": round(time.time() - self.t0, 2),
              "violations": len(self.violations)}
        if self.broken:
            ev["coverage"]["broken"] = self.broken
        if self.notes:
            ev["coverage"]["notes"] = self.notes
        ev["coverage"]["known_findings_reproduced"] = sorted(self.known_printed)
        os.makedirs(os.path.join(ROOT, "evidence"), exist_ok=True)
        with open(os.path.join(ROOT, "evidence", f"{self.pid}.json"), "w") as fh:
            json.dump(ev, fh, indent=1, default=_jd)
        return 1 if self.violations else 0


def _jd(o):
    if isinstance(o, bytes):
        try:
            return o.decode("utf-8")
        except UnicodeDecodeError:
            return "hex:" + o.hex()
    if isinstance(o, (set, tuple)):
        return list(o)
    return repr(o)


def correspond(ctx, name, reqs, describe=None, max_report=1):
    """Run the same request lines through the implementation harness and the Lean driver; diff.
    Returns list of (req, impl, model). A disagreement is recorded as a broken correspondence."""
    if not reqs:
        return []
    impl = run_impl(reqs)
    model = run_model(reqs)
    ctx.cov["disagreements_checked"] += len(reqs)
    dis = [(r, i, m) for r, i, m in zip(reqs, impl, model) if i != m]
    if dis:
        r, i, m = dis[0]
        ctx.broke("correspondence", name, {"request": r if not describe else describe(r), "impl": i, "model": m,
                                           "count": len(dis), "of": len(reqs)})
    return list(zip(reqs, impl, model))
