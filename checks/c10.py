"""C10 — History is a consistent append-only record under any operation sequence.

prove       RModel.Props.C10 (append-only / one fresh entry per success / eligibility for every command list and clock
            schedule; refinement to the abstract history under G10; kernel-evaluated witnesses)
correspond  command sequences on the real CLI under the shim's fake clock vs the Lean model (`histrun`):
            per step exit class, shape of history.json (ids canonicalised by first appearance) and the whole user tree
oracle      independent abstract history kept by the runner: success => exactly one new entry with a fresh id, earlier
            entries unchanged (JSON objects compared), tree = the state the history implies (snapshots taken after every
            successful operation); failure => tree and history unchanged; undo only while applied, redo only while undone.
            A sequence is evaluated up to its first oracle failure (after a defect the workspace is no longer specified).
dirs        workspace W5 (a directory whose name contains the term, holding a file that is edited but not renamed, next to a
            top-level edited file): every sequence of up to four commands one second apart over {A, S = one->three, undo
            latest|#0|#1, redo latest|#0}, same-second bursts after A, random sequences; the model runs it on its directory
            instance (RModel/Model/HistoryTreeDir.lean)
bursts      rename, then every sequence of undo / redo by `latest`, by #0 and by #2 issued within ONE second, 4 commands deep (quick: after A';
            thorough: also by #2 for redo, after A, A', B, the first one in the same or the next second)
sequences   corpus first; exhaustive over {rename A, A', B, undo latest|#0|#1, redo latest|#0} x {same second, next second}
            up to a length (quick: all of length <= 2 and a fixed slice of length 3; thorough: all of length <= 4), and
            random sequences of length <= 10 on three workspaces.
repaired    same_second_duplicate_id, concat_id_collision, redo_id_collision (c3d511b) and redo_repeatable (07a4584) are
            `fixed:` entries: their corpus sequences must conform now, and the old behaviour coming back is a VIOLATION.
translate   translate/history_flags.py regenerates Gen/HistoryFlags.lean (early duplicate-id check, redo-once, undo / redo
            pre-validation) from apply.rs and undo.rs; the driver runs `Cfg.current` built from it, so the model follows the code
clock       LD_PRELOAD shim (`shim.run_with_clock`): every command runs at a fixed fake unix time, so "same second" and
            "next second" are exact.
"""
import json
import os
import re
import shutil
import tempfile
from concurrent.futures import ThreadPoolExecutor

from . import common, shim
from .common import hexs

T0 = 1_800_000_000
GITIGNORE = b"# Renamify workspace\n.renamify/\n"       # what auto-init writes; keeps C09's finding out of this check
TERMS = {"A": ("foo_bar", "baz_qux"), "A'": ("foo", "foo_bar"), "B": ("alpha", "gamma"),
         "P": ("ab", "c"), "Q": ("a", "bc"), "S": ("one", "three")}
WORKSPACES = {
    "W1": {"f1.txt": "foo_bar one\n", "f2.txt": "alpha x\n", "f3.txt": "use foo_bar and alpha\n"},
    "W2": {"f1.txt": "foo_bar one\n", "f2.txt": "alpha x\n"},
    "W3": {"f1.txt": "foo_bar foo_bar\nalpha two\n", "f2.txt": "alpha x\n", "f3.txt": "use foo_bar and alpha\n"},
    "W4": {"g.txt": "ab a\n"},
    # a directory whose NAME contains the term, holding a file that is edited but not renamed itself, and a top-level
    # edited file that sorts before it: A edits both files and renames the directory; S (one -> three) shifts A's match
    # in the in-directory file without touching the top-level one
    "W5": {"a.txt": "foo_bar top\n", "foo_bar_dir/inner.txt": "one foo_bar x\n", "z.txt": "alpha z\n"},
    # a file with the term TWICE and another word between the two, next to a file that sorts before it: after A is undone,
    # S (one -> three) shifts A's SECOND match in m.txt and leaves the first where it was — a stored plan whose first hunk
    # of the file still fits and whose second does not (seed C04i: the redo pre-validation remembers one verdict per file)
    "W6": {"a.txt": "foo_bar top\n", "m.txt": "foo_bar one foo_bar\n", "z.txt": "one z\n"},
}
ALPHABET = ["A", "A'", "B", "ul", "u0", "u1", "rl", "r0"]
ALPHABET_W5 = ["A", "S", "ul", "u0", "u1", "rl", "r0"]
CORPUS = os.path.join(common.ROOT, "corpus", "C10")


# ------------------------------------------------------------------------------------------------
# running one command on the real CLI

def cli_args(cmd, ids):
    if cmd in TERMS:
        s, r = TERMS[cmd]
        return ["rename", s, r, "-y", "--no-auto-init", "--quiet"]
    kind = "undo" if cmd[0] == "u" else "redo"
    if cmd[1] == "l":
        return [kind, "latest"]
    k = int(cmd[1:])
    return [kind, ids[k] if k < len(ids) else "0000000000000000"]


def model_token(cmd):
    if cmd in TERMS:
        return "ren:%s:%s" % (hexs(TERMS[cmd][0]), hexs(TERMS[cmd][1]))
    kind = "undo" if cmd[0] == "u" else "redo"
    return kind + ":" + ("latest" if cmd[1] == "l" else cmd[1:])


def read_history(d):
    p = os.path.join(d, ".renamify", "history.json")
    if not os.path.exists(p):
        return []
    with open(p) as fh:
        return json.load(fh)


def user_tree(d):
    """relative path -> bytes for the user files (directories are implicit); `.rej` bodies canonicalised"""
    snap = common.snapshot(d, exclude=(".renamify", ".gitignore", ".xdg-none"))
    out = {}
    for k, v in snap.items():
        if v[0] == "d":
            if not any(k2.startswith(k + "/") for k2 in snap):
                out[k + "/"] = b"<empty dir>"
        elif v[0] != "f":
            out[k] = b"<" + v[0].encode() + b">"
        else:
            out[k] = b"REJ" if k.endswith(".rej") else v[2]
    return out


def canon_ids(hist):
    ids = []
    for e in hist:
        if e["id"] not in ids:
            ids.append(e["id"])
    return ids


REDO_RE = re.compile(r"^redo-(.*)-(\d+)$")


def show_entries(hist):
    ids = canon_ids(hist)

    def ix(i):
        return str(ids.index(i)) if i in ids else "?"
    out = []
    for e in hist:
        m = REDO_RE.match(e["id"])
        if e.get("revert_of"):
            out.append("v%s:%s" % (ix(e["id"]), ix(e["revert_of"])))
        elif m:
            out.append("d%s:%s" % (ix(e["id"]), ix(m.group(1))))
        else:
            out.append("a" + ix(e["id"]))
    return ",".join(out) if out else "-"


def show_tree(tree):
    return ",".join("%s=%s" % (hexs(k), hexs(tree[k])) for k in sorted(tree, key=lambda s: s.encode())) if tree else "-"


class Step:
    __slots__ = ("cmd", "dt", "rc", "stderr", "hist", "tree", "time", "args")


def setup_ws(d, ws):
    for dp in os.listdir(d):
        p = os.path.join(d, dp)
        shutil.rmtree(p) if os.path.isdir(p) else os.unlink(p)
    with open(os.path.join(d, ".gitignore"), "wb") as fh:
        fh.write(GITIGNORE)
    for k, v in WORKSPACES[ws].items():
        os.makedirs(os.path.dirname(os.path.join(d, k)), exist_ok=True)
        with open(os.path.join(d, k), "w") as fh:
            fh.write(v)


def save_state(d, dst):
    if os.path.exists(dst):
        shutil.rmtree(dst)
    shutil.copytree(d, dst, symlinks=True)


def restore_state(d, src):
    for dp in os.listdir(d):
        p = os.path.join(d, dp)
        shutil.rmtree(p) if os.path.isdir(p) and not os.path.islink(p) else os.unlink(p)
    for dp in os.listdir(src):
        s, t = os.path.join(src, dp), os.path.join(d, dp)
        shutil.copytree(s, t, symlinks=True) if os.path.isdir(s) else shutil.copy2(s, t)


def run_cmd(d, cmd, now, ids):
    r = shim.run_with_clock(cli_args(cmd, ids), d, now)
    st = Step()
    st.cmd, st.rc, st.stderr, st.time = cmd, r.rc, r.stderr.decode("utf-8", "replace"), now
    st.hist = read_history(d)
    st.tree = user_tree(d)
    with open(os.path.join(d, ".gitignore"), "rb") as fh:
        if fh.read() != GITIGNORE:
            st.tree[".gitignore"] = b"<changed>"
    return st


# ------------------------------------------------------------------------------------------------
# the oracle: an abstract history kept by the runner, independent of the Lean model

class Oracle:
    def __init__(self, tree):
        self.hist = []
        self.tree = dict(tree)
        self.ops = {}          # root id -> {"applied", "pre", "post", "created", "last"}
        self.root = {}         # entry id -> root id
        self.order = 0
        self.log = []          # (time, cmd, target root or None, success) of every command so far

    def _per_file(self, before, ref_from, ref_to, after):
        """files the operation changed and that are still as it left them must move to the other state; all others stay"""
        problems, ambiguous = [], False
        for f in set(before) | set(after) | set(ref_from) | set(ref_to):
            changed_by_op = ref_from.get(f) != ref_to.get(f)
            if not changed_by_op:
                if after.get(f) != before.get(f):
                    problems.append(f)
            elif before.get(f) == ref_from.get(f):
                if after.get(f) != ref_to.get(f):
                    problems.append(f)
            else:
                ambiguous = True
        return problems, ambiguous

    def check(self, st, explicit_target):
        """returns (verdict, detail): verdict None = conforms; else a short shape name of the failure"""
        cmd, h0, t0, h1, t1 = st.cmd, self.hist, self.tree, st.hist, st.tree
        kind = "rename" if cmd in TERMS else ("undo" if cmd[0] == "u" else "redo")
        ids0 = [e["id"] for e in h0]
        self.order += 1
        # earlier entries never lost, altered or duplicated
        if h1[:len(h0)] != h0:
            return "history_altered", {"before": ids0, "after": [e["id"] for e in h1]}
        new = h1[len(h0):]
        if len(new) > 1:
            return "several_entries", {"new": [e["id"] for e in new]}
        if new and new[0]["id"] in ids0:
            return "duplicate_id", {"id": new[0]["id"]}
        if st.rc != 0:
            if new:
                return "failed_but_recorded", {"id": new[0]["id"]}
            if t1 != t0:
                return self._classify_failed_change(st, kind, explicit_target), {"tree_diff": _tdiff(t0, t1)}
            self.log.append((st.time, cmd, None, False))
            return None, "rejected"
        # success
        if kind == "rename":
            s, r = TERMS[cmd]
            if not new:
                if t1 != t0:
                    return "changed_without_entry", {"tree_diff": _tdiff(t0, t1)}
                if any(s.encode() in c for f, c in t0.items()):
                    return "rename_did_nothing", {}
                self.log.append((st.time, cmd, None, False))
                return None, "noop"
            e = new[0]
            if e.get("revert_of"):
                return "rename_recorded_as_revert", {}
            # contents, and the names of the directories on the way (file names carry no term in these workspaces)
            want = {(os.path.dirname(f).replace(s, r) + "/" + os.path.basename(f) if "/" in f else f):
                    c.replace(s.encode(), r.encode()) for f, c in t0.items()}
            if t1 != want:
                return "rename_result", {"tree_diff": _tdiff(want, t1)}
            self.ops[e["id"]] = {"applied": True, "pre": dict(t0), "post": dict(t1), "last": self.order}
            self.root[e["id"]] = e["id"]
            self.log.append((st.time, cmd, e["id"], True))
        elif kind == "undo":
            if not new:
                return "success_without_entry", {}
            e = new[0]
            x = e.get("revert_of")
            if x is None or x not in ids0:
                return "undo_entry_malformed", {"entry": e["id"], "revert_of": x}
            if explicit_target is not None and x != explicit_target:
                return "undo_wrong_target", {"asked": explicit_target, "recorded": x}
            root = self.root.get(x)
            if root is None or not self.ops[root]["applied"]:
                return "undo_not_applied", {"target": x}
            op = self.ops[root]
            if t0 == op["post"]:
                if t1 != op["pre"]:
                    return "undo_wrong_tree", {"tree_diff": _tdiff(op["pre"], t1)}
            else:
                bad, amb = self._per_file(t0, op["post"], op["pre"], t1)
                if bad:
                    return "undo_wrong_tree", {"files": bad, "tree_diff": _tdiff(t0, t1)}
            op["applied"] = False
            self.log.append((st.time, cmd, root, True))
        else:
            if not new:
                return "success_without_entry", {}
            e = new[0]
            if e.get("revert_of"):
                return "redo_recorded_as_revert", {}
            m = REDO_RE.match(e["id"])
            x = m.group(1) if m else explicit_target
            if x is None or x not in ids0:
                return "redo_entry_malformed", {"entry": e["id"]}
            if explicit_target is not None and x != explicit_target:
                return "redo_wrong_target", {"asked": explicit_target, "recorded": x}
            root = self.root.get(x)
            if root is None:
                return "redo_of_non_operation", {"target": x}
            op = self.ops[root]
            if op["applied"]:
                return "redo_while_applied", {"target": x, "tree_changed": t1 != t0}
            if t0 == op["pre"]:
                if t1 != op["post"]:
                    return "redo_wrong_tree", {"tree_diff": _tdiff(op["post"], t1)}
            else:
                bad, amb = self._per_file(t0, op["pre"], op["post"], t1)
                if bad:
                    return "redo_wrong_tree", {"files": bad, "tree_diff": _tdiff(t0, t1)}
            op["applied"] = True
            op["last"] = self.order
            self.root[e["id"]] = root
            self.log.append((st.time, cmd, root, True))
        self.hist, self.tree = h1, dict(t1)
        return None, "ok"

    def _classify_failed_change(self, st, kind, explicit_target):
        """a command that failed (exit != 0, no entry) but changed the tree: which known shape is it?"""
        dup = "already exists" in st.stderr
        if kind == "rename" and dup:
            s, r = TERMS[st.cmd]
            same = [l for l in self.log if l[3] and l[0] == st.time and l[1] in TERMS]
            if any(TERMS[l[1]] == (s, r) for l in same):
                return "same_second_duplicate_id"
            if any("".join(TERMS[l[1]]) == s + r for l in same):
                return "concat_id_collision"
            return "failed_after_change:rename_duplicate"
        if kind == "redo" and dup and any(l[3] and l[0] == st.time and l[1][0] == "r" for l in self.log):
            return "redo_id_collision"
        if kind == "undo":
            rej = [f for f in st.tree if f.endswith(".rej") and f not in self.tree]
            tgt = explicit_target
            if tgt is None:
                nonrev = [e for e in self.hist if not e.get("revert_of")]
                tgt = nonrev[-1]["id"] if nonrev else None
            root = self.root.get(tgt)
            if rej and root is not None:
                op = self.ops[root]
                touched = {f for f in set(op["pre"]) | set(op["post"]) if op["pre"].get(f) != op["post"].get(f)}
                later = [o for k, o in self.ops.items() if k != root and o["applied"] and o["last"] > op["last"] and
                         touched & {f for f in set(o["pre"]) | set(o["post"]) if o["pre"].get(f) != o["post"].get(f)}]
                if op["applied"] and later:
                    return "undo_older_partial"
            return "failed_after_change:undo"
        if kind == "redo" and "Content mismatch" in st.stderr:
            # a legitimate redo (operation currently undone) whose stored plan no longer fits the tree
            tgt = explicit_target
            if tgt is None:
                revs = [e for e in self.hist if e.get("revert_of")]
                tgt = revs[-1]["revert_of"] if revs else None
            root = self.root.get(tgt)
            if root is not None and not self.ops[root]["applied"] and self.tree != self.ops[root]["pre"]:
                return "redo_stale_partial"
            return "failed_after_change:redo"
        if kind == "redo":
            return "failed_after_change:redo"
        return "failed_after_change"


def _tdiff(a, b, limit=6):
    out = []
    for k in sorted(set(a) | set(b)):
        if a.get(k) != b.get(k):
            out.append({"file": k, "expected": (a.get(k) or b"<absent>").decode("utf-8", "replace"),
                        "observed": (b.get(k) or b"<absent>").decode("utf-8", "replace")})
    return out[:limit]


FINDING_OF_SHAPE = {
    "same_second_duplicate_id": "same_second_duplicate_id",
    "concat_id_collision": "concat_id_collision",
    "redo_id_collision": "redo_id_collision",
    "redo_while_applied": "redo_repeatable",
    "undo_older_partial": "undo_older_partial",
    "redo_stale_partial": "redo_stale_partial",
}


# ------------------------------------------------------------------------------------------------
# sequences

class SeqResult:
    def __init__(self, ws, seq):
        self.ws, self.seq = ws, seq
        self.pieces = []       # observed canonical pieces, one per executed command
        self.verdict = None    # (step index, shape, detail) of the first oracle failure
        self.classes = []


def piece_of(st):
    return "%s;%s;%s" % ("ok" if st.rc == 0 else "err", show_entries(st.hist), show_tree(st.tree))


def explicit_target(cmd, ids):
    if cmd in TERMS or cmd[1] == "l":
        return None
    k = int(cmd[1:])
    return ids[k] if k < len(ids) else "0000000000000000"


def run_sequence(d, ws, seq):
    """seq: list of (cmd, dt) with dt in {0, 1} seconds since the previous command"""
    setup_ws(d, ws)
    orc = Oracle(user_tree(d))
    res = SeqResult(ws, seq)
    now = T0
    for k, (cmd, dt) in enumerate(seq):
        now += dt
        ids = canon_ids(orc.hist)
        st = run_cmd(d, cmd, now, ids)
        res.pieces.append(piece_of(st))
        shape, detail = orc.check(st, explicit_target(cmd, ids))
        res.classes.append(shape or detail)
        if shape:
            res.verdict = (k, shape, detail, st.stderr[-300:])
            break
    return res


def explore(d, ws, prefix, depth, out, keep=None, alphabet=None, dts=(0, 1)):
    """all sequences extending `prefix` up to `depth` commands, sharing the executed prefix (state saved/restored in place)"""
    setup_ws(d, ws)
    orc = Oracle(user_tree(d))
    pieces, now = [], T0
    for cmd, dt in prefix:
        now += dt
        ids = canon_ids(orc.hist)
        st = run_cmd(d, cmd, now, ids)
        pieces.append(piece_of(st))
        shape, detail = orc.check(st, explicit_target(cmd, ids))
        if shape:
            r = SeqResult(ws, list(prefix)); r.pieces = pieces; r.verdict = (len(pieces) - 1, shape, detail, st.stderr[-300:])
            out.append(r)
            return
    r = SeqResult(ws, list(prefix)); r.pieces = list(pieces)
    out.append(r)
    _dfs(d, ws, list(prefix), pieces, orc, now, depth, out, keep, alphabet or ALPHABET, dts)


def _dfs(d, ws, seq, pieces, orc, now, depth, out, keep, alphabet, dts):
    if len(seq) >= depth:
        return
    import copy
    bak = tempfile.mkdtemp(prefix="c10bak.")
    try:
        save_state(d, os.path.join(bak, "s"))
        for cmd in alphabet:
            for dt in dts:
                nseq = seq + [(cmd, dt)]
                if keep is not None and len(nseq) == depth and not keep(nseq):
                    continue
                restore_state(d, os.path.join(bak, "s"))
                o2 = copy.deepcopy(orc)
                ids = canon_ids(o2.hist)
                st = run_cmd(d, cmd, now + dt, ids)
                p2 = pieces + [piece_of(st)]
                shape, detail = o2.check(st, explicit_target(cmd, ids))
                r = SeqResult(ws, nseq); r.pieces = p2
                out.append(r)
                if shape:
                    r.verdict = (len(nseq) - 1, shape, detail, st.stderr[-300:])
                    continue
                _dfs(d, ws, nseq, p2, o2, now + dt, depth, out, keep, alphabet, dts)
    finally:
        shutil.rmtree(bak, ignore_errors=True)


def oracle_on_model(ws, seq, mpieces):
    """the same oracle evaluated on the model's trace (to recognise a predicted, listed defect)"""
    orc = Oracle({k: v.encode() for k, v in WORKSPACES[ws].items()})
    now, ids = T0, []
    for k, ((cmd, dt), piece) in enumerate(zip(seq, mpieces)):
        now += dt
        rc, es, tr = piece.split(";")
        hist = []
        if es != "-":
            for n, tok in enumerate(es.split(",")):
                kind, rest = tok[0], tok[1:]
                ref = None
                if ":" in rest:
                    rest, ref = rest.split(":")
                if n >= len(ids):
                    ids.append("p%d" % n if kind == "a" else ("v%d" % n if kind == "v" else "redo-%s-%d" % (ids[int(ref)], n)))
                hist.append({"id": ids[n], "revert_of": ids[int(ref)] if kind == "v" else None})
        tree = {}
        if tr != "-":
            for kv in tr.split(","):
                a, b = kv.split("=")
                tree[common.unhex(a).decode()] = common.unhex(b)
        st = Step()
        st.cmd, st.rc, st.time, st.hist, st.tree = cmd, 0 if rc == "ok" else 1, now, hist, tree
        # the model fails after a change either on a duplicate id or half-way through a stale stored plan
        st.stderr = ("already exists / Content mismatch"
                     if rc != "ok" and hist == orc.hist and tree != orc.tree and cmd[0] != "u" else "")
        known_ids = canon_ids(orc.hist)
        shape, detail = orc.check(st, explicit_target(cmd, known_ids))
        if shape:
            return k, shape
    return None


def model_request(ws, seq):
    files = WORKSPACES[ws]
    fields = ["histrun", "T", str(len(files))]
    for k in sorted(files):
        fields += [hexs(k), hexs(files[k])]
    for cmd, dt in seq:
        if dt:
            fields.append("tick")
        fields.append(model_token(cmd))
    return " ".join(fields)


def seq_str(seq):
    return " ".join(("+" if dt else "=") + c for c, dt in seq)


# ------------------------------------------------------------------------------------------------

def judge(ctx, results):
    """oracle verdicts -> KNOWN-FINDING / VIOLATION; then model correspondence on the same sequences"""
    stop = False
    for r in results:
        ctx.case((r.ws, seq_str(r.seq)), nontrivial=len(r.seq) >= 2)
        if r.verdict:
            k, shape, detail, err = r.verdict
            ctx.count("oracle:" + shape)
            slug = FINDING_OF_SHAPE.get(shape)
            if slug and ctx.known(slug):
                continue
            returned = [f for f in ctx.fixed if slug and f"property={ctx.pid} " in f and f" {slug}:" in f]
            ctx.violation("history", {"workspace": r.ws, "files": WORKSPACES[r.ws], "sequence": [[c, dt] for c, dt in r.seq],
                                      "sequence_text": seq_str(r.seq), "terms": {k2: TERMS[k2] for k2 in TERMS}},
                          expected="every command succeeds into the state the history implies or is rejected with tree and history unchanged",
                          observed={"step": k, "shape": shape, "detail": detail, "stderr": err},
                          note=("a repaired defect has returned: " + returned[0]) if returned
                          else "oracle failure not covered by a listed finding")
            stop = True
            break
        else:
            ctx.count("oracle:conforms")
    # correspondence (every sequence, including the step at which a finding was observed)
    reqs = [model_request(r.ws, r.seq) for r in results]
    if reqs:
        model = common.run_model(reqs)
        ctx.cov["disagreements_checked"] += len(reqs)
        for r, m in zip(results, model):
            mp = m.split()[:len(r.pieces)] if m != "-" else []
            if mp != r.pieces:
                k = next((i for i, (a, b) in enumerate(zip(mp, r.pieces)) if a != b), min(len(mp), len(r.pieces)))
                # the model reproduces the listed defects; an implementation that no longer shows one (repaired) while
                # conforming to the oracle there is not a broken tie (DESIGN 2.4): record and go on
                mv = oracle_on_model(r.ws, r.seq, m.split()) if m != "-" else None
                slug = FINDING_OF_SHAPE.get(mv[1]) if mv else None
                if mv and mv[0] == k and slug and (ctx.pid, slug) in ctx.findings and (r.verdict is None or r.verdict[0] > k):
                    ctx.count("repaired:" + slug)
                    if not any(n.startswith("listed defect no longer reproduces: " + slug) for n in ctx.notes):
                        ctx.notes.append(f"listed defect no longer reproduces: {slug} (first at {r.ws} '{seq_str(r.seq)}' step {k}); "
                                         "the model still predicts it")
                    continue
                ctx.broke("correspondence", "histrun: CLI sequence vs History.step",
                          {"workspace": r.ws, "sequence": seq_str(r.seq), "step": k,
                           "impl": r.pieces[k] if k < len(r.pieces) else None, "model": mp[k] if k < len(mp) else None})
                break
    return stop


def run_parallel(tasks, workers=12):
    """tasks: list of callables taking a private directory; returns their results in task order"""
    def one(t):
        with common.scratch(prefix="renamify-verif.c10.") as d:
            return t(d)
    with ThreadPoolExecutor(max_workers=workers) as ex:
        return list(ex.map(one, tasks))


def corpus_cases():
    out = []
    if os.path.isdir(CORPUS):
        for f in sorted(os.listdir(CORPUS)):
            if f.endswith(".json"):
                with open(os.path.join(CORPUS, f)) as fh:
                    out.append((f, json.load(fh)))
    return out


def run(ctx):
    ctx.cov["rule"] = ("CLI command sequences under a fake clock on flat three-file workspaces, alphabet {rename A|A'|B, undo latest|#0|#1, "
                       "redo latest|#0} x {same second, next second}: exhaustive up to a length (quick: <=2 plus a fixed slice of "
                       "length 3; thorough: <=4) with shared prefixes, plus random sequences of length <=10 on W1-W3; each sequence "
                       "is evaluated up to its first oracle failure. non-trivial = at least two commands; distinct = distinct "
                       "(workspace, sequence)")
    ctx.assumptions += ["`.renamify/` is git-ignored in the workspace (as auto-init does), so C09's scan of `.renamify` does not interfere",
                        "reverse patches span the whole file (files of at most four lines, line count unchanged by the terms)",
                        "file names contain no term (path renames are C01/C08)",
                        "plan-id hash injective on the explored (terms, second) pairs"]
    try:
        from translate import history_flags
        history_flags.run()
        ctx.cov["history_flags"] = history_flags.flags(common.REPO)
        for u in ctx.cov["history_flags"].get("unrecognised", []):
            ctx.notes.append("translate/history_flags: " + u + " — not a shape the model knows; the CLI-vs-model comparison and the "
                             "oracle decide")
    except Exception as ex:                      # a translator that cannot parse its source is a broken tie
        ctx.broke("translator", "translate/history_flags.py", str(ex))
    ctx.prove("RModel.Props.C10")
    ok, msg = common.cargo_build()
    if not ok:
        ctx.broke("build", "cargo", msg)
        return
    common.build_shim()
    if not os.path.exists(common.SHIM_SO):
        ctx.broke("build", "shim", "fsshim.so not built (shim/fsshim.c missing)")
        return
    ctx.cov["clock"] = "fake clock via LD_PRELOAD shim (shim.run_with_clock)"
    rng = ctx.rng

    # ---- corpus: the recorded witnesses, replayed first --------------------------------------------
    res = run_parallel([(lambda d, c=c: run_sequence(d, c["case"]["workspace"], [tuple(x) for x in c["case"]["sequence"]]))
                        for _, c in corpus_cases()])
    for (name, c), r in zip(corpus_cases(), res):
        want = c.get("expected_shape")
        got = r.verdict[1] if r.verdict else None
        ctx.count("corpus:%s:%s" % (name, "as-recorded" if got == want else "differs"))
        if got != want:
            ctx.notes.append(f"corpus witness {name}: recorded shape {want}, observed {got}")
    if judge(ctx, res):
        return

    # ---- exhaustive ---------------------------------------------------------------------------------
    depth = 4 if ctx.thorough else 3
    stride = 1 if ctx.thorough else 12

    def keep(nseq):
        if stride == 1:
            return True
        h = 0
        for c, dt in nseq:
            h = h * 17 + ALPHABET.index(c) * 2 + dt
        return h % stride == 0
    prefixes = [[(c, 0)] for c in ALPHABET]
    if depth >= 3:
        prefixes = [[(c, 0), (c2, dt)] for c in ALPHABET for c2 in ALPHABET for dt in (0, 1)]

    def task(prefix):
        def go(d):
            out = []
            explore(d, "W1", prefix, depth, out, keep)
            return out
        return go
    firsts = run_parallel([(lambda d, c=c: run_sequence(d, "W1", [(c, 0)])) for c in ALPHABET]) if depth >= 3 else []
    chunks = run_parallel([task(p) for p in prefixes])
    results = firsts + [r for ch in chunks for r in ch]
    seen = set()
    uniq = []
    for r in results:
        key = (r.ws, seq_str(r.seq))
        if key not in seen:
            seen.add(key)
            uniq.append(r)
    uniq.sort(key=lambda r: (len(r.seq), seq_str(r.seq)))
    ctx.cov["exhaustive"] = True
    ctx.count("exhaustive:sequences", len(uniq))
    for r in uniq:
        ctx.count("len=%d" % len(r.seq))
    if judge(ctx, uniq):
        return
    ctx.sample({"workspace": "W1", "sequence": seq_str(uniq[-1].seq), "observed": uniq[-1].pieces[-1][:120]})

    # ---- same-second bursts: rename, then undo / redo / undo ... by `latest` and by id, all within one second --------------
    # ("back-to-back within the same second"): ids derived from the clock (revert-<id>-<sec>, redo-<id>-<sec>) are the ones
    # that can collide here; #2 is the first redo entry when the burst starts undo, redo
    burst_alpha = ["ul", "rl", "u0", "r0", "u2"] + (["r2"] if ctx.thorough else [])
    burst_depth = 4                                  # commands after the rename
    heads = [(x, dt) for x in (("A", "A'", "B") if ctx.thorough else ("A'",)) for dt in ((0, 1) if ctx.thorough else (0,))]

    def btask(x, c1, dt):
        def go(d):
            out = []
            explore(d, "W1", [(x, 0), (c1, dt)], 1 + burst_depth, out, None, burst_alpha, (0,))
            return out
        return go
    bchunks = run_parallel([btask(x, c1, dt) for x, dt in heads for c1 in burst_alpha])
    bres = [r for ch in bchunks for r in ch]
    bres.sort(key=lambda r: (len(r.seq), seq_str(r.seq)))
    ctx.count("burst:sequences", len(bres))
    if judge(ctx, bres):
        return
    ctx.sample({"workspace": "W1", "sequence": seq_str(bres[-1].seq), "observed": bres[-1].pieces[-1][:120]})

    # ---- the directory workspace W5: exhaustive one second apart, same-second bursts after A ------------------------------
    w5_depth = 4
    w5_pref = [[(c, 0), (c2, 1)] for c in ALPHABET_W5 for c2 in ALPHABET_W5]

    def w5task(prefix, depth, alpha, dts):
        def go(d):
            out = []
            explore(d, "W5", prefix, depth, out, None, alpha, dts)
            return out
        return go
    tasks = [w5task(pf, w5_depth, ALPHABET_W5, (1,)) for pf in w5_pref]
    tasks += [(lambda d, c=c: [run_sequence(d, "W5", [(c, 0)])]) for c in ALPHABET_W5]
    if ctx.thorough:   # also both spacings up to three commands
        tasks += [w5task([(c, 0), (c2, 0)], 3, ALPHABET_W5, (0, 1)) for c in ALPHABET_W5 for c2 in ALPHABET_W5]
    w5_burst = ["ul", "rl", "u0", "r0", "u2"]
    tasks += [w5task([("A", 0), (c1, 0)], 1 + (4 if ctx.thorough else 3), w5_burst, (0,)) for c1 in w5_burst]
    w5res, seen5 = [], set()
    for ch in run_parallel(tasks):
        for r in ch:
            key = seq_str(r.seq)
            if key not in seen5:
                seen5.add(key)
                w5res.append(r)
    w5res.sort(key=lambda r: (len(r.seq), seq_str(r.seq)))
    ctx.count("w5:sequences", len(w5res))
    if judge(ctx, w5res):
        return
    ctx.sample({"workspace": "W5", "sequence": seq_str(w5res[-1].seq), "observed": w5res[-1].pieces[-1][:160]})

    # ---- redo chains: a redo entry undone and redone again, then redone ONCE MORE (by id and by `latest`), one second apart
    #      (same-second repeats are refused for the duplicate id before this matters); A' has a replacement that contains the
    #      search term, so a second application still finds its text.  Needs 6-8 commands: beyond the exhaustive depth.
    chains = []
    for first in ("A'", "A"):
        base = [(first, 0), ("u0", 1), ("r0", 1), ("u2", 1)]
        for again in ("r2", "rl"):
            for last in ("r2", "rl", "r0"):
                for dt_last in (1, 0):
                    chains.append(("W1", base + [(again, 1), (last, dt_last)]))
        chains.append(("W1", base + [("r2", 1), ("u4", 1), ("r4", 1), ("r4", 1)]))
        chains.append(("W1", base + [("r2", 1), ("u4", 1), ("r4", 1), ("r2", 1), ("rl", 1)]))
        chains.append(("W1", base + [("rl", 1), ("ul", 1), ("rl", 1), ("rl", 1), ("r0", 1)]))
    cres = run_parallel([(lambda d, ws=ws, seq=seq: run_sequence(d, ws, seq)) for ws, seq in chains])
    ctx.count("redo-chains:sequences", len(cres))
    if judge(ctx, cres):
        return
    ctx.sample({"workspace": "W1", "sequence": seq_str(cres[0].seq), "steps": cres[0].classes})

    # ---- stale LATER match (workspace W6): the operation is undone, another rename shifts the second of two matches in one
    #      file, then the redo (by id, by `latest`, twice, after undoing the other rename again) ---------------------------
    stale = [[("A", 0), ("ul", 1), ("S", 1), ("rl", 1)], [("A", 0), ("u0", 1), ("S", 1), ("r0", 1)],
             [("A", 0), ("u0", 1), ("S", 1), ("r0", 1), ("r0", 1)], [("A", 0), ("u0", 1), ("S", 1), ("r0", 1), ("ul", 1), ("r0", 1)],
             [("S", 0), ("ul", 1), ("A", 1), ("rl", 1)], [("S", 0), ("u0", 1), ("A", 1), ("r0", 1), ("ul", 1)],
             [("A", 0), ("S", 1), ("u0", 1), ("ul", 1), ("r0", 1), ("rl", 1)], [("A", 0), ("S", 1), ("u1", 1), ("u0", 1), ("r1", 1), ("r0", 1)]]
    sres = run_parallel([(lambda d, seq=seq: run_sequence(d, "W6", seq)) for seq in stale])
    ctx.count("stale-later-match:sequences", len(sres))
    if judge(ctx, sres):
        return
    ctx.sample({"workspace": "W6", "sequence": seq_str(sres[0].seq), "steps": sres[0].classes})

    # ---- random, longer ------------------------------------------------------------------------------
    n_rand = 400 if ctx.thorough else 40
    rseqs = []
    for _ in range(n_rand):
        ws = rng.choice(["W1", "W1", "W2", "W3"])
        n = rng.randint(4, 10)
        seq = []
        for i in range(n):
            # bias towards sequences that stay inside the guard for a while: next second more often than same second
            seq.append((rng.choice(ALPHABET), 1 if rng.random() < 0.8 else 0))
        rseqs.append((ws, seq))
    for _ in range(n_rand // 4):
        rseqs.append(("W5", [(rng.choice(ALPHABET_W5), 1 if rng.random() < 0.8 else 0) for _ in range(rng.randint(4, 10))]))
        rseqs.append(("W6", [(rng.choice(ALPHABET_W5), 1 if rng.random() < 0.8 else 0) for _ in range(rng.randint(4, 9))]))
    rres = run_parallel([(lambda d, ws=ws, seq=seq: run_sequence(d, ws, seq)) for ws, seq in rseqs])
    for r in rres:
        ctx.count("random:executed_steps", len(r.pieces))
    if judge(ctx, rres):
        return
    ctx.sample({"workspace": rres[0].ws, "sequence": seq_str(rres[0].seq), "steps": rres[0].classes})


def replay(ctx, path):
    obj = json.load(open(path))
    case = obj.get("case", {})
    ok, msg = common.cargo_build()
    if not ok:
        ctx.broke("build", "cargo", msg)
        return
    try:                                          # keep the model's flags in step with the code being replayed
        from translate import history_flags
        if any(ch for _, ch in history_flags.run()):
            common.lean_build([])
    except Exception as ex:
        ctx.broke("translator", "translate/history_flags.py", str(ex))
    if not isinstance(case, dict) or "sequence" not in case:
        print(json.dumps(obj, indent=1)[:3000])
        return
    ws = case["workspace"]
    if ws not in WORKSPACES and "files" in case:
        WORKSPACES[ws] = case["files"]
    seq = [tuple(x) for x in case["sequence"]]
    with common.scratch(prefix="renamify-verif.c10.") as d:
        r = run_sequence(d, ws, seq)
    model = common.run_model([model_request(ws, seq)])[0].split()
    for k, p in enumerate(r.pieces):
        c, dt = seq[k]
        print(f"step {k} {'+' if dt else '='}{c}: impl  {p}")
        print(f"{'':{len(str(k)) + len(c) + 8}}model {model[k] if k < len(model) else None}")
    print("oracle:", r.verdict if r.verdict else "conforms")
    judge(ctx, [r])
