"""C05 — Renaming never overwrites or loses existing files.

prove       RModel.Props.C05 (rename onto a free destination keeps every node; occupied destination loses one; witnesses)
correspond  `applytree` (real apply_plan vs Apply.applyPlan) on trees whose planned destination is occupied by a
            file / empty dir / non-empty dir / symlink, and on chains
oracle      CLI: plan + apply on such trees; no pre-existing file may disappear or be replaced, the occupant must be
            untouched, a refusal must leave the tree unchanged
"""
import json
import os

from . import common, gen, oracle
from .common import hexs

OCCUPANTS = ["file", "emptydir", "dir", "symlink", "none"]


def scenario(rng, idx):
    """tree with a source whose planned destination (same style rendering of the replacement) is occupied"""
    swords, rwords = gen.pick_terms(rng, 2, 2)
    style = rng.choice(["snake", "kebab", "camel", "pascal"])
    s, r = gen.render(style, swords), gen.render(style, rwords)
    kind = rng.choice(["file", "file", "dir"])
    occ = OCCUPANTS[idx % len(OCCUPANTS)]
    sub = rng.choice(["", "pkg/"])
    tree = {}
    if sub:
        tree["pkg"] = ("d", 0o755)
    ext = rng.choice([".txt", ".rs", ""]) if kind == "file" else ""
    src, dst = sub + s + ext, sub + r + ext
    if kind == "file":
        tree[src] = ("f", f"source {s}\n".encode(), 0o644)
    else:
        tree[src] = ("d", 0o755)
        tree[src + "/inner.txt"] = ("f", b"inner of source\n", 0o644)
    if occ == "file":
        tree[dst] = ("f", b"precious occupant\n", 0o600)
    elif occ == "emptydir":
        tree[dst] = ("d", 0o755)
    elif occ == "dir":
        tree[dst] = ("d", 0o755)
        tree[dst + "/keep.txt"] = ("f", b"kept\n", 0o644)
    elif occ == "symlink":
        tree[dst] = ("l", "somewhere")
    tree[sub + "unrelated.md"] = ("f", b"nothing here\n", 0o644)
    return {"search": s, "replace": r, "tree": tree, "src": src, "dst": dst, "occupant": occ, "kind": kind}


def nested_scenario(rng, idx):
    """source AND occupant sit inside a directory (one or two levels) that the same plan renames as well, so the
    place the entry finally lands in does not exist yet when the plan is checked"""
    swords, rwords = gen.pick_terms(rng, 2, 2)
    style = rng.choice(["snake", "kebab", "camel", "pascal"])
    s, r = gen.render(style, swords), gen.render(style, rwords)
    occ = ["file", "symlink", "emptydir", "dir"][idx % 4]
    kind = rng.choice(["file", "file", "dir"])
    depth = 1 + idx % 2
    top = s + "_pkg"
    tree = {top: ("d", 0o755)}
    base = top
    if depth == 2:
        base = top + "/inner_" + s
        tree[base] = ("d", 0o755)
    ext = ".txt" if kind == "file" else ""
    src, dst = f"{base}/{s}{ext}", f"{base}/{r}{ext}"
    if kind == "file":
        tree[src] = ("f", b"source without the term\n", 0o644)
    else:
        tree[src] = ("d", 0o755)
        tree[src + "/inner.txt"] = ("f", b"inner of source\n", 0o644)
    if occ == "file":
        tree[dst] = ("f", b"precious occupant\n", 0o600)
    elif occ == "emptydir":
        tree[dst] = ("d", 0o755)
    elif occ == "dir":
        tree[dst] = ("d", 0o755)
        tree[dst + "/keep.txt"] = ("f", b"kept\n", 0o644)
    else:
        tree[dst] = ("l", "somewhere")
    tree["unrelated.md"] = ("f", b"nothing here\n", 0o644)
    extra = [("d", top, r + "_pkg")] + ([("d", base, top + "/inner_" + r)] if depth == 2 else [])
    return {"search": s, "replace": r, "tree": tree, "src": src, "dst": dst, "occupant": "nested_" + occ, "kind": kind,
            "extra_rens": extra}


CASE_OCCUPANTS = ["file", "symlink_to_source", "symlink", "emptydir", "dir", "none"]


def caseonly_scenario(rng, idx):
    """the planned destination differs from the source ONLY by letter case (FooBar -> Foobar) and is occupied —
    in particular by a symlink that points at the source, which resolves to the same file as the source without
    being the same directory entry"""
    w = rng.sample(gen.VOCAB, 2)
    style = rng.choice(["pascal", "camel"])
    s, r = gen.render(style, w), gen.render(style, [w[0] + w[1]])
    kind = rng.choice(["file", "file", "dir"])
    occ = CASE_OCCUPANTS[idx % len(CASE_OCCUPANTS)]
    sub = rng.choice(["", "pkg/"])
    tree = {}
    if sub:
        tree["pkg"] = ("d", 0o755)
    ext = rng.choice([".txt", ".rs", ""]) if kind == "file" else ""
    src, dst = sub + s + ext, sub + r + ext
    if kind == "file":
        tree[src] = ("f", b"source without the term\n", 0o644)
    else:
        tree[src] = ("d", 0o755)
        tree[src + "/inner.txt"] = ("f", b"inner of source\n", 0o644)
    if occ == "file":
        tree[dst] = ("f", b"precious occupant\n", 0o600)
    elif occ == "emptydir":
        tree[dst] = ("d", 0o755)
    elif occ == "dir":
        tree[dst] = ("d", 0o755)
        tree[dst + "/keep.txt"] = ("f", b"kept\n", 0o644)
    elif occ == "symlink":
        tree[dst] = ("l", "somewhere")
    elif occ == "symlink_to_source":
        tree[dst] = ("l", s + ext)
    tree[sub + "unrelated.md"] = ("f", b"nothing here\n", 0o644)
    return {"search": s, "replace": r, "tree": tree, "src": src, "dst": dst, "occupant": "caseonly_" + occ if occ != "none" else "none",
            "kind": kind}


def chain_scenario(rng, length=None):
    """replacement contains the search term (foo -> foo_bar): every planned destination but the last is another
    planned source; chains of 2..4 links"""
    w = rng.sample(gen.VOCAB, 2)
    s, r = w[0], w[0] + "_" + w[1]
    n = length or rng.choice([2, 3, 3, 4])
    names = [s + ("_" + w[1]) * i + ".txt" for i in range(n)]
    tree = {nm: ("f", f"content of file {i}\n".encode(), 0o644) for i, nm in enumerate(names)}
    return {"search": s, "replace": r, "tree": tree, "src": names[0], "dst": names[1], "occupant": "chain", "kind": "file",
            "chain": names + [s + ("_" + w[1]) * n + ".txt"]}


def shared_scenario(rng, idx):
    """several sources mapping to ONE destination in one plan: the regex planner of `replace` produces such plans
    (`foo\\d` -> `bar` over foo1.txt, foo2.txt ...), files or directories, 2-3 sources, at root or inside a directory;
    the by-construction plan goes through applytree (with an identity rename or a skipped duplicate mixed in)"""
    w = rng.sample(gen.VOCAB, 2)
    s, r = w[0], w[1]
    k = 2 + idx % 2
    kind = "dir" if idx % 4 == 3 else "file"
    sub = "" if idx % 3 else "pkg/"
    ext = rng.choice([".txt", ".rs"]) if kind == "file" else ""
    tree = {}
    if sub:
        tree["pkg"] = ("d", 0o755)
    srcs = [f"{sub}{s}{i + 1}{ext}" for i in range(k)]
    dst = f"{sub}{r}{ext}"
    for i, p in enumerate(srcs):
        if kind == "file":
            tree[p] = ("f", f"payload {i} of a shared destination\n".encode(), 0o644)
        else:
            tree[p] = ("d", 0o755)
            tree[p + f"/inner{i}.txt"] = ("f", f"inner payload {i}\n".encode(), 0o644)
    tree[sub + "unrelated.md"] = ("f", b"nothing here\n", 0o644)
    kd = "d" if kind == "dir" else "f"
    rens = [(kd, p, dst) for p in srcs]
    if idx % 5 == 1:
        rens.insert(1, (kd, srcs[0], dst))                       # the same rename twice: not a conflict
    if idx % 5 == 2:
        rens.insert(0, ("f", sub + "unrelated.md", sub + "unrelated.md"))   # identity rename: skipped by the loop
    return {"search": s + "\\d", "replace": r, "tree": tree, "src": srcs[0], "dst": dst, "occupant": "shared", "kind": kind,
            "all_rens": rens, "direct": ["replace", s + "\\d", r, "-y", "--no-auto-init", "--quiet"]}


def cycle_scenario(rng, idx):
    """a chain that closes on itself: a swap (ab <-> ba) or a rotation (abc -> bca -> cab -> abc) of files, symlinks or
    empty directories, planned by `replace` with capture groups; every destination is the source of another rename of
    the same plan, so there is no order in which plain rename(2) calls keep all the nodes"""
    k = 2 + idx % 2
    kind = ["file", "file", "dir", "link"][idx % 4]
    sub = "" if idx % 3 else "pkg/"
    stem = rng.choice(["q", "zz", "w9"])
    if k == 2:
        names, pat, rep = ["ab", "ba"], "(a)(b)|(b)(a)", "$2$1$4$3"
    else:
        names, pat, rep = ["abc", "bca", "cab"], "(a)(b)(c)|(b)(c)(a)|(c)(a)(b)", "$2$3$1$5$6$4$8$9$7"
    ext = ".txt" if kind == "file" else ""
    paths = [f"{sub}{stem}_{n}{ext}" for n in names]
    tree = {}
    if sub:
        tree["pkg"] = ("d", 0o755)
    for i, p in enumerate(paths):
        if kind == "file":
            tree[p] = ("f", f"PAYLOAD {i} OF THE CYCLE\n".encode(), 0o644)
        elif kind == "dir":
            tree[p] = ("d", 0o755)
        else:
            tree[p] = ("l", f"target-{i}")
    tree[sub + "unrelated.md"] = ("f", b"NOTHING HERE\n", 0o644)
    kd = "d" if kind == "dir" else "f"
    rens = [(kd, paths[i], paths[(i + 1) % k]) for i in range(k)]
    return {"search": pat, "replace": rep, "tree": tree, "src": paths[0], "dst": paths[1], "occupant": "cycle", "kind": kind,
            "all_rens": rens, "direct": ["replace", pat, rep, "-y", "--no-auto-init", "--quiet"]}


def file_multiset(snap):
    out = {}
    for p, v in snap.items():
        if v[0] == "f":
            out[v[2]] = out.get(v[2], 0) + 1
        elif v[0] == "l":
            out[("l", v[2])] = out.get(("l", v[2]), 0) + 1
    return out


def run_cli(ctx, sc):
    with common.scratch() as d:
        common.materialize(d, sc["tree"])
        before = common.snapshot(d)
        if sc.get("direct"):
            # one command that plans and applies (`replace`): no plan file to read, no content edits by construction
            rc, out, err = common.cli(sc["direct"], d)
            plan, plan_rc = None, rc
        else:
            rc, out, err = common.cli(["plan", sc["search"], sc["replace"], "--no-auto-init", "--quiet"], d)
            plan_path = os.path.join(d, ".renamify", "plan.json")
            plan = json.load(open(plan_path)) if os.path.exists(plan_path) else None
            plan_rc = rc
            rc, out, err = common.cli(["apply", "--no-auto-init", "--quiet"], d) if plan else (plan_rc, b"", err)
        after = common.snapshot(d)
    # expected contents after the planned edits (reference splice)
    expected = {}
    edits = oracle.plan_edits(plan, d) if plan else {}
    for p, v in before.items():
        if v[0] == "f":
            c = v[2]
            if p in edits:
                c2, prob = oracle.splice(c, edits[p])
                c = c2 if c2 is not None else c
            expected[p] = c
    res = {"rc": rc, "plan_rc": plan_rc, "stderr": err.decode("utf-8", "replace")[-200:],
           "renames": [] if not plan else [(oracle.rel(d, r["path"]), oracle.rel(d, r["new_path"])) for r in plan["paths"]]}
    # every pre-existing file content (original or edited) must still exist somewhere
    have = file_multiset(after)
    lost = []
    for p, c in expected.items():
        orig = before[p][2]
        if have.get(c, 0) > 0:
            have[c] -= 1
        elif have.get(orig, 0) > 0:
            have[orig] -= 1
        else:
            lost.append(p)
    for p, v in before.items():
        if v[0] == "l":
            if have.get(("l", v[2]), 0) > 0:
                have[("l", v[2])] -= 1
            else:
                lost.append(p)
    res["lost"] = lost
    # the occupant (not moved by the plan) must be untouched
    occ_untouched = True
    if sc["occupant"] not in ("none", "chain", "shared", "cycle"):
        moved = {a for a, _ in res["renames"]}
        if sc["dst"] not in moved:
            occ_untouched = before.get(sc["dst"]) == after.get(sc["dst"])
            if sc["occupant"] in ("dir", "caseonly_dir", "nested_dir"):
                occ_untouched = occ_untouched and before.get(sc["dst"] + "/keep.txt") == after.get(sc["dst"] + "/keep.txt")
    res["occupant_untouched"] = occ_untouched
    res["unchanged"] = before == after
    return res, before, after


def classify(sc, res):
    """None = property holds on this run; else slug of the way it fails"""
    if res["rc"] == 0:
        if res["lost"]:
            if sc["occupant"] == "shared":
                return f"shared_destination_{sc['kind']}_lost"
            if sc["occupant"] == "cycle":
                return f"cycle_{sc['kind']}_lost"
            return "chain_overwrites" if sc["occupant"] == "chain" else f"occupied_{sc['occupant']}_{sc['kind']}_lost"
        if not res["occupant_untouched"]:
            return f"occupied_{sc['occupant']}_{sc['kind']}_replaced"
        return None
    # refused: occupant untouched, nothing lost; (content edits left behind are C04's subject)
    if res["lost"] or not res["occupant_untouched"]:
        return f"refused_but_damaged_{sc['occupant']}_{sc['kind']}"
    return None


def run(ctx):
    ctx.cov["rule"] = ("scenarios: planned rename destination occupied by file / empty dir / non-empty dir / symlink / nothing, "
                       "source file or directory, at root or nested, 4 styles, plus chains (replacement contains the term), plus "
                       "destinations that differ from the source only by letter case and are occupied by a file / directory / "
                       "symlink elsewhere / symlink to the source itself, plus occupied destinations one or two levels inside a "
                       "directory that the same plan renames, plus 2-3 sources (files or directories) that one plan maps to ONE "
                       "destination (regex planner of `replace`; by-construction plans with a repeated or an identity rename mixed in), "
                       "plus chains that close on themselves (swap, rotation of three: files, empty directories, symlinks); "
                       "each run through the CLI (plan + apply) and through applytree (model correspondence). "
                       "non-trivial = destination occupied or chain; distinct = (terms, shape)")
    ctx.assumptions += ["POSIX rename(2) semantics as in RModel.Model.Fs", "case-insensitive filesystems not modelled"]
    ctx.prove("RModel.Props.C05")
    ok, msg = common.cargo_build()
    if not ok:
        ctx.broke("build", "cargo", msg)
        return
    rng = ctx.rng
    n = 200 if ctx.thorough else 50
    scs = ([scenario(rng, i) for i in range(n)] + [chain_scenario(rng) for _ in range(n // 5)]
           + [caseonly_scenario(rng, i) for i in range(n // 2)] + [nested_scenario(rng, i) for i in range(n // 2)]
           + [shared_scenario(rng, i) for i in range(n // 2)] + [cycle_scenario(rng, i) for i in range(n // 2)])

    # correspondence: a by-construction plan (rename src -> dst) through applytree
    reqs = []
    for sc in scs:
        kind = "d" if sc["kind"] == "dir" else "f"
        rens = [(kind, sc["src"], sc["dst"])] + sc.get("extra_rens", [])
        if sc["occupant"] in ("shared", "cycle"):
            rens = sc["all_rens"]
        if sc["occupant"] == "chain":
            ch = sc["chain"]
            rens = [("f", ch[i], ch[i + 1]) for i in range(len(ch) - 1)]
        reqs.append(" ".join(["applytree"] + gen.wire_tree(sc["tree"]) + gen.wire_hunks([]) + gen.wire_rens(rens)))
    common.correspond(ctx, "applytree on occupied destinations", reqs)

    seen = {}
    for sc in scs:
        res, before, after = run_cli(ctx, sc)
        ctx.case((sc["search"], sc["replace"], sc["occupant"], sc["kind"], sc["src"]), nontrivial=sc["occupant"] != "none")
        ctx.count(f"cli:{sc['occupant']}/{sc['kind']}:rc={res['rc']}")
        slug = classify(sc, res)
        case = {"search": sc["search"], "replace": sc["replace"], "tree": common.snap_digest(before),
                "tree_src": {k: ([v[0], v[1].hex(), v[2]] if v[0] == "f" else list(v)) for k, v in sc["tree"].items()},
                "direct": sc.get("direct"),
                "src": sc["src"], "dst": sc["dst"], "occupant": sc["occupant"], "kind": sc["kind"], **res}
        if slug is None:
            continue
        seen.setdefault(slug, case)
        if not ctx.known(slug):
            ctx.violation("input", case, expected="refusal with the tree unchanged, or success with every pre-existing file kept",
                          observed={"rc": res["rc"], "lost": res["lost"], "occupant_untouched": res["occupant_untouched"],
                                    "diff": common.snap_diff(before, after)},
                          note=f"failure shape {slug} is not a listed finding")
            return
    for slug, case in seen.items():
        ctx.sample({"finding": slug, "search": case["search"], "dst": case["dst"], "rc": case["rc"]})
    ctx.sample({"scenario": {k: v for k, v in scs[0].items() if k != "tree"}, "tree": sorted(scs[0]["tree"])})


def replay(ctx, path):
    obj = json.load(open(path))
    case = obj.get("case")
    if not isinstance(case, dict) or "tree_src" not in case:
        print(json.dumps(obj, indent=1)[:3000])
        return
    ok, msg = common.cargo_build()
    if not ok:
        ctx.broke("build", "cargo", msg)
        return
    tree = {k: (("f", bytes.fromhex(v[1]), v[2]) if v[0] == "f" else tuple(v)) for k, v in case["tree_src"].items()}
    sc = {"search": case["search"], "replace": case["replace"], "tree": tree, "src": case["src"], "dst": case["dst"],
          "occupant": case["occupant"], "kind": case["kind"], "direct": case.get("direct")}
    res, before, after = run_cli(ctx, sc)
    slug = classify(sc, res)
    print(json.dumps({"rc": res["rc"], "lost": res["lost"], "occupant_untouched": res["occupant_untouched"],
                      "unchanged": res["unchanged"], "diff": common.snap_diff(before, after)}, indent=1, default=str)[:3000])
    if slug is None:
        print("property holds on this case")
    elif not ctx.known(slug):
        ctx.violation("input", case, expected="refusal with the tree unchanged, or success with every pre-existing file kept",
                      observed={"rc": res["rc"], "lost": res["lost"], "occupant_untouched": res["occupant_untouched"]},
                      note=f"replayed: failure shape {slug}")
