"""C06, family "busy lines": lines on which the compound pass and the coercion are NOT silent.

A line is a sequence of ITEMS separated by neutral delimiters.  Every item is built by construction as
`outer_left + TERM + outer_right` (the term rendered in some style, glued to other words or standing alone), so the oracle
knows, independently of model and code, which bytes belong to the term:

  standalone   the term between neutral delimiters                      -> C06: rewritten in the SAME style when that style is
                                                                           enabled, byte-identical otherwise
  embedded     prefix words + term + suffix words in ONE style          -> C07: untouched, or only the term's words change
                                                                           (strict: the same assembly with the replacement)
  mixed        prefix / term / suffix in different styles, joined by    -> C07 locality: every byte outside the term's span
               `_`, `-`, `.` or nothing; dotted paths                      stays, the span holds the replacement's words in
                                                                           some rendering (or the item is untouched)
  filler       words that do not contain the term                       -> byte-identical

The hunks reported by the real code are mapped onto the items; a hunk that reaches outside one item, an item whose outside
bytes change, a standalone occurrence in an enabled style that is not rewritten in that style: VIOLATION unless the input
falls under a listed finding class (decidable description below) AND the output is the one that class predicts.
"""
from . import gen

SEP = {"snake": "_", "kebab": "-", "screaming_snake": "_", "train": "-", "screaming_train": "-", "dot": ".", "camel": "",
       "pascal": ""}
NAME_STYLES = ["snake", "kebab", "screaming_snake", "train", "screaming_train", "camel", "pascal", "dot"]
AFFIX = ["my", "get", "old", "item", "user", "the", "x", "v2", "id"]
DELIMS = [" ", ", ", " = ", "(", ")", "::", "/", ";", "\"", ": ", " + ", "[", "]", "'", " . ", "  "]
OPT_SETS = ["default", "default", "default", "o=snake", "o=camel,pascal", "x=kebab", "i=dot", "o=snake,kebab,camel,pascal",
            "o=screaming_snake,snake", "x=train,screaming_train", "o=kebab,train", "i=dot,lower_flat", "o=pascal",
            "o=title,sentence,snake"]


def cap(w):
    return w[:1].upper() + w[1:].lower()


def piece(st, w, first):
    if st in ("snake", "kebab", "dot"):
        return w.lower()
    if st in ("screaming_snake", "screaming_train"):
        return w.upper()
    if st in ("train", "pascal"):
        return cap(w)
    if st == "camel":
        return w.lower() if first else cap(w)
    raise ValueError(st)


def assemble(st, pre, mid, suf):
    """(left, term text, right) of the identifier pre+mid+suf in style st"""
    sep = SEP[st]
    ps = [piece(st, w, i == 0) for i, w in enumerate(pre + mid + suf)]
    a, b, c = ps[:len(pre)], ps[len(pre):len(pre) + len(mid)], ps[len(pre) + len(mid):]
    return (sep.join(a) + sep if a else ""), sep.join(b), (sep + sep.join(c) if c else "")


class Item:
    """kind, left, term, right, style of the term rendering (None for fillers), strict expected term text (or None)"""
    __slots__ = ("kind", "left", "term", "right", "style", "strict")

    def __init__(self, kind, left, term, right, style=None, strict=None):
        self.kind, self.left, self.term, self.right, self.style, self.strict = kind, left, term, right, style, strict

    @property
    def text(self):
        return self.left + self.term + self.right

    def describe(self):
        return {"kind": self.kind, "text": self.text, "outside_the_term": [self.left, self.right], "term": self.term,
                "term_style": self.style, "strict_expected": None if self.strict is None else self.left + self.strict + self.right}


def gen_item(rng, S, R, kinds):
    kind = rng.choice(kinds)
    if kind == "standalone":
        st = rng.choice(gen.V12)
        return Item(kind, "", gen.render(st, S), "", st, gen.render(st, R))
    if kind == "embedded":
        st = rng.choice(NAME_STYLES)
        npre, nsuf = rng.choice([(1, 0), (0, 1), (1, 1), (2, 0), (0, 2), (2, 1)])
        pre, suf = rng.sample(AFFIX, npre), rng.sample(AFFIX, nsuf)
        if st == "camel" and not pre:
            # the first word of a camelCase identifier is lower case: the term leads as `fooBar`
            pass
        l, t, r = assemble(st, pre, S, suf)
        _, t2, _ = assemble(st, pre, R, suf)
        return Item(kind, l, t, r, st, t2)
    if kind == "mixed":
        a, b, c = (rng.choice(NAME_STYLES) for _ in range(3))
        j1, j2 = rng.choice(["_", "-", ".", "", "_", "-"]), rng.choice(["_", "-", ".", "", "_", "-"])
        pre = rng.sample(AFFIX, rng.randint(0, 2))
        suf = rng.sample(AFFIX, rng.randint(0, 2))
        if not pre and not suf:
            suf = [rng.choice(AFFIX)]
        left = (SEP[a].join(piece(a, w, i == 0) for i, w in enumerate(pre)) + j1) if pre else ""
        right = (j2 + SEP[c].join(piece(c, w, False) for w in suf)) if suf else ""
        t = gen.render(b, S) if b != "camel" or not pre else SEP[b].join(cap(w) for w in S)
        return Item(kind, left, t, right, b, None)
    if kind == "dotted":
        inner = gen_item(rng, S, R, ["standalone", "embedded", "embedded", "mixed"])
        while inner.style in ("title", "sentence", "lower_sentence", "upper_sentence"):
            inner = gen_item(rng, S, R, ["standalone", "embedded", "mixed"])
        segs_l = [rng.choice(["cfg", "obj", "a", "my_mod", "self", "Baz", "x-y"]) for _ in range(rng.randint(0, 2))]
        segs_r = [rng.choice(["item", "len", "b", "to_s", "Value", "w_"]) for _ in range(rng.randint(0, 2))]
        if not segs_l and not segs_r:
            segs_l = ["cfg"]
        left = "".join(s + "." for s in segs_l) + inner.left
        right = inner.right + "".join("." + s for s in segs_r)
        # strictness survives only for a standalone or same-style embedded segment
        return Item("dotted:" + inner.kind, left, inner.term, right, inner.style, inner.strict)
    if kind == "filler":
        w = rng.sample(gen.FILLER + AFFIX, rng.randint(1, 2))
        st = rng.choice(NAME_STYLES[:7])
        return Item(kind, SEP[st].join(piece(st, x, i == 0) for i, x in enumerate(w)), "", "")
    raise ValueError(kind)


PROFILES = [
    ["standalone", "embedded"],
    ["standalone", "embedded", "mixed", "dotted", "filler"],
    ["embedded", "mixed", "dotted"],
    ["standalone", "standalone", "mixed"],
    ["standalone", "dotted", "filler"],
]


def gen_line(rng, S, R):
    """-> (line, [(offset, Item)])"""
    kinds = rng.choice(PROFILES)
    n = rng.randint(2, 4)
    items = [gen_item(rng, S, R, kinds) for _ in range(n)]
    if not any(it.term for it in items):
        items[0] = gen_item(rng, S, R, ["standalone"])
    if rng.random() < 0.35:
        # the same spelling of the term once more, standing alone AFTER an identifier that contains it
        src = [it for it in items if it.term and it.kind != "standalone"]
        if src:
            t = rng.choice(src).term
            sts = [st for st in gen.V12 if gen.render(st, S) == t]
            if sts:
                items.append(Item("standalone", "", t, "", sts[0], gen.render(sts[0], R)))
    line = rng.choice(["", "", " ", "(", "let "])
    placed = []
    for k, it in enumerate(items):
        placed.append((len(line.encode()), it))
        line += it.text
        if k + 1 < len(items):
            d = rng.choice(DELIMS)
            # a space-separated rendering next to another word needs a delimiter that is not a plain space to stay an
            # item of its own by construction
            if it.style in ("title", "sentence", "lower_sentence", "upper_sentence") or \
                    items[k + 1].style in ("title", "sentence", "lower_sentence", "upper_sentence"):
                d = rng.choice([", ", " = ", "(", "::", "/", ";", "\"", ": ", "["])
            line += d
    line += rng.choice(["", ")", ";", " // end"])
    return line + "\n", placed


def norm(s):
    return "".join(ch for ch in s if ch not in "_-. ").lower()


def judge_item(it, new_text, en, R):
    """None = fine, else a reason"""
    old = it.text
    if it.kind == "filler":
        return None if new_text == old else "a word that does not contain the term was changed"
    if new_text == old:
        return None if not (it.kind == "standalone" and it.style in en) else \
            "standalone occurrence in an enabled style not rewritten"
    if it.kind.endswith("mixed"):
        # an identifier that mixes separator kinds or letter cases is in no style: C07 does not promise that the bytes
        # around the term survive a re-join, only that the words do
        return None if norm(new_text) == norm(it.left) + "".join(R).lower() + norm(it.right) else \
            "an identifier of mixed style lost or gained a word other than the term's"
    if not (new_text.startswith(it.left) and new_text.endswith(it.right) and len(new_text) >= len(it.left) + len(it.right)):
        return "bytes outside the term's span changed"
    mid = new_text[len(it.left):len(new_text) - len(it.right)]
    if it.kind == "standalone":
        if it.style in en:
            return None if mid == it.strict else "standalone occurrence in an enabled style not rewritten in that style"
        return None if mid == it.term else "standalone occurrence in a disabled style was changed"
    if mid == it.term:
        return None          # untouched
    if it.strict is not None and mid == it.strict:
        return None
    if not mid or mid[0] in "_-. " or mid[-1] in "_-. ":
        return "the rewritten span starts or ends with a separator"
    if norm(mid) != "".join(R).lower():
        return "the term's span does not hold the replacement's words"
    return None


def judge_line(line, placed, hunks, new_line, en, R):
    """hunks = [(col, content, replace)] byte columns into `line`; -> list of (item index, reason)"""
    raw = line.encode()
    spans = [(off, off + len(it.text.encode())) for off, it in placed]
    per = {k: [] for k in range(len(placed))}
    bad = []
    for col, content, rep in hunks:
        e = col + len(content.encode())
        owner = [k for k, (a, b) in enumerate(spans) if a <= col and e <= b]
        if not owner:
            bad.append((-1, f"hunk {col}..{e} {content!r} lies outside every item"))
            continue
        per[owner[0]].append((col, e, rep))
    # the line must be the splice of the hunks
    out, pos = b"", 0
    for col, content, rep in sorted(hunks):
        out += raw[pos:col] + rep.encode()
        pos = col + len(content.encode())
    out += raw[pos:]
    if out.decode("utf-8", "replace") != new_line:
        bad.append((-1, "the rewritten line is not the splice of the reported hunks"))
    for k, (off, it) in enumerate(placed):
        seg, pos = b"", off
        for col, e, rep in sorted(per[k]):
            seg += raw[pos:col] + rep.encode()
            pos = e
        seg += raw[pos:spans[k][1]]
        why = judge_item(it, seg.decode("utf-8", "replace"), en, R)
        if why:
            bad.append((k, why))
    return bad


# ---- finding classes --------------------------------------------------------------------------------------------------

def first_occurrence_elsewhere(line, placed, k):
    """the standalone item k is not the first place in the line where its text occurs"""
    off, it = placed[k]
    return it.kind == "standalone" and line.encode().find(it.term.encode()) < off


SLUG_FIRST = "coercion_context_of_first_occurrence"


def first_occ_class(line, placed, k, why, mid_new, R):
    """finding class `coercion_context_of_first_occurrence` (decidable on the input + the shape of the output):
    a standalone occurrence whose spelling occurs EARLIER in the same line (inside a longer identifier, or alone next to `-`/`_`);
    `generate_hunks` locates the match with `line_string.find(&content)` — the first place that text occurs in the line — and
    feeds the identifier around THAT place to the coercion, so the standalone occurrence is re-rendered in the style of the
    other identifier; the first-letter fix-up then restores only the case of the first letter.  Predicted output: the
    replacement's words (some separator / case rendering other than the occurrence's own) with the first letter's case kept."""
    if not (k >= 0 and first_occurrence_elsewhere(line, placed, k)):
        return False
    it = placed[k][1]
    if why != "standalone occurrence in an enabled style not rewritten in that style":
        return False
    return bool(mid_new) and norm(mid_new) == "".join(R).lower() and mid_new[0].isupper() == it.term[0].isupper() \
        and mid_new[0] not in "_-. " and mid_new[-1] not in "_-. "


def place(parts):
    """parts: strings (delimiters) and Items, alternating freely -> (line, placed)"""
    line, placed = "", []
    for p in parts:
        if isinstance(p, Item):
            placed.append((len(line.encode()), p))
            line += p.text
        else:
            line += p
    return line, placed


def fixed_cases():
    """hand-written lines (the kernel-evaluated examples of Props/C06.lean, section WP-LINE, among them)"""
    S, R = ["foo", "bar"], ["baz", "qux"]
    sa = lambda st: Item("standalone", "", gen.render(st, S), "", st, gen.render(st, R))
    emb = lambda st, pre, suf: Item("embedded", *assemble(st, pre, S, suf), st, assemble(st, pre, R, suf)[1])
    out = []
    add = lambda parts, opts="default": out.append((S, R, "foo_bar", "baz_qux", opts) + place(parts))
    add([Item("mixed", "x_", "FOO_BAR", "", "screaming_snake"), " ", sa("screaming_snake"), "\n"])      # the finding
    add([emb("snake", ["my"], ["item"]), "\n"])
    add(["(", sa("snake"), ") cfg.", sa("camel"), ".", emb("kebab", ["my"], []), " ", emb("screaming_snake", [], ["x"]), "\n"])
    add(["(", sa("kebab"), ") ", emb("camel", ["my"], ["item"]), "\n"], "o=snake")
    add(["cfg.", emb("camel", ["get"], []), "(x)\n"])
    add(["..", sa("title"), ". \n"])
    add([sa("pascal"), "::", emb("pascal", ["my"], []), "(", sa("snake"), ", ", sa("snake"), ")\n"])
    add([Item("mixed", "my-", "foo_bar", "", "snake"), " ", Item("mixed", "", "Foo-Bar", "_x", "train"), "\n"])
    add([emb("snake", ["get"], []), " ", sa("train"), " ", sa("sentence"), "; ", sa("upper_sentence"), "\n"])
    # Title-Case phrases: the identifier extractor takes `My Foo Bar Thing` as ONE space-separated identifier, the compound
    # matcher answers for it, and the overlap resolution then prefers the space-separated EXACT match inside it
    # (compound_scanner.rs, the `selected_fully_contains_candidate && candidate_is_space_separated` arm — reached by no
    # other family according to bin/covreport)
    tw = lambda left, right: Item("embedded", left, "Foo Bar", right, "title", "Baz Qux")
    add([tw("My ", " Thing"), " here\n"])
    add(["see ", tw("My ", ""), "\n"])
    add([tw("", " Thing"), " and ", sa("snake"), "\n"])
    add([tw("Get ", " Now"), ", ", emb("snake", ["get"], ["now"]), "\n"], "i=title,sentence,lower_sentence,upper_sentence")
    add([tw("The ", ""), "\n"], "o=title")
    return out


def run_family(ctx, C, forms):
    """C = the checks.c06 module (mkreq, correspond, enabled, describe_out …).  Returns False after a VIOLATION."""
    import json
    import os
    from . import common
    rng = ctx.rng
    n = 6000 if ctx.thorough else 1200
    cases = []
    for S, R, ts, tr, opts, line, placed in fixed_cases():
        cases.append({"S": S, "R": R, "search": ts, "replace": tr, "opts": opts, "line": line, "placed": placed,
                      "plurals": True, "cli": True})
    for _ in range(n):
        S, R = gen.pick_terms(rng, 2, 3)
        sst, rst = rng.choice(gen.V12), rng.choice(gen.STYLES)
        ts, tr = gen.render(sst, S), gen.render(rst, R)
        if rst in ("lower_flat", "upper_flat"):
            R = ["".join(R)]                 # a replacement typed without word boundaries is a one-word term
        line, placed = gen_line(rng, S, R)
        cases.append({"S": S, "R": R, "search": ts, "replace": tr, "opts": rng.choice(OPT_SETS), "line": line,
                      "placed": placed, "plurals": rng.random() < 0.5, "cli": rng.random() < 0.7})
    reqs = [C.mkreq(forms, c["line"], c["search"], c["replace"], c["opts"], plurals=c["plurals"], cli=c["cli"]) for c in cases]
    res = C.correspond(ctx, "rewriteline (busy lines: compound pass and coercion active, composed model)", reqs)

    def pub(c, bad=None):
        d = {"family": "busy", "line": c["line"], "search": c["search"], "replace": c["replace"], "opts": c["opts"],
             "plurals": c["plurals"], "cli": c["cli"], "swords": c["S"], "rwords": c["R"],
             "items": [dict(it.describe(), offset=off) for off, it in c["placed"]],
             "command": {"file a.txt": c["line"], "argv": ["renamify", "rename", c["search"], c["replace"]]
                         + C.cli_flags(c["opts"]) + ([] if c["plurals"] else ["--no-plural-variants"]) + ["-y"]}}
        if bad is not None:
            d["failing_items"] = bad
        return d

    first = []
    for c, (req, impl, model) in zip(cases, res):
        ctx.case(req)
        d = C.describe_out(impl)
        if not isinstance(d, dict) or d["status"] != "ok":
            ctx.violation("input", {**pub(c), "request": req}, expected="plan and apply succeed", observed=d,
                          model_prediction=C.describe_out(model), note="plan or apply failed on a one-line file (busy-lines family)")
            return False
        en = C.enabled(c["opts"])
        bad = judge_line(c["line"], c["placed"], [tuple(h) for h in d["hunks"]], d["line"], en, c["R"])
        for off, it in c["placed"]:
            ctx.count("busy:item:" + it.kind.split(":")[0])
        ctx.count("busy:hunks:" + ("0" if not d["hunks"] else "1" if len(d["hunks"]) == 1 else "2+"))
        if not bad:
            ctx.count("busy:ok")
            continue
        # every failing item must fall under the listed class, with the output that class predicts
        raw = c["line"].encode()
        unexplained = []
        for k, why in bad:
            mid = None
            if k >= 0:
                off, it = c["placed"][k]
                hit = [h for h in d["hunks"] if h[0] == off and h[1] == it.term]
                mid = hit[0][2] if len(hit) == 1 else None
            if mid is not None and first_occ_class(c["line"], c["placed"], k, why, mid, c["R"]) and impl == model:
                continue
            unexplained.append([k, why])
        if unexplained:
            ctx.violation("input", {**pub(c, unexplained), "request": req},
                          expected="standalone occurrences rewritten in their own style, embedded ones: only the term's words change",
                          observed=d, model_prediction=C.describe_out(model),
                          note="busy-lines family: " + "; ".join(w for _, w in unexplained))
            return False
        ctx.count("busy:finding:" + SLUG_FIRST)
        first.append((c, req, impl, model, bad))
    # the listed finding: re-observe the recorded witness on the real code, byte for byte, before naming the class
    wpath = os.path.join(common.ROOT, "corpus", ctx.pid, SLUG_FIRST + ".json")
    reproduced = False
    if os.path.exists(wpath):
        obj = json.load(open(wpath))
        wc = obj["case"]
        wreq = C.mkreq(forms, wc["line"], wc["search"], wc["replace"], wc["opts"])
        wimpl = common.run_impl([wreq])[0]
        wmodel = common.run_model([wreq])[0]
        ctx.case(("corpus", SLUG_FIRST))
        ctx.count("corpus")
        if wimpl != wmodel:
            ctx.broke("correspondence", "corpus/" + SLUG_FIRST, {"request": C.describe(wreq), "impl": C.describe_out(wimpl),
                                                                  "model": C.describe_out(wmodel)})
        reproduced = C.out_line(wimpl)[1] == obj["observed"]
        if not reproduced:
            ctx.notes.append(f"witness {SLUG_FIRST} no longer fails as recorded: observed {C.out_line(wimpl)[1]!r}")
    if first:
        c, req, impl, model, bad = first[0]
        if not (reproduced and ctx.known(SLUG_FIRST)):
            ctx.violation("input", {**pub(c, bad), "request": req},
                          expected="every standalone occurrence rewritten in its own style",
                          observed=C.describe_out(impl), model_prediction=C.describe_out(model),
                          note=f"{len(first)} busy lines fail as finding class {SLUG_FIRST} describes, but the class is not "
                               "listed in KNOWN_FINDINGS.txt or its recorded witness no longer reproduces")
            return False
        ctx.sample({"finding": SLUG_FIRST, "cases": len(first), "first": {"line": c["line"], "search": c["search"],
                    "replace": c["replace"], "opts": c["opts"]}, "observed": C.out_line(impl)[1]})
    elif reproduced:
        ctx.known(SLUG_FIRST)
    ctx.sample({"busy_line": cases[len(fixed_cases())]["line"], "impl": C.describe_out(res[len(fixed_cases())][1])})
    return True


def replay_case(ctx, C, case):
    """replay of a recorded busy-lines case (items are rebuilt from the recorded description)"""
    import json
    from . import common
    forms = C.Forms()
    placed = [(d["offset"], Item(d["kind"], d["outside_the_term"][0], d["term"], d["outside_the_term"][1], d["term_style"],
                                 None if d["strict_expected"] is None else
                                 d["strict_expected"][len(d["outside_the_term"][0]):len(d["strict_expected"]) - len(d["outside_the_term"][1])]))
              for d in case["items"]]
    req = C.mkreq(forms, case["line"], case["search"], case["replace"], case["opts"], plurals=case.get("plurals", True),
                  cli=case.get("cli", True))
    impl, model = common.run_impl([req])[0], common.run_model([req])[0]
    d = C.describe_out(impl)
    print(json.dumps({"request": C.describe(req), "impl": d, "model": C.describe_out(model)}, indent=1))
    if not isinstance(d, dict) or d["status"] != "ok":
        ctx.violation("input", case, expected="plan and apply succeed", observed=d, note="replayed busy line fails")
        return
    bad = judge_line(case["line"], placed, [tuple(h) for h in d["hunks"]], d["line"], C.enabled(case["opts"]), case["rwords"])
    rest = []
    for k, why in bad:
        hit = [h for h in d["hunks"] if k >= 0 and h[0] == placed[k][0] and h[1] == placed[k][1].term]
        if len(hit) == 1 and first_occ_class(case["line"], placed, k, why, hit[0][2], case["rwords"]) and ctx.known(SLUG_FIRST):
            continue
        rest.append([k, why])
    if rest:
        ctx.violation("input", {**case, "failing_items": rest}, expected="see items", observed=d,
                      model_prediction=C.describe_out(model), note="replayed busy line fails: " + "; ".join(w for _, w in rest))
    else:
        print("property holds on this case" if not bad else "fails only as the listed finding describes")
