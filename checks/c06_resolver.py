"""C06, clause 3, family "resolver context": the ambiguity resolver WITH its context heuristics, model against code.

The model (lean/RModel/Model/Resolver.lean) covers levels 1-3 of `AmbiguityResolver::resolve_with_styles`: the twelve
language modules (PARSED from languages/*.rs into decision trees by translate/languagerules.py, interpreted by
Model/ResolverRules.lean), the file-context analyzer (transliterated), and the cross-file level, which `generate_hunks` can
never reach (`project_root: None`, re-read from the source by translate/resolvershape.py).  Four request kinds:

  langsuggest  `LanguageHeuristics::suggest_style(path, preceding, possible)` — every string literal the language modules test
               for is read out of `languages/*.rs` at run time and used as a building block of the preceding text, alone,
               glued to letters, followed by other text, in combinations of two or three (branch ORDER), with every extension
               of the table, unknown / missing / upper-case extensions, dot files, directories with dots, and arbitrary as well
               as realistic `possible_styles` lists
  filesuggest  `FileContextAnalyzer::suggest_style(content, possible)` — files whose counted identifiers sit just below / at /
               above the 50-identifier threshold and the 0.4 ratio, ties for the first and for the second place, dominant style
               not possible, with the noise the extractor has to get right (strings in three kinds of quotes, a lone apostrophe,
               `//` comments, numbers, one-letter names, ambiguous single words, `-`/`_` mixes)
  resolvewhy   the whole `resolve_with_styles` on the context `generate_hunks` builds -> answering level + style
  rewritefile  (real pipeline) + hunkctx (model): the replacement text of every ambiguous occurrence in multi-line files of the
               languages above, occurrence in the syntactic positions the rules test

Oracle (independent of the model): clause 3 itself — the style chosen by the real resolver / the text written by the real
pipeline keeps the first-letter case of the match, and an all-upper-case match stays all upper case.
Correspondence: level and style equal.  At equal counts the real answer depends on `HashMap` iteration order (`RandomState`),
so the harness repeats the call and reports the distinct answers; the model reports the set of answers over all orders
(`Resolver.fileChoices`, proved to contain every answer of `fileSuggest ord`): observed must be a subset of the model's set,
equal when that is a singleton.  A case where the real code gives different answers on the same input is recorded in
`ctx.cov["resolver_nondeterminism"]` (finding outside the text of C06: both answers keep the case).
"""
import os
import re

from . import common, gen
from .common import hexs, unhex

LANG_DIR = os.path.join(common.REPO, "renamify-core/src/ambiguity/languages")
EXTS = {
    "ruby": ["rb", "rake", "gemspec"], "python": ["py", "pyw", "pyi"],
    "javascript": ["js", "jsx", "mjs", "cjs", "ts", "tsx"], "go": ["go"], "rust": ["rs"], "java": ["java", "kt", "kts"],
    "c_cpp": ["c", "cpp", "cc", "cxx", "h", "hpp", "hxx"], "css": ["css", "scss", "sass", "less", "styl"],
    "html": ["html", "htm", "xml", "svg", "vue"], "shell": ["sh", "bash", "zsh", "fish", "ksh"], "yaml": ["yml", "yaml"],
    "config": ["json", "jsonc", "json5", "toml", "ini", "cfg", "conf", "env"],
}
OTHER_NAMES = ["notes.txt", "README.md", "Makefile", ".bashrc", ".rs", "a.RS", "a.Py", "x.rs.bak", "dir.rs/plain", "a.", "b..",
               "src.d/mod.rs", "./lib.py", "a/b/../c.go", "trailing.js/", "noext", "x.yaml.j2", "p.q.toml"]
FILL = ["foo", "x", "MAX_SIZE", "=", "Foo", "\"", "(", "'", "VERSION", "A_B =", "name", "this.", "0", "T", "let x =", ",",
        "r#", "<T", "[", "]", ":", "::", "env:", "- name:", "static", "()", "{", "$", "a.b"]
WS = ["", "", "", " ", "  ", "\t", " \t ", "\n", "\x0b", "\x0c"]

# texts the resolver is asked about: ambiguous (flat / single word, the three case shapes) and a few that are not
AMBIG = ["foobar", "FOOBAR", "Foobar", "foo", "Foo", "FOO", "tigerlemon", "TIGERLEMON", "Tiger", "x", "X", "ab", "AB", "Ab",
         "foo2", "FOO2", "v2"]
CLEAR = ["foo_bar", "fooBar", "FooBar", "FOO_BAR", "foo-bar", "Foo-Bar", "foo.bar", "Foo Bar"]
REPLS = ["baz_qux", "bazQux", "BazQux", "baz-qux", "BAZ_QUX", "Baz-Qux", "baz.qux", "Baz Qux", "baz qux", "BAZ QUX", "Baz qux",
         "baz", "Baz", "BAZ", "bazqux", "BAZQUX", "nova_widget_gadget"]
LOWER_FIRST = {"snake", "kebab", "camel", "dot", "lower_flat", "lower_sentence"}
ALL_UPPER = {"screaming_snake", "screaming_train", "upper_flat", "upper_sentence"}
IDENT_STYLES = ["snake", "kebab", "camel", "pascal", "screaming_snake", "train", "screaming_train"]
WORDS = [w for w in gen.VOCAB if w not in ("foo", "bar", "baz", "qux", "tiger", "lemon")] + \
        ["amber", "birch", "cedar", "maple", "olive", "hazel", "kappa", "sigma", "theta", "omega"]


def literals():
    """{language: [string and char literals its module tests the context for]} read from the Rust sources (code part only)"""
    out = {}
    for lang in EXTS:
        src = open(os.path.join(LANG_DIR, lang + ".rs")).read().split("#[cfg(test)]")[0]
        lits = re.findall(r'(?:ends_with|contains|starts_with|split)\(\s*"((?:[^"\\]|\\.)*)"\s*\)', src)
        lits += re.findall(r"(?:ends_with|contains|starts_with)\(\s*'((?:[^'\\]|\\.)*)'\s*\)", src)
        lits = [l.replace('\\"', '"').replace("\\'", "'").replace("\\\\", "\\") for l in lits]
        if len(lits) < 5:
            raise RuntimeError(f"cannot read the literals of languages/{lang}.rs")
        out[lang] = sorted(set(lits))
    return out


def gates():
    """(threshold, ratio numerator, ratio denominator) of FileContextAnalyzer::default(), read from the source"""
    from fractions import Fraction
    src = open(os.path.join(common.REPO, "renamify-core/src/ambiguity/file_context.rs")).read()
    m1 = re.search(r"min_identifiers_threshold:\s*(\d+)\s*,", src)
    m2 = re.search(r"medium_confidence_ratio:\s*([0-9.]+)\s*,", src)
    if not m1 or not m2:
        raise RuntimeError("cannot read FileContextAnalyzer::default()")
    r = Fraction(m2.group(1))
    return int(m1.group(1)), r.numerator, r.denominator


def possible_list(rng):
    k = rng.random()
    if k < 0.35:
        return rng.sample(gen.STYLES, rng.randint(1, 5))
    if k < 0.5:
        return list(gen.STYLES)
    if k < 0.55:
        return []
    # the lists the resolver really passes: compatible styles of a lower / capitalised / upper word
    return rng.choice([["snake", "kebab", "camel", "dot", "lower_flat", "lower_sentence"],
                       ["pascal", "train", "title", "sentence"],
                       ["screaming_snake", "screaming_train", "upper_flat", "upper_sentence"],
                       ["pascal", "screaming_snake", "train", "screaming_train", "title", "upper_flat", "sentence",
                        "upper_sentence"]])


def preceding_text(rng, lits, lang):
    """the text in front of the match: 1-3 building blocks, most of them literals of the language's own module"""
    own = lits[lang] if lang else sum(lits.values(), [])
    n = rng.choice([1, 1, 1, 2, 2, 3])
    parts = []
    for _ in range(n):
        k = rng.random()
        if k < 0.62:
            parts.append(rng.choice(own))
        elif k < 0.72:
            parts.append(rng.choice(lits[rng.choice(list(lits))]))
        else:
            parts.append(rng.choice(FILL))
        if rng.random() < 0.15:
            parts[-1] = rng.choice(["x", "re", "A", "_"]) + parts[-1]      # glued to a letter: ends_with has no word boundary
        if rng.random() < 0.1:
            parts[-1] = parts[-1].upper()
    text = rng.choice(["", " ", " ", ""]).join(parts) if n > 1 else parts[0]
    if rng.random() < 0.04:
        text = ""
    return rng.choice(WS) + text + rng.choice(WS)


def file_name(rng, lang):
    if lang is None:
        return rng.choice(OTHER_NAMES)
    name = rng.choice(["notes", "a-b", "x.test", "Main"]) + "." + rng.choice(EXTS[lang])
    return rng.choice(["", "", "src/", "/tmp/w.d/", "./"]) + name


def render_ident(rng, st):
    return gen.render(st, rng.sample(WORDS, rng.randint(2, 3)))


# never counted: one letter, numbers, ambiguous single words, text inside the three kinds of quotes, `//` comments
SAFE_NOISE = ["x", "i", "42", "0x1f", "value", "Total", "MAX", "\"quoted_snake_name inside\"", "'single_quoted camelCase'",
              "`back_tick_name`", "// comment_with_snake_name and camelCaseName"]
# may be counted, may swallow what follows (a lone apostrophe / quote opens a string that ends at the next one)
HOSTILE_NOISE = SAFE_NOISE + ["a-1", "__init__", "_private", "trailing_", "-dash-", "Mixed_Case", "mixed-Case", "3d", "v2",
                              "HTTPServer", "getHTTP", "a_b-c", "x_", "--", "1_000", "don't", "say \"", "/ /", "a/b_c//d_e",
                              "url = http://host_name/path_name", "`", "it's snake_case_name's"]


def file_content(rng, counts, noise=0, hostile=False):
    """a file whose COUNTED identifiers are `counts[style]` multi-word identifiers per style, plus uncounted noise"""
    idents = []
    for st, n in counts.items():
        idents += [render_ident(rng, st) for _ in range(n)]
    rng.shuffle(idents)
    lines = []
    for k, ident in enumerate(idents):
        sep = rng.choice([" = ", "(", ": ", " ", ", ", ";", " + "])
        lines.append(ident + sep + rng.choice(["1", "x", "()", "{", "0", ""]))
    for _ in range(noise):
        lines.insert(rng.randint(0, len(lines)), rng.choice(HOSTILE_NOISE if hostile else SAFE_NOISE))
    return "\n".join(lines) + rng.choice(["\n", "", "\r\n"])


def count_plans(rng, gate):
    """(counts per style) chosen around the two gates (threshold T counted identifiers, ratio num/den) and with ties"""
    T, num, den = gate
    a, b, c = rng.sample(IDENT_STYLES, 3)
    k = rng.random()
    if k < 0.12:
        return {a: rng.choice([T - 1, T, T + 1])}
    if k < 0.30:
        t = rng.choice([T, T + 5, T + 10, 2 * T])
        top = -(-num * t // den) + rng.choice([-1, 0, 0, 1])       # around the ratio
        rest = t - top
        return {a: top, b: rest // 2, c: rest - rest // 2}
    if k < 0.50:
        n = rng.choice([(T + 1) // 2, (T + 1) // 2 + 1, (T + 1) // 2 + 5, T])
        return {a: n, b: n, **({c: rng.randint(0, max(0, n * den // num - 2 * n) // 2)} if rng.random() < 0.5 else {})}   # tie for the first place
    if k < 0.65:
        n = rng.choice([T // 4, T // 4 + 3, T // 2])
        return {a: 3 * n, b: n, c: n}                                                          # tie for the second place
    if k < 0.75:
        return {a: rng.randint(0, T // 2 + 5), b: rng.randint(0, T // 2 + 5)}
    return {a: rng.randint(T // 2 + 5, 2 * T), b: rng.randint(0, T // 2 + 5), c: rng.randint(0, T // 2 - 5)}


def ident_byte(ch):
    return ch.isascii() and (ch.isalnum() or ch in "_-")


def first_ok(matched, style):
    """clause 3 on a style name: rendering the replacement in `style` keeps the first-letter case / the all-caps-ness"""
    if matched[:1].isalpha():
        if matched[:1].islower() != (style in LOWER_FIRST):
            return "first-letter case changed"
    if len(matched) >= 2 and any(ch.isalpha() for ch in matched) and not any(ch.islower() for ch in matched) \
            and matched[:2].isalpha() and style not in ALL_UPPER:
        return "all-upper-case match lost its case"
    return None


def parse_set(out):
    f = out.split()
    if len(f) == 3 and f[0] == "w":
        return f[1], set(f[2].split("|"))
    if len(f) == 2 and f[0] in ("q", "g"):
        return f[0], set(f[1].split("|"))
    return None, None


def compare(ctx, mod, name, reqs, describe_case):
    """impl vs model on set-valued answers.  A disagreement is recorded as a broken correspondence (the first one per
    request kind in full) and the run goes ON: the oracle then looks at every real answer for a failing input."""
    impl = mod.run_parallel(common.HARNESS_BIN, reqs)
    model = mod.run_parallel(common.RMODEL_BIN, reqs, n=4)
    ctx.cov["disagreements_checked"] += len(reqs)
    res, bad = [], []
    for k, (r, i, m) in enumerate(zip(reqs, impl, model)):
        mi, si = parse_set(i)
        mm, sm = parse_set(m)
        agree = mi is not None and mi == mm and si <= sm and (len(sm) > 1 or si == sm)
        if not agree:
            bad.append((k, r, i, m))
        elif len(si) > 1:
            ctx.count("resolver:nondeterministic-answer-observed")
            nd = ctx.cov.setdefault("resolver_nondeterminism", [])
            if len(nd) < 3:
                nd.append({"case": describe_case(k), "answers": sorted(si), "request": r})
        if agree and len(sm) > 1:
            ctx.count("resolver:tie" + (":all-choices-observed" if si == sm else ":some-choices-observed"))
        res.append((mi, si or set(), sm or set()))
    if bad:
        k, r, i, m = bad[0]
        ctx.broke("correspondence", name, {"case": describe_case(k), "request": r, "impl": i, "model": m,
                                           "count": len(bad), "of": len(reqs)})
        BROKEN.append(name)
    return res


BROKEN = []


def run_family(ctx, mod):
    """returns False when the run has to stop (violation reported or correspondence broken)"""
    rng = ctx.rng
    del BROKEN[:]
    pending = None          # a heuristic broke its contract; reported if no occurrence that changes case turns up
    try:
        lits = literals()
        gate = gates()
    except Exception as e:  # noqa: BLE001 — the generator is tied to the sources; unreadable sources are a broken tie
        ctx.broke("translator", "checks/c06_resolver.literals", repr(e))
        return False
    nlang, nfile, nwhy, nfiles = (24000, 1600, 8000, 320) if ctx.thorough else (6000, 400, 2000, 80)
    langs = list(EXTS)

    # ---- 1. language heuristics alone --------------------------------------------------------------------------------
    lcases = []
    for lang in langs:                                   # every literal of every module, bare, for every realistic list
        for lit in lits[lang]:
            for poss in (list(gen.STYLES), ["snake", "kebab", "camel", "dot", "lower_flat", "lower_sentence"],
                         ["pascal", "train", "title", "sentence"],
                         ["screaming_snake", "screaming_train", "upper_flat", "upper_sentence"]):
                lcases.append(("x." + EXTS[lang][0], lit, poss))
    for e in sum(EXTS.values(), []):
        lcases.append(("f." + e, "class", list(gen.STYLES)))
        lcases.append(("f." + e, "=", list(gen.STYLES)))
    for n in OTHER_NAMES:
        lcases.append((n, "class ", list(gen.STYLES)))
    while len(lcases) < nlang:
        lang = rng.choice(langs + [None]) if rng.random() < 0.08 else rng.choice(langs)
        lcases.append((file_name(rng, lang), preceding_text(rng, lits, lang), possible_list(rng)))
    lreqs = [f"langsuggest {hexs(n)} {hexs(p)} {','.join(poss) or '-'}" for n, p, poss in lcases]
    res = compare(ctx, mod, "langsuggest", lreqs,
                  lambda k: {"path": lcases[k][0], "preceding": lcases[k][1], "possible": lcases[k][2]})
    for (n, p, poss), (_, si, _), req in zip(lcases, res, lreqs):
        ctx.case(("langsuggest", n, p, tuple(poss)))
        if len(si) != 1:
            continue
        ans = next(iter(si))
        ctx.count("resolver:lang:" + ("silent" if ans == "none" else "answers"))
        if ans != "none" and ans not in poss:
            pending = pending or dict(
                kind="input", case={"family": "resolver", "line": p, "op": "LanguageHeuristics::suggest_style", "path": n,
                                    "preceding": p, "possible": poss, "request": req},
                expected={"member of": poss}, observed=ans,
                note="a language heuristic answers a style that is not among the possible styles (the contract clause 3 "
                     "rests on); no occurrence whose case changes was found in this run")

    # ---- 2. file context alone -------------------------------------------------------------------------------------------
    fcases = []
    for _ in range(nfile):
        counts = count_plans(rng, gate)
        hostile = rng.random() < 0.3
        content = file_content(rng, counts, noise=rng.choice([0, 0, 5, 30]), hostile=hostile)
        fcases.append((content, possible_list(rng), counts, hostile))
    freqs = [f"filesuggest {hexs(c)} {','.join(poss) or '-'} 10" for c, poss, _, _ in fcases]
    res = compare(ctx, mod, "filesuggest", freqs,
                  lambda k: {"counts": fcases[k][2], "possible": fcases[k][1], "hostile_noise": fcases[k][3],
                             "content_head": fcases[k][0][:200]})
    for (content, poss, counts, hostile), (_, si, _), req in zip(fcases, res, freqs):
        ctx.case(("filesuggest", req))
        if not si:
            continue
        ctx.count("resolver:file:" + ("silent" if si == {"none"} else "answers"))
        bad = [a for a in si if a != "none" and a not in poss]
        if bad:
            pending = pending or dict(
                kind="input", case={"family": "resolver", "line": "", "op": "FileContextAnalyzer::suggest_style",
                                    "counts": counts, "possible": poss, "content": content, "request": req},
                expected={"member of": poss}, observed=bad,
                note="the file-context heuristic answers a style that is not among the possible styles (the contract "
                     "clause 3 rests on); no occurrence whose case changes was found in this run")
            continue
        if not hostile:        # without noise the generator knows the counts: the two gates, independently of the model
            total, top = sum(counts.values()), max(counts.values())
            silent_expected = total < gate[0] or gate[2] * top < gate[1] * total or \
                not any(n > 0 and st in poss for st, n in counts.items())
            if silent_expected != (si == {"none"}) and "filesuggest gates" not in BROKEN:
                # not a clause of C06 (a different threshold keeps the property): the documented gates are a tie of the MODEL
                BROKEN.append("filesuggest gates")
                ctx.broke("correspondence", "filesuggest gates",
                          {"counts": counts, "possible": poss, "expected": "silent" if silent_expected else "an answer",
                           "observed": sorted(si), "request": req,
                           "note": f"threshold {gate[0]} counted identifiers / ratio {gate[1]}/{gate[2]} / a counted possible style: the gates the "
                                   "generator builds its files around are not the ones the code applies"})

    # ---- 3. the whole resolver on the scanner's context --------------------------------------------------------------------
    wcases = []
    for _ in range(nwhy):
        lang = rng.choice(langs + [None, None])
        matched = rng.choice(AMBIG) if rng.random() < 0.9 else rng.choice(CLEAR)
        repl = rng.choice(REPLS)
        pre = preceding_text(rng, lits, lang).replace("\n", " ") if rng.random() < 0.8 else rng.choice(["", "  ", "let "])
        post = rng.choice(["", ")", " = 1", "()", ";", ":", "\"", " {", "_x", "Bar"])
        line = pre + matched + post + rng.choice(["\n", "\n", "\r\n", ""])
        pos = len(pre)
        k = rng.random()
        if k < 0.04:
            pos = len(line) + rng.randint(1, 3)
        elif k < 0.08:
            pos = rng.randint(0, len(line))
        k = rng.random()
        if k < 0.25:
            content = None
        elif k < 0.5:
            content = line
        else:
            content = file_content(rng, count_plans(rng, gate), noise=rng.choice([0, 4, 20]), hostile=False) + line
        wcases.append({"path": file_name(rng, lang), "content": content, "line": line, "pos": pos, "matched": matched,
                       "replacement": repl})
    wreqs = [f"resolvewhy {hexs(c['path'])} {'none' if c['content'] is None else hexs(c['content'])} {hexs(c['line'])} "
             f"{c['pos']} {hexs(c['matched'])} {hexs(c['replacement'])} 8" for c in wcases]
    res = compare(ctx, mod, "resolvewhy", wreqs, lambda k: {k2: v for k2, v in wcases[k].items() if k2 != "content"})
    for c, (method, si, _), req in zip(wcases, res, wreqs):
        ctx.case(("resolvewhy", req))
        ctx.count("resolver:level:" + str(method))
        if method is None or method == "notambiguous":
            continue
        for st in si:
            why = first_ok(c["matched"], st)
            if why:
                ctx.violation("input", {"family": "resolver", "op": "resolve_with_styles", **c, "request": req},
                              expected="a style that keeps the first-letter case and the all-caps-ness of the match",
                              observed={"level": method, "style": st},
                              note="ambiguity clause with the context heuristics active: " + why)
                return False

    # ---- 4. through the real pipeline: multi-line files, the replacement text of every ambiguous occurrence ---------------
    plans = [("foo", "baz_qux", "default", ["foo", "Foo", "FOO"]),
             ("foo", "bazQux", "default", ["foo", "Foo", "FOO"]),
             ("foobar", "baz_qux", "default", ["foobar", "Foobar", "FOOBAR"]),
             ("foo_bar", "baz_qux", "i=lower_flat,upper_flat", ["foobar", "FOOBAR"]),
             ("Foo", "BazQux", "default", ["foo", "Foo", "FOO"])]
    pfiles = []
    for k in range(nfiles):
        lang = langs[k % len(langs)] if k % 7 else None
        search, repl, opts, occs = plans[k % len(plans)]
        name = (rng.choice(["notes", "main", "a-b"]) + "." + rng.choice(EXTS[lang])) if lang else rng.choice(["notes.txt", "README.md", "Makefile"])
        mode = rng.choice(["none", "few", "dominant", "dominant", "tie"])
        T = gate[0]
        counts = {"none": {}, "few": {rng.choice(IDENT_STYLES): rng.randint(5, max(5, T - 10))},
                  "dominant": {rng.choice(IDENT_STYLES): rng.randint(T, T + 20), rng.choice(IDENT_STYLES): rng.randint(0, 10)},
                  "tie": dict.fromkeys(rng.sample(IDENT_STYLES, 2), (T + 1) // 2 + 5)}[mode]
        lines = file_content(rng, counts, noise=rng.choice([0, 3])).split("\n") if counts else []
        lines = [l.rstrip("\r") for l in lines if l]
        where = []
        for _ in range(rng.randint(3, 7)):
            pre = preceding_text(rng, lits, lang).replace("\n", " ").replace("\x0b", " ").replace("\x0c", " ")
            occ = rng.choice(occs)
            post = rng.choice(["", ")", " = 1", "()", ";", ":", " {", ","])
            lines.insert(rng.randint(0, len(lines)), pre + occ + post)
        content = "\n".join(lines) + "\n"
        pfiles.append({"name": name, "content": content, "search": search, "replace": repl, "opts": opts, "mode": mode})
    preqs = [f"rewritefile {hexs(c['name'])} {hexs(c['content'])} {hexs(c['search'])} {hexs(c['replace'])} {c['opts']} q1"
             for c in pfiles]
    pouts = mod.run_parallel(common.HARNESS_BIN, preqs)
    hreqs, hmeta = [], []
    for c, req, out in zip(pfiles, preqs, pouts):
        ctx.case(("resolver-file", req))
        status, new, hunks = mod.parse_file_out(out)
        short = {k2: c[k2] for k2 in ("name", "search", "replace", "opts", "mode")}
        if status != "ok":
            ctx.violation("input", {"family": "resolver", "line": "", **short, "content": c["content"], "request": req},
                          expected="plan and apply succeed", observed=out[:300],
                          note="plan or apply failed on a file of the resolver-context family")
            return False
        raw_lines = c["content"].split("\n")
        for l, col, old, rep in hunks:
            ctx.count("resolver:pipeline-hunk")
            src = raw_lines[l - 1]
            # C06 speaks about occurrences that stand alone; one glued to identifier bytes (`traitFOOBAR`, `data-foo`) is
            # C07's subject (the coercion to the container's style acts there): correspondence only
            embedded = (col > 0 and ident_byte(src[col - 1])) or (col + len(old) < len(src) and ident_byte(src[col + len(old)]))
            why = None if embedded else mod.keeps_case(old, rep)
            if embedded:
                ctx.count("resolver:pipeline-hunk:embedded-no-oracle")
            if why:
                ctx.violation("input", {"family": "resolver", **short, "line": raw_lines[l - 1], "line_number": l,
                                        "content": c["content"], "request": req},
                              expected="first-letter case and all-caps-ness of the occurrence preserved",
                              observed={"occurrence": old, "rewritten_as": rep},
                              note=f"ambiguity clause in {c['name']} ({c['mode']} file context): " + why)
                return False
            line = raw_lines[l - 1] + "\n"
            hreqs.append(f"hunkctx {hexs(c['name'])} {hexs(c['content'])} {hexs(line)} {col} {hexs(old)} {hexs(c['replace'])}")
            hreqs.append(f"resolvewhy {hexs(c['name'])} {hexs(c['content'])} {hexs(line)} {col} {hexs(old)} {hexs(c['replace'])} 1")
            hmeta.append((short, raw_lines[l - 1], l, col, old, rep, c["content"], req))
    houts = mod.run_parallel(common.RMODEL_BIN, hreqs, n=4)
    ctx.cov["disagreements_checked"] += len(hmeta)
    for k, (short, line, l, col, old, rep, content, req) in enumerate(hmeta):
        pred, why = houts[2 * k].split(), houts[2 * k + 1].split()
        if pred[:2] == ["h", "notambiguous"]:
            ctx.count("resolver:pipeline-hunk:not-ambiguous")
            continue
        if len(why) == 3 and "|" in why[2]:
            ctx.count("resolver:pipeline-hunk:tie-skipped")
            continue
        ctx.count("resolver:pipeline-hunk:compared:" + (why[1] if len(why) == 3 else "?"))
        got = "h " + hexs(rep)
        if " ".join(pred) != got:
            BROKEN.append("hunkctx")
            ctx.broke("correspondence", "hunkctx", {"case": {**short, "line": line, "line_number": l, "col": col,
                                                              "occurrence": old},
                                                    "impl_replacement": rep,
                                                    "model_replacement": unhex(pred[1]).decode("utf-8", "replace") if len(pred) == 2 and pred[1] != "none" else pred,
                                                    "model_level": why, "request": hreqs[2 * k], "pipeline_request": req})
            return False
    # ---- the recorded witness of the hash-order dependence (corpus/C06/file_context_tie_hash_order.json) ----------------
    wpath = os.path.join(common.ROOT, "corpus", "C06", "file_context_tie_hash_order.json")
    if os.path.exists(wpath):
        import json
        wcase = json.load(open(wpath))["case"]
        wreq = [wcase["request"], wcase["whole_resolver_request"]]
        wi, wm = common.run_impl(wreq), common.run_model(wreq)
        ctx.case(("witness", wreq[0]))
        (_, a0), (_, m0), (l1, a1), (l1m, m1) = parse_set(wi[0]), parse_set(wm[0]), parse_set(wi[1]), parse_set(wm[1])
        # the model answers with the set of BOTH styles while the code walks its HashMap (Gen.fileContextCanonicalOrder =
        # false), and with the one style the canonical order gives since repo commit 40204b5
        ok_sets = (m0 == m1 == {"camel", "snake"}) or (m0 == m1 and len(m0) == 1 and a0 == m0 and a1 == m1)
        if not (a0 and m0 and a0 <= m0 and a1 and m1 and a1 <= m1 and l1 == l1m == "file" and ok_sets):
            ctx.broke("correspondence", "witness file_context_tie_hash_order", {"impl": wi, "model": wm})
            BROKEN.append("witness")
        elif len(a0) > 1 or len(a1) > 1:
            ctx.count("resolver:witness-tie:both-answers-observed")
            ctx.known("file_context_tie_hash_order")          # printed only when the finding is listed
        else:
            ctx.count("resolver:witness-tie:one-answer-observed")   # 24 repetitions all alike: chance 2^-23, or repaired

    # ---- the edge of the ASCII domain: recorded, not judged (Rust's char classes are Unicode aware, the model's are ASCII).
    #      If model and code ever AGREE on all of these the domain note in Model/Resolver.lean is out of date.
    probes = [("m.py", "\u00c9 =", ["snake", "screaming_snake"]),          # É is_uppercase: the all-caps test of python.rs holds
              ("m.sh", "\u00e9$", ["snake", "screaming_snake"]),            # é is a lower-case letter: not "all upper"
              ("m.rs", "fn\u00a0", ["snake", "camel"])]                     # U+00A0 is white space for str::trim
    preqs2 = [f"langsuggest {hexs(n)} {hexs(p)} {','.join(poss)}" for n, p, poss in probes]
    ctx.cov["resolver_outside_ascii_domain"] = [
        {"path": n, "preceding": p, "impl": i, "model": m}
        for (n, p, _), i, m in zip(probes, common.run_impl(preqs2), common.run_model(preqs2))]
    ctx.sample({"resolver_family": {"langsuggest": len(lreqs), "filesuggest": len(freqs), "resolvewhy": len(wreqs),
                                    "pipeline_files": len(pfiles), "pipeline_hunks_compared": len(hmeta),
                                    "example": {k2: v for k2, v in wcases[0].items() if k2 != "content"}}})
    if pending:
        ctx.violation(pending.pop("kind"), pending.pop("case"), **pending)
        return False
    return not BROKEN


def replay_case(ctx, mod, case):
    """re-run one recorded request of this family on the real code and judge it with the oracle"""
    import json
    req = case.get("request", "")
    out = common.run_impl([req])[0]
    model = common.run_model([req])[0] if not req.startswith("rewritefile ") else None
    print(json.dumps({"request": req[:200], "impl": out[:400], "model": model}, indent=1))
    bad = None
    if req.startswith("rewritefile "):
        status, new, hunks = mod.parse_file_out(out)
        fails = [(l, c, a, b, mod.keeps_case(a, b)) for l, c, a, b in hunks if mod.keeps_case(a, b)]
        if status != "ok" or fails:
            bad = {"status": status, "failing_hunks": fails}
    elif req.startswith("resolvewhy "):
        method, si = parse_set(out)
        if method != "notambiguous":
            fails = [(st, first_ok(case["matched"], st)) for st in sorted(si or []) if first_ok(case["matched"], st)]
            if fails:
                bad = {"level": method, "failing_styles": fails}
    else:
        _, si = parse_set(out)
        fails = [a for a in sorted(si or []) if a != "none" and a not in case.get("possible", [])]
        if fails:
            bad = {"not_possible": fails}
    sets = [parse_set(out)[1] or set()]
    if len(sets[0]) > 1:
        print("NON-DETERMINISTIC on this input: the real code answered", sorted(sets[0]), "(both keep the case of the match)")
    if bad:
        ctx.violation("input", case, expected="clause 3 / the heuristic picks from the possible styles", observed=bad,
                      note="replayed resolver-context case fails")
    else:
        print("property holds on this case")
