"""C18 — Case conversion is a consistent algebra.

prove       RModel.Props.C18 (tokenizer/renderer round-trip, detection, idempotence; all word lists)
correspond  real parse_to_tokens / to_style / detect_style vs CaseModel.parse / toStyle / detectStyle:
            bounded-exhaustive over word sequences of length 1..3 (quick: 1..2 + a slice of 3) x 14 styles,
            random longer sequences, and a malformed stream (digits, acronyms, one-letter words, mixed separators,
            non-ASCII, punctuation)
oracle      the laws themselves evaluated on the implementation with the independent reference renderer of gen.py
"""
import itertools
import json

from . import common, gen
from .common import hexs, unhex

MALFORMED_ATOMS = ["foo", "Bar", "BAZ", "x", "A", "id", "ID", "Id", "API", "api", "Api", "URL", "Parser", "HTTPS", "2FA", "2fa",
                   "k8s", "K8S", "arm64", "ARM64", "Arch", "s3", "S3", "1", "42", "_", "-", ".", " ", "__", "é", "!", "OAuth",
                   "oauth", "IDE", "NTIFIERS", "JSONB", "json", "Ui", "UID", "v2", "V2", "iOS", "e", "I"]


EXT_WORDS = ["lib", "java", "so", "md", "txt", "exe", "rs", "py", "go", "lock", "sh", "rb", "conf", "cfg", "bin", "dat", "log",
             "bak", "tmp", "zip", "tar", "doc", "class", "swift", "kt", "ts", "js", "yml", "ini", "env", "cpp"]


def toks(line):
    f = line.split()
    return [unhex(x).decode() for x in f[1:]]


def run(ctx):
    ctx.cov["rule"] = ("tokens/tostyle/detect requests: exhaustive over sequences of length 1..3 of the 12-word neutral vocabulary "
                       "x 14 styles (quick: lengths 1..2 exhaustive + 300 sampled triples), random sequences up to length 8, sequences of length "
                       "2-3 with a word that is also a file extension (lib, java, so, md, lock ...) in every position, "
                       "malformed stream of 3000 (quick 800) concatenations of hostile atoms; variant table for ordered term pairs. "
                       "non-trivial = at least two words or a hostile atom; distinct = distinct request line")
    ctx.assumptions += ["acronym set = DEFAULT_ACRONYMS (regenerated from acronym.rs on every run)",
                        "pluralizer is a parameter of the variant-table theorem; the oracle uses vocabulary words without irregular plurals"]
    ctx.prove("RModel.Props.C18")
    ok, msg = common.cargo_build()
    if not ok:
        ctx.broke("build", "cargo", msg)
        return
    rng = ctx.rng
    V = gen.VOCAB
    seqs = [list(s) for n in (1, 2) for s in itertools.product(V, repeat=n)]
    triples = [list(s) for s in itertools.product(V, repeat=3)]
    if ctx.thorough:
        seqs += triples
    else:
        seqs += rng.sample(triples, 300)
    for _ in range(400 if ctx.thorough else 100):
        seqs.append([rng.choice(V) for _ in range(rng.randint(4, 8))])
    # ordinary lower-case words that are ALSO spelled like file extensions or common short suffixes (none is in the acronym
    # set): `delta.lib`, `alpha_so`, `LockTiger` are renderings like any other — every position, lengths 2 and 3
    E = EXT_WORDS if ctx.thorough else EXT_WORDS[:6] + rng.sample(EXT_WORDS[6:], 4)
    base = V[:4] if ctx.thorough else V[:2]
    for e in E:
        for a in base:
            seqs += [[a, e], [e, a], [e, e]]
            seqs += [[a, V[5], e], [e, a, V[6]], [a, e, V[7]]]

    # ---- round trip / detection / idempotence -------------------------------------------------
    reqs, meta = [], []
    for ws in seqs:
        for st in gen.STYLES:
            reqs.append("tostyle " + st + " " + " ".join(hexs(w) for w in ws))
            meta.append((ws, st))
    res = common.correspond(ctx, "to_style vs CaseModel.toStyle", reqs)
    rendered = []
    for (r, impl, model), (ws, st) in zip(res, meta):
        ctx.case(r, nontrivial=len(ws) >= 2)
        got = unhex(impl.split()[1]).decode()
        want = gen.render(st, ws)
        if got != want:
            ctx.violation("input", {"op": "to_style", "words": ws, "style": st}, expected=want, observed=got,
                          model_prediction=model, note="rendering differs from the reference renderer")
            return
        rendered.append((ws, st, got))
    ctx.count("render", len(reqs))
    reqs2 = []
    for ws, st, text in rendered:
        reqs2.append("tokens " + hexs(text))
        reqs2.append("detect " + hexs(text))
    res2 = common.correspond(ctx, "parse_to_tokens/detect_style vs CaseModel.parse/detectStyle", reqs2)
    reqs3, meta3 = [], []
    for i, (ws, st, text) in enumerate(rendered):
        t_impl = toks(res2[2 * i][1])
        d_impl = res2[2 * i + 1][1].split()[1]
        ctx.cov["evaluations"] += 2
        if st in gen.V12:
            if [t.lower() for t in t_impl] != ws:
                ctx.violation("input", {"op": "parse(render)", "words": ws, "style": st, "text": text},
                              expected=ws, observed=t_impl, model_prediction=res2[2 * i][2],
                              note="parsing the rendered name does not give the words back")
                return
            if len(ws) >= 2 and d_impl != st:
                ctx.violation("input", {"op": "detect(render)", "words": ws, "style": st, "text": text},
                              expected=st, observed=d_impl, model_prediction=res2[2 * i + 1][2],
                              note="rendered multi-word name is not recognised as its style")
                return
        # idempotence for all 14 styles: render st (parse (render st ws)) = render st ws
        reqs3.append("tostyle " + st + " " + " ".join(hexs(t) for t in t_impl))
        meta3.append((ws, st, text))
    res3 = common.correspond(ctx, "to_style (idempotence leg)", reqs3)
    for (r, impl, model), (ws, st, text) in zip(res3, meta3):
        ctx.cov["evaluations"] += 1
        again = unhex(impl.split()[1]).decode()
        if again != text:
            ctx.violation("input", {"op": "idempotence", "words": ws, "style": st, "text": text},
                          expected=text, observed=again, model_prediction=model,
                          note="converting twice differs from converting once")
            return
    ctx.sample({"words": rendered[200][0], "style": rendered[200][1], "rendered": rendered[200][2]})

    # ---- malformed stream: only model-vs-implementation ------------------------------------------
    reqs4 = []
    for _ in range(3000 if ctx.thorough else 800):
        s = "".join(rng.choice(MALFORMED_ATOMS) for _ in range(rng.randint(1, 6)))
        reqs4.append("tokens " + hexs(s))
        reqs4.append("detect " + hexs(s))
        ctx.case(("m", s))
    res4 = common.correspond(ctx, "tokenizer/detector on hostile strings", reqs4)
    reqs5 = []
    for r, impl, model in res4[::2]:
        ts = impl.split()[1:]
        st = rng.choice(gen.STYLES)
        reqs5.append("tostyle " + st + " " + " ".join(ts))
    common.correspond(ctx, "to_style on hostile tokens", reqs5)
    ctx.count("malformed", len(reqs4) + len(reqs5))
    ctx.sample({"malformed": unhex(reqs4[0].split()[1]).decode(), "impl": res4[0][1]})

    # ---- variant table ---------------------------------------------------------------------------
    pairs = []
    two = [list(s) for s in itertools.permutations(V[:6], 2)]
    for s in (two if ctx.thorough else rng.sample(two, 12)):
        for r in rng.sample(two, 4 if ctx.thorough else 3) + [[rng.choice(V)], [rng.choice(V) for _ in range(3)]]:
            if r != s:
                pairs.append((s, r))
    vreqs, vmeta = [], []
    for s, r in pairs:
        for sst in ("snake", "camel", "title"):
            for styles in ("default", "all", None):
                if styles is None:
                    sub = rng.sample(gen.STYLES, rng.randint(1, 5))
                    styles_f = ",".join(sub)
                else:
                    sub = gen.DEFAULT_STYLES if styles == "default" else gen.STYLES
                    styles_f = styles
                rst = rng.choice([sst, sst, 'snake', 'kebab', 'pascal'])
                vreqs.append(f"vmap {hexs(gen.render(sst, s))} {hexs(gen.render(rst, r))} {styles_f}")
                vmeta.append((s, r, sub, gen.render(sst, s), gen.render(rst, r), sst == rst))
    vres = common.run_impl(vreqs)
    for req, out, (s, r, sub, typed_s, typed_r, same_style) in zip(vreqs, vres, vmeta):
        ctx.case(req)
        table = {}
        for kv in out.split()[1:]:
            k, v = kv.split("=")
            table[unhex(k).decode()] = unhex(v).decode()
        for st in sub:
            if st not in gen.V12:
                continue
            k, want = gen.render(st, s), gen.render(st, r)
            if table.get(k) != want:
                if k == typed_s and table.get(k) == typed_r and not same_style and ctx.known("exact_entry_override"):
                    # documented "exact match preservation": the search text as typed maps to the replacement as typed
                    ctx.count("vmap:exact_entry_override")
                    continue
                ctx.violation("input", {"op": "variant_map", "request": req, "search_words": s, "replace_words": r, "style": st},
                              expected={k: want}, observed={k: table.get(k)},
                              note="variant table does not map the search term in an enabled style to the replacement in that style")
                return
    ctx.count("vmap", len(vreqs))
    # variant table, model vs implementation (plural variants disabled; is_ambiguous is a parameter of the model)
    terms = sorted({m[3] for m in vmeta})
    amb = dict(zip(terms, (a.split()[1] for a in common.run_impl(["ambig " + hexs(t) for t in terms]))))
    mreqs = []
    for req in vreqs:
        f = req.split()
        mreqs.append(f"vmapm {f[1]} {f[2]} {f[3]} {amb[unhex(f[1]).decode()]}")
    common.correspond(ctx, "generate_variant_map (no plurals) vs CaseModel.variantMap", mreqs)
    ctx.count("vmapm", len(mreqs))
    ctx.sample({"vmap": vreqs[0], "impl": vres[0][:200]})


def replay(ctx, path):
    obj = json.load(open(path))
    print(json.dumps(obj, indent=1)[:3000])
