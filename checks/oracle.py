"""Independent reference interpreter of a plan JSON (the oracle of C02/C08/C01).

It knows nothing about the order in which renamify executes things: content is spliced left to
right at the recorded positions and every node moves to the path obtained by replacing each
component whose original prefix is the source of a planned rename."""
import os


def rel(root, p):
    p = os.path.normpath(p)
    if os.path.isabs(p):
        return os.path.relpath(p, root)
    return p


def plan_edits(plan, root):
    by = {}
    for m in plan.get("matches", []):
        by.setdefault(rel(root, m["file"]), []).append(m)
    return by


def plan_renames(plan, root):
    return [(r["kind"], rel(root, r["path"]), rel(root, r.get("new_path", ""))) for r in plan.get("paths", [])]


def splice(content, matches):
    """left-to-right splice; returns (new_content, problem or None)"""
    ms = sorted(matches, key=lambda m: (m["start"], m["end"]))
    out, pos = [], 0
    for m in ms:
        s, e = m["start"], m["end"]
        if s < pos:
            return None, f"overlap at {s}"
        if e > len(content) or s > e:
            return None, f"out of range {s}..{e}"
        if content[s:e] != m["content"].encode():
            return None, f"recorded text {m['content']!r} != file bytes {content[s:e]!r} at {s}"
        out.append(content[pos:s])
        out.append(m.get("replace", "").encode())
        pos = e
    out.append(content[pos:])
    return b"".join(out), None


def final_path(path, renames):
    """apply the renames of the ancestors and the node's own rename, in original coordinates"""
    src = {p: q for _, p, q in renames}
    comps = path.split("/")
    out = []
    for i in range(len(comps)):
        prefix = "/".join(comps[: i + 1])
        if prefix in src:
            out.append(os.path.basename(src[prefix]))
        else:
            out.append(comps[i])
    return "/".join(out)


def renames_wellformed(renames, snap):
    """guard of the reference interpretation: each rename changes only the last component of an existing node,
    sources are distinct"""
    seen = set()
    for k, p, q in renames:
        if p in seen or p not in snap:
            return f"source {p} duplicated or missing"
        seen.add(p)
        if os.path.dirname(p) != os.path.dirname(q) or not os.path.basename(q):
            return f"rename {p} -> {q} changes more than the last component"
    return None


def expected_tree(snap, plan, root):
    """snap: dict rel -> (type, mode, content|target). Returns (expected snap, problem or None)."""
    edits = plan_edits(plan, root)
    renames = plan_renames(plan, root)
    prob = renames_wellformed(renames, snap)
    if prob:
        return None, prob
    out = {}
    for path, node in snap.items():
        if path in edits:
            if node[0] != "f":
                return None, f"edit on non-file {path}"
            new, prob = splice(node[2], edits[path])
            if prob:
                return None, f"{path}: {prob}"
            node = (node[0], node[1], new)
        fp = final_path(path, renames)
        if fp in out:
            return None, f"two nodes end at {fp}"
        out[fp] = node
    for path in edits:
        if path not in snap:
            return None, f"edit on missing file {path}"
    return out, None
