"""C15 — What the preview shows is what apply does.

prove       RModel.Props.C15 (valid-UTF-8 lines: line_before is the line, line_after is the single splice and the `find`
            fallback is unreachable, the right-to-left merge of render_diff equals the left-to-right splice of the line;
            kernel-evaluated witnesses for the hypotheses that are needed)
correspond  diffline   real render_plan(Preview::Diff) blocks (parsed)   vs Hunks.diffAfterText on the plan's hunks,
                       for real plans (scan_repository_multi in-process) and hand-made hostile plans (duplicates,
                       overlapping / stale hunks, newline in the replacement, unsorted, multi-byte columns)
oracle      (1) every real plan + diff against the reference splice of the plan (what C02 proves apply does);
            (2) CLI `plan --preview diff` -> `apply`: each `-` side is the file's line before, each `+` side is the
                line of the file after the real apply, each single-match line_after is that line
"""
import glob
import json
import os

from . import common, gen, gen_c03, oracle, planoracle
from . import c03 as c03mod
from .common import hexs, unhex

PROP = "RModel.Props.C15"
SLUG_DUP = "duplicate_hunks_preview_vs_apply"
SLUG_REL = "replace_offsets_preview_vs_apply"


def diffline_requests(plan):
    """one request per (file, line) group, hunks in plan order"""
    groups = {}
    for m in plan["matches"]:
        groups.setdefault((m["file"], m["line"]), []).append(m)
    out = []
    for key, ms in groups.items():
        f = ["diffline"]
        for m in ms:
            f += [str(m["byte_offset"]), hexs(m["content"]), hexs(m.get("replace", "")), hexs(m.get("line_before", "")),
                  hexs(m.get("line_after", ""))]
        out.append((key, " ".join(f)))
    return out


def lines_of(text):
    """what the printed block looks like for a before/after text: similar's line split, '\\n' trimmed, re-joined"""
    return planoracle.canon(text[:-1] if text.endswith("\n") else text)


def correspond_diff_batch(ctx, name, batch):
    """batch: list of (plan, diff_text, cwd, describe).  One model process for all (file, line) groups."""
    flat = []
    for plan, diff_text, cwd, describe in batch:
        blocks = {}
        for f, n, before, after in planoracle.parse_diff(diff_text):
            blocks[(planoracle.resolve(cwd, f), n)] = (planoracle.block_text(before), planoracle.block_text(after))
        for (f, n), r in diffline_requests(plan):
            flat.append((r, blocks.get((planoracle.resolve(cwd, f), n)), f, n, describe))
    if not flat:
        return True
    got = common.run_model([x[0] for x in flat])
    ctx.cov["disagreements_checked"] += len(flat)
    for (r, blk, f, n, describe), g in zip(flat, got):
        gf = g.split()
        if gf[:2] == ["d", "panic"]:
            want = None
        else:
            want = (lines_of(unhex(gf[1]).decode("utf-8", "replace")), lines_of(unhex(gf[2]).decode("utf-8", "replace")))
        if blk != want:
            ctx.broke("correspondence", name, {"case": describe, "file": f, "line": n, "request": r[:500], "impl(diff block)": blk,
                                               "model": want})
            return False
    return True


def correspond_diff(ctx, name, plan, diff_text, cwd, describe):
    return correspond_diff_batch(ctx, name, [(plan, diff_text, cwd, describe)])


CONTEXT_CLAUSES = ("line_before", "line_after")
DP = [False]     # Gen.lineAfterDecodesParts as extracted in this run: decides whether undecodable lines are in scope


def context_problems(plan, cwd, files, decoded_parts=False):
    """each 'before' line is the file's current line, each match's 'after' line is that line with THAT match replaced:
    judged for every hunk against the file bytes (not only for single-hunk lines), on lines in C15's scope"""
    out = []
    for p in planoracle.check_plan(plan, cwd, files):
        if p["clause"] not in CONTEXT_CLAUSES or p.get("hunk") is None:
            continue
        m = plan["matches"][p["hunk"]]
        data = files.get(planoracle.resolve(cwd, m["file"]))
        if data is not None:
            ls = data.rfind(b"\n", 0, m["start"]) + 1
            if not decoded_parts and not planoracle.is_valid_utf8(data[ls:m["start"]]):
                continue          # invalid UTF-8 in front of the match: outside C15's scope (C03 finding) unless the planner
                                  # decodes the text before / after the match separately (Gen.lineAfterDecodesParts)
        q = dict(p)
        q["file"], q["line"] = os.path.relpath(planoracle.resolve(cwd, m["file"]), cwd), m["line"]
        out.append(q)
    return out


def splice_files(plan, cwd, files):
    """reference result of apply (left-to-right splice per file); None if the plan is outside the reference guard"""
    out = dict(files)
    by = {}
    for m in plan["matches"]:
        by.setdefault(planoracle.resolve(cwd, m["file"]), []).append(m)
    for path, ms in by.items():
        if path not in files:
            return None
        new, prob = oracle.splice(files[path], ms)
        if prob:
            return None
        out[path] = new
    return out


def hostile_plans(rng, n):
    """hand-made plans for the renderdiff correspondence: (name, plan dict)"""
    out = []
    for i in range(n):
        kind = rng.choice(["consistent", "duplicate", "overlap", "stale", "newline", "unsorted", "midchar", "empty", "prefixext"])
        words = ["foo", "bar", "é", "日本", "x", "😀", "_", " ", "baz", "ß", "foo_bar", "\t"]
        pieces = [rng.choice(words) for _ in range(rng.randint(1, 9))]
        nl = rng.choice(["\n", "\r\n", ""])
        line = "".join(pieces) + nl
        offs = [0]
        for p in pieces:
            offs.append(offs[-1] + len(p.encode()))
        hunks = []
        for j, p in enumerate(pieces):
            if rng.random() < 0.45:
                rep = rng.choice(["Q", "", "qux_quux", "é", p + p, p + "_x", "日"])
                lb = line.encode()
                la = lb[:offs[j]] + rep.encode() + lb[offs[j + 1]:]
                hunks.append({"file": "/x/f.txt", "line": 3, "byte_offset": offs[j], "char_offset": 0, "variant": p, "content": p,
                              "replace": rep, "start": 100 + offs[j], "end": 100 + offs[j + 1], "line_before": line,
                              "line_after": la.decode("utf-8", "replace")})
        if not hunks:
            continue
        h = rng.choice(hunks)
        if kind == "duplicate":
            hunks.insert(hunks.index(h) + 1, dict(h))
        elif kind == "overlap":
            o = dict(h); o["byte_offset"] = max(0, h["byte_offset"] - 1); o["content"] = line.encode()[o["byte_offset"]:o["byte_offset"] + 2].decode("utf-8", "replace")
            hunks.append(o)
        elif kind == "stale":
            h["content"] = h["content"] + "z"
        elif kind == "newline":
            h["replace"] = "a\nb"
            lb = line.encode()
            h["line_after"] = (lb[:h["byte_offset"]] + b"a\nb" + lb[h["byte_offset"] + len(h["content"].encode()):]).decode("utf-8", "replace")
        elif kind == "unsorted":
            hunks.reverse()
        elif kind == "midchar":
            h["byte_offset"] += 1
        elif kind == "empty":
            h["content"] = ""
        elif kind == "prefixext":
            h["replace"] = h["content"] + "_x"
            hunks.insert(hunks.index(h) + 1, dict(h))
        plan = {"id": "p", "created_at": "0", "search": "s", "replace": "r", "styles": [], "includes": [], "excludes": [],
                "matches": hunks, "paths": [],
                "stats": {"files_scanned": 1, "total_matches": len(hunks), "matches_by_variant": {}, "files_with_matches": 1},
                "version": "1.0.0"}
        out.append((kind, plan))
    return out


def cli_apply_case(ctx, rng, idx, case=None):
    """plan (writes plan.json, prints the diff) -> apply; returns dict or None"""
    if case is None:
        case = gen_cli_apply_case(rng, idx)
    tree = c03mod.tree_from_json(case["tree"])
    return _cli_apply(case, tree)


def gen_cli_apply_case(rng, idx):
    swords, rwords = gen.pick_terms(rng)
    tree = gen_c03.gen_tree(rng, swords, malformed=False)
    search = gen.render(rng.choice(["snake", "camel", "kebab", "pascal"]), swords)
    repl = gen.render(rng.choice(["snake", "camel", "kebab"]), rwords[: rng.randint(1, len(rwords))])
    entry = "replace_lit" if idx % 5 == 4 else "plan"
    if entry == "plan":
        argv = ["plan", search, repl, "--preview", "diff", "--no-rename-paths"]
        if rng.random() < 0.2:
            argv += ["--include-styles", "title,dot"]
        if rng.random() < 0.4:
            # matches that are found but NOT planned (skipped inside the hunk loop): the lines that carry them next to
            # planned matches must still be shown as they are
            argv += ["--exclude-match", ",".join(gen.render(st, swords) for st in rng.sample(["snake", "camel", "pascal", "screaming_snake", "kebab"], rng.randint(1, 2)))]
    else:
        argv = ["replace", "--no-regex", rng.choice([swords[0], search]), repl, "--preview", "diff", "--no-rename-files", "--no-rename-dirs", "--yes"]
    return {"op": "cli", "entry": entry, "tree": c03mod.tree_to_json(tree), "argv": argv + ["--no-auto-init"], "roots": []}


def _cli_apply(case, tree):
    with common.scratch() as d:
        common.materialize(d, tree)
        before = c03mod.file_snapshot(d)
        res = {"case": case, "root": d}
        if case["entry"] == "plan":
            rc, out, err = common.cli(case["argv"], d)
            if rc != 0:
                res["status"] = "panic" if rc == 101 else "plan_failed"
                return res
            pp = os.path.join(d, ".renamify", "plan.json")
            if not os.path.exists(pp):
                res["status"] = "noplan"
                return res
            plan = json.load(open(pp))
            diff = out.decode("utf-8", "replace")
            rc2, out2, err2 = common.cli(["apply", "--no-auto-init", "--quiet"], d)
        else:
            # `replace` plans and applies in one go: take the plan from a dry run first
            dry = [a for a in case["argv"] if a != "--yes"] + ["--dry-run"]
            rcj, outj, errj = common.cli([a for a in dry if a not in ("--preview", "diff")] + ["--output", "json"], d)
            plan = c03mod.extract_plan(outj)
            if plan is None:
                res["status"] = "plan_failed"
                return res
            rc, out, err = common.cli(dry, d)
            diff = out.decode("utf-8", "replace")
            rc2, out2, err2 = common.cli(case["argv"], d)
        after = c03mod.file_snapshot(d)
        res.update({"status": "ok" if rc2 == 0 else "apply_failed", "plan": plan, "diff": diff, "before": before, "after": after,
                    "apply_err": err2.decode("utf-8", "replace")[-300:]})
        # a failed apply leaves no applied tree: the 'before' sides of the preview are still judged
        res["problems"] = context_problems(plan, d, before, DP[0]) + \
            planoracle.check_preview(plan, diff, d, before, after if rc2 == 0 else None, DP[0])
        res["plan_problems"] = planoracle.check_plan(plan, d, before)
        for p in res["problems"] + res["plan_problems"]:
            p["detail"] = p["detail"].replace(d, "<root>")
        return res


def classify(ctx, res):
    """known slug or None for a failing preview-vs-apply comparison: the plan must be inconsistent through the clause of a
    listed finding (decided by the C03 oracle), otherwise it is a violation"""
    case = res["case"]
    clauses = {p["clause"] for p in res["plan_problems"]}
    if "duplicate" in clauses and c03mod.roots_overlap(res["root"], case.get("roots") or []):
        return SLUG_DUP
    if case["entry"].startswith("replace") and clauses:
        rb, virt = c03mod.rebase_literal(res["plan"], res["root"], res["before"])
        if rb is not None and not planoracle.check_plan(rb, res["root"], res["before"]):
            return SLUG_REL
    return None


def run(ctx):
    ctx.cov["rule"] = ("diffline: every (file, line) group of real plans from generated trees (several matches per line, length-changing "
                       "replacements, multi-byte text before matches, CRLF, lone CR, no final newline, 10^4-byte lines) plus hostile "
                       "hand-made plans (duplicates, overlaps, stale text, newline replacement, unsorted, mid-character columns); "
                       "oracle: reference splice for every in-process plan and real `apply` for the CLI cases.  non-trivial = a line "
                       "with at least one hunk; distinct = distinct (tree, terms)")
    ctx.assumptions += ["lines are valid UTF-8 (invalid UTF-8 before a match makes the planner panic: C16)",
                        "replacements contain no newline (true of every case-aware plan; a witness shows what happens otherwise)",
                        "only the uncoloured diff and the plan JSON are in scope (table/matches/summary previews and ANSI colouring are not)",
                        "similar's line differ breaks at a lone CR; the block is compared after re-joining its lines"]
    c03mod.run_translator(ctx)
    DP[0] = bool(ctx.cov.get("extracted", {}).get("lineAfterDecodesParts"))
    ctx.prove(PROP)
    ctx.prove("RModel.Props.Compose")      # preview_plus_line_is_line_after_apply: C15 chained with the whole apply model (C02)
    ok, msg = common.cargo_build()
    if not ok:
        ctx.broke("build", "cargo", msg)
        return
    rng = ctx.rng
    T = ctx.thorough

    for path in sorted(glob.glob(os.path.join(common.ROOT, "corpus", "C15", "*.json"))):
        replay_file(ctx, path, quiet=True)

    # ---- (a) real plans in-process: correspondence + reference-splice oracle (one harness, one model process) ----
    n_scan = 1500 if T else 240
    cases = []
    for i in range(n_scan):
        swords, rwords = gen.pick_terms(rng)
        cases.append({"tree": gen_c03.gen_tree(rng, swords, malformed=(i % 6 == 5)),
                      "search": gen.render(rng.choice(["snake", "camel", "kebab", "pascal"]), swords),
                      "replace": gen.render(rng.choice(["snake", "camel", "kebab"]), rwords[: rng.randint(1, len(rwords))]),
                      "styles": "-" if rng.random() < 0.7 else
                      ",".join(rng.sample(["snake", "camel", "kebab", "pascal", "title", "dot", "screaming_snake"], 3))})
    batch = []
    geom_batch = []
    with common.scratch() as root:
        for i, (c, (d, files, out)) in enumerate(zip(cases, c03mod.scan_batch(cases, root))):
            if out[1] != "ok":
                ctx.count("scan:" + out[1])
                continue
            plan = json.loads(unhex(out[2]))
            diff = unhex(out[3]).decode("utf-8", "replace")
            groups = {}
            for m in plan["matches"]:
                groups.setdefault((m["file"], m["line"]), []).append(m)
            ctx.case(("scan", i, c["search"], c["replace"], c["styles"], sorted(c["tree"])), nontrivial=bool(groups))
            for g in groups.values():
                ctx.count("line:hunks=%d" % min(len(g), 4))
                if any(len(m.get("replace", "")) != len(m["content"]) for m in g):
                    ctx.count("line:length_changing")
                if any(m["char_offset"] != m["byte_offset"] for m in g):
                    ctx.count("line:multibyte_before_match")
                if g[0].get("line_before", "").endswith("\r\n"):
                    ctx.count("line:crlf")
                if len(g[0].get("line_before", "")) > 9000:
                    ctx.count("line:long")
            describe = {"tree": c03mod.tree_to_json(c["tree"]), "search": c["search"], "replace": c["replace"], "styles": c["styles"]}
            batch.append((plan, diff, d, describe))
            reqs_g, want_g = c03mod.geom_requests(plan, d, files)
            geom_batch.append((describe, reqs_g, want_g))
            after = splice_files(plan, d, files)
            if after is None:
                # the plan does not fit the file (C03's subject): the 'before' sides can still be judged
                ctx.count("scan:outside_reference_guard")
            probs = context_problems(plan, d, files, DP[0]) + planoracle.check_preview(plan, diff, d, files, after, DP[0])
            if probs:
                for p in probs:
                    p["detail"] = p["detail"].replace(d, "<root>")
                ctx.violation("input", {"op": "scan", **describe}, expected="preview == file after apply (reference splice)",
                              observed=probs[:5], note=probs[0]["detail"])
                return
    correspond_diff_batch(ctx, "diffline: render_plan(Diff) vs Hunks.diffAfterText", batch)
    c03mod.check_geom_batch(ctx, "hunkgeom: line_before / line_after / char_offset of real plans vs Hunks.hunkGeomAtG Gen.lineAfterColumnIsByte",
                            geom_batch)
    # ---- (b) hostile hand-made plans: correspondence only --------------------------------------------------
    hp = hostile_plans(rng, 1500 if T else 400)
    reqs = ["renderdiff " + hexs(json.dumps(p)) for _, p in hp]
    impl = common.run_impl(reqs)
    batch = []
    for (kind, plan), r, out in zip(hp, reqs, impl):
        ctx.case(("hostile", r))
        f = out.split()
        ctx.count("hostile:" + kind + ":" + f[1])
        if f[1] == "panic":
            # the model must predict the panic
            got = common.run_model([q for _, q in diffline_requests(plan)])
            if not any(g == "d panic" for g in got):
                ctx.broke("correspondence", "renderdiff panic not predicted", {"plan": plan["matches"], "model": got})
                break
            continue
        batch.append((plan, unhex(f[2]).decode("utf-8", "replace"), "/", {"kind": kind, "hunks": plan["matches"]}))
    correspond_diff_batch(ctx, "diffline (hostile plans): render_plan(Diff) vs Hunks.diffAfterText", batch)

    # ---- (c) CLI plan -> apply -----------------------------------------------------------------------------
    from concurrent.futures import ThreadPoolExecutor
    n_cli = 300 if T else 70
    cli_cases = [gen_cli_apply_case(rng, i) for i in range(n_cli)]
    with ThreadPoolExecutor(max_workers=8) as pool:
        cli_results = list(pool.map(lambda c: cli_apply_case(ctx, None, 0, case=c), cli_cases))
    for i, res in enumerate(cli_results):
        case = res["case"]
        ctx.count(f"cli:{case['entry']}:{res['status']}")
        if res["status"] not in ("ok", "apply_failed"):
            continue
        if res["status"] == "apply_failed" and case["entry"] == "plan":
            ctx.notes.append("apply failed after plan (C02/C04 territory): " + res.get("apply_err", "")[-160:])
        ctx.case(("cli", i, case["argv"], sorted(case["tree"])), nontrivial=bool(res["plan"]["matches"]))
        if res["problems"]:
            slug = classify(ctx, res)
            if slug and ctx.known(slug):
                ctx.count("cli:known:" + slug)
                continue
            ctx.violation("input", case, expected="preview == file after apply", observed=res["problems"][:5],
                          note=res["problems"][0]["detail"])
            return
    ctx.sample({"op": "cli", "argv": case["argv"]})


def replay_file(ctx, path, quiet=False):
    obj = json.load(open(path))
    case = obj.get("case", {})
    name = os.path.basename(path)
    if isinstance(case, dict) and case.get("op") == "cli":
        res = cli_apply_case(ctx, ctx.rng, 0, case=case)
        ctx.case(("corpus", name))
        slug = classify(ctx, res) if res.get("problems") else None
        ctx.count(f"corpus:{name}:{res['status']}:{slug or ('clean' if not res.get('problems') else 'violation')}")
        if not quiet:
            print("status:", res["status"], "problems:", json.dumps(res.get("problems"), default=str)[:1500], "apply:", res.get("apply_err"))
        if res.get("problems"):
            if slug and ctx.known(slug):
                return
            ctx.violation("input", case, expected="preview == file after apply", observed=res["problems"][:5],
                          note=res["problems"][0]["detail"])
        return
    if isinstance(case, dict) and "hunks" in case:
        plan = {"id": "p", "created_at": "0", "search": "s", "replace": "r", "styles": [], "includes": [], "excludes": [],
                "matches": case["hunks"], "paths": [],
                "stats": {"files_scanned": 1, "total_matches": len(case["hunks"]), "matches_by_variant": {}, "files_with_matches": 1},
                "version": "1.0.0"}
        out = common.run_impl(["renderdiff " + hexs(json.dumps(plan))])[0].split()
        ctx.case(("corpus", name))
        if not quiet:
            print("impl:", out[1], unhex(out[2]).decode("utf-8", "replace") if len(out) > 2 else "")
            print("model:", common.run_model([q for _, q in diffline_requests(plan)]))
        if out[1] == "ok":
            correspond_diff(ctx, "diffline (corpus): " + name, plan, unhex(out[2]).decode("utf-8", "replace"), "/", {"corpus": name})
            want = case.get("expect_after")
            if want is not None:
                blocks = planoracle.parse_diff(unhex(out[2]).decode("utf-8", "replace"))
                got = [planoracle.block_text(b[3]) for b in blocks]
                ctx.count(f"corpus:{name}:" + ("as_recorded" if got == want else "differs"))
        return
    if not quiet:
        print(json.dumps(obj, indent=1)[:3000])


def replay(ctx, path):
    ok, msg = common.cargo_build()
    if not ok:
        ctx.broke("build", "cargo", msg)
        return
    common.lean_build([])
    replay_file(ctx, path)
